/-
C12 — helper lemmas, part E: text WITH colour codes.  `ircutils.wrap` recomputes the context of each
line by parsing the line it has just produced (re-opened codes + chunk).  We show by simulation that,
as long as no line after the first begins with a digit or a comma, the recomputed contexts are the
contexts of the original text (up to a lone background gaining the foreground 0), hence re-opening
never costs more than the overhead that was reserved.
-/
import LimnoriaModel.C12.LemmasFlags
namespace C12
open Py

/-! ## simulation relation between the recomputed state `p` and the original state `o` -/

def FgRel (c o : Ctx) : Prop := c.fg = o.fg ∨ (o.fg = none ∧ c.fg = some 0 ∧ o.bg.isSome = true)

def SimSt (p o : PState) : Prop :=
  p.mode = o.mode ∧ p.ctx.bold = o.ctx.bold ∧ p.ctx.reverse = o.ctx.reverse ∧
  p.ctx.underline = o.ctx.underline ∧ p.ctx.bg = o.ctx.bg ∧
  (match o.mode with
    | .plain => FgRel p.ctx o.ctx
    | .fg _ _ _ => True
    | .bg _ _ _ => p.ctx.fg = o.ctx.fg)

theorem simSt_refl (o : PState) : SimSt o o := by
  refine ⟨rfl, rfl, rfl, rfl, rfl, ?_⟩
  split
  · exact Or.inl rfl
  · trivial
  · rfl

@[simp] theorem bump_ctx (st : PState) : st.bump.ctx = st.ctx := rfl
@[simp] theorem bump_mode (st : PState) : st.bump.mode = st.mode := rfl

theorem plainStep_sim {p o : PState} (h : SimSt p o) (hm : o.mode = .plain) (x : Char) :
    SimSt (plainStep p x) (plainStep o x) := by
  obtain ⟨h0, h1, h2, h3, h4, h5⟩ := h
  rw [hm] at h5 h0
  simp only at h5
  unfold plainStep
  split
  · refine ⟨by simp [h0, hm], by simp [h1], by simp [h2], by simp [h3], by simp [h4], ?_⟩
    simp only [bump_mode, hm]
    simpa [FgRel] using h5
  · split
    · refine ⟨by simp [h0, hm], by simp [h1], by simp [h2], by simp [h3], by simp [h4], ?_⟩
      simp only [bump_mode, hm]
      simpa [FgRel] using h5
    · split
      · refine ⟨by simp [h0, hm], by simp [h1], by simp [h2], by simp [h3], by simp [h4], ?_⟩
        simp only [bump_mode, hm]
        simpa [FgRel] using h5
      · split
        · refine ⟨by simp [h0, hm], rfl, rfl, rfl, rfl, ?_⟩
          simp only [hm]
          exact Or.inl rfl
        · split
          · exact ⟨rfl, h1, h2, h3, h4, trivial⟩
          · refine ⟨by rw [h0, hm], h1, h2, h3, h4, ?_⟩
            rw [hm]; exact h5

theorem finish_sim {p o : PState} (h : SimSt p o) : SimSt (finish p) (finish o) ∧ (finish o).mode = .plain := by
  obtain ⟨h0, h1, h2, h3, h4, h5⟩ := h
  unfold finish
  rw [h0]
  cases hm : o.mode with
  | plain =>
    rw [hm] at h5
    exact ⟨⟨by rw [h0, hm], h1, h2, h3, h4, by rw [hm]; exact h5⟩, hm⟩
  | fg i set n =>
    refine ⟨⟨rfl, h1, h2, h3, h4, ?_⟩, rfl⟩
    simp only [bump_mode, setFg]
    exact Or.inl rfl
  | bg i set n =>
    rw [hm] at h5
    simp only at h5
    refine ⟨⟨rfl, h1, h2, h3, rfl, ?_⟩, rfl⟩
    simp only [bump_mode, setBg]
    exact Or.inl h5

theorem finish_mode (st : PState) : (finish st).mode = .plain := by
  unfold finish
  cases hm : st.mode <;> simp [setFg, setBg, hm]

theorem continues_digit {i n : Nat} {c : Char} (h : continues i n c = true) : isDigit c = true := by
  simp only [continues, Bool.and_eq_true] at h; exact h.1.1

/-- a character that cannot continue a colour code closes any pending colour, then acts as in plain mode -/
theorem step_clean (st : PState) {x : Char} (hx : contChar x = false) : step st x = plainStep (finish st) x := by
  simp only [contChar, Bool.or_eq_false_iff, decide_eq_false_iff_not] at hx
  obtain ⟨hd, hcomma⟩ := hx
  unfold step finish
  cases hm : st.mode <;> simp [continues, hd, hcomma]

theorem step_sim {p o : PState} (h : SimSt p o) (x : Char) : SimSt (step p x) (step o x) := by
  obtain ⟨h0, h1, h2, h3, h4, h5⟩ := h
  have hfin := finish_sim ⟨h0, h1, h2, h3, h4, h5⟩
  cases hm : o.mode with
  | plain =>
    have hpm : p.mode = .plain := by rw [h0, hm]
    have hs := plainStep_sim ⟨h0, h1, h2, h3, h4, h5⟩ hm x
    unfold step
    rw [hpm, hm]
    exact hs
  | fg i set n =>
    have hpm : p.mode = .fg i set n := by rw [h0, hm]
    have hplain := plainStep_sim hfin.1 hfin.2 x
    unfold finish at hplain
    rw [hpm, hm] at hplain
    unfold step
    rw [hpm, hm]
    simp only
    split
    · exact ⟨rfl, h1, h2, h3, h4, trivial⟩
    · split
      · exact ⟨rfl, h1, h2, h3, h4, rfl⟩
      · exact hplain
  | bg i set n =>
    have hpm : p.mode = .bg i set n := by rw [h0, hm]
    have hplain := plainStep_sim hfin.1 hfin.2 x
    unfold finish at hplain
    rw [hpm, hm] at hplain
    rw [hm] at h5
    simp only at h5
    unfold step
    rw [hpm, hm]
    simp only
    split
    · exact ⟨rfl, h1, h2, h3, h4, h5⟩
    · exact hplain

theorem foldl_step_sim (s : Str) : ∀ {p o : PState}, SimSt p o → SimSt (s.foldl step p) (s.foldl step o) := by
  induction s with
  | nil => intro p o h; exact h
  | cons x xs ih => intro p o h; exact ih (step_sim h x)

/-! ## the parser only produces colours below `colorLimit` (sharper version of `parse_ctxOk`) -/

def CtxB (B : Nat) (c : Ctx) : Prop := (∀ f, c.fg = some f → f < B) ∧ (∀ b, c.bg = some b → b < B)

def StB (B : Nat) (st : PState) : Prop :=
  CtxB B st.ctx ∧ (match st.mode with
    | .plain => True
    | .fg i _ _ => i < B
    | .bg i _ _ => i < B)

theorem ctxB_default (B : Nat) : CtxB B {} := ⟨(by intro f h; simp at h), (by intro b h; simp at h)⟩

theorem plainStep_okB {B : Nat} (hB : 0 < B) {st : PState} (h : CtxB B st.ctx) (hm : st.mode = .plain) (c : Char) :
    StB B (plainStep st c) := by
  unfold plainStep
  split
  · exact ⟨h, by simp [hm]⟩
  · split
    · exact ⟨h, by simp [hm]⟩
    · split
      · exact ⟨h, by simp [hm]⟩
      · split
        · exact ⟨ctxB_default B, by simp [hm]⟩
        · split
          · exact ⟨h, by simpa using hB⟩
          · exact ⟨h, by simp [hm]⟩

theorem ctxB_setFg {B : Nat} {st : PState} (h : CtxB B st.ctx) {i : Nat} (hi : i < B) (set : Bool) :
    CtxB B (setFg st (optOf i set)).ctx := by
  refine ⟨?_, h.2⟩
  intro f hf
  cases set <;> simp [setFg, optOf] at hf
  omega

theorem ctxB_setBg {B : Nat} {st : PState} (h : CtxB B st.ctx) {i : Nat} (hi : i < B) (set : Bool) :
    CtxB B (setBg st (optOf i set)).ctx := by
  refine ⟨h.1, ?_⟩
  intro f hf
  cases set <;> simp [setBg, optOf] at hf
  omega

theorem step_okB {B : Nat} (hB : 0 < B) (hlim : Gen.colorLimit ≤ B) {st : PState} (h : StB B st) (c : Char) :
    StB B (step st c) := by
  obtain ⟨hctx, hmode⟩ := h
  unfold step
  split
  · rename_i hm; exact plainStep_okB hB hctx hm c
  · rename_i i set n hm
    rw [hm] at hmode
    simp only at hmode
    split
    · rename_i hcont
      have := continues_lt hcont
      exact ⟨hctx, by simp only; omega⟩
    · split
      · exact ⟨ctxB_setFg hctx hmode set, by simpa using hB⟩
      · exact plainStep_okB hB (st := (setFg st (optOf i set)).bump) (ctxB_setFg hctx hmode set) rfl c
  · rename_i i set n hm
    rw [hm] at hmode
    simp only at hmode
    split
    · rename_i hcont
      have := continues_lt hcont
      exact ⟨hctx, by simp only; omega⟩
    · exact plainStep_okB hB (st := (setBg st (optOf i set)).bump) (ctxB_setBg hctx hmode set) rfl c

theorem foldl_step_okB {B : Nat} (hB : 0 < B) (hlim : Gen.colorLimit ≤ B) (s : Str) :
    ∀ st, StB B st → StB B (s.foldl step st) := by
  induction s with
  | nil => intro st h; exact h
  | cons c cs ih => intro st h; exact ih _ (step_okB hB hlim h c)

theorem finish_ctxB {B : Nat} {st : PState} (h : StB B st) : CtxB B (finish st).ctx := by
  obtain ⟨hctx, hmode⟩ := h
  unfold finish
  split
  · exact hctx
  · rename_i i set n hm; rw [hm] at hmode; exact ctxB_setFg hctx hmode set
  · rename_i i set n hm; rw [hm] at hmode; exact ctxB_setBg hctx hmode set

theorem stB_default (B : Nat) : StB B {} := ⟨ctxB_default B, by simp⟩

/-! ## re-opening a context: `start` followed by a clean character reproduces it -/

/-- what `start` + re-parse makes of a context: a lone background gets the foreground 0 -/
def norm (c : Ctx) : Ctx := if c.fg.isNone && c.bg.isSome then { c with fg := some 0 } else c

def optFin (f : Fin 17) : Option Nat := if f.val = 16 then none else some f.val

def mkCtx (f b : Fin 17) (bd rv ul : Bool) : Ctx :=
  { fg := optFin f, bg := optFin b, bold := bd, reverse := rv, underline := ul }

/-- all 2312 contexts with colours below 16: parsing what `start` emits gives the context back -/
theorem reopen_table : ∀ (f b : Fin 17) (bd rv ul : Bool),
    (finish (((mkCtx f b bd rv ul).start []).foldl step {})).ctx = norm (mkCtx f b bd rv ul) := by
  decide +kernel

theorem optFin_surj (v : Option Nat) (h : ∀ x, v = some x → x < 16) : ∃ f : Fin 17, optFin f = v := by
  cases v with
  | none => exact ⟨⟨16, by omega⟩, by simp [optFin]⟩
  | some x =>
    have hx := h x rfl
    exact ⟨⟨x, by omega⟩, by simp [optFin]; omega⟩

theorem reopen_ctx (c : Ctx) (h16 : CtxB 16 c) : (finish ((c.start []).foldl step {})).ctx = norm c := by
  obtain ⟨f, hf⟩ := optFin_surj c.fg h16.1
  obtain ⟨b, hb⟩ := optFin_surj c.bg h16.2
  have : c = mkCtx f b c.bold c.reverse c.underline := by
    cases c; simp only [mkCtx, hf, hb] at *
  rw [this]
  exact reopen_table f b _ _ _

theorem start_append (c : Ctx) (l : Str) : c.start l = c.start [] ++ l := by
  simp [Ctx.start, List.append_assoc]

theorem fgRel_norm {c o : Ctx} (hbg : c.bg = o.bg) (h : FgRel c o) : FgRel (norm c) o := by
  unfold norm
  split
  · rename_i hn
    simp only [Bool.and_eq_true, Option.isNone_iff_eq_none] at hn
    rcases h with h | h
    · right; exact ⟨by rw [← h]; exact hn.1, rfl, by rw [← hbg]; exact hn.2⟩
    · rw [h.2.1] at hn; simp at hn
  · exact h

theorem reopen_sim {p o : PState} (h : SimSt p o) (h16 : CtxB 16 (finish p).ctx) {x : Char}
    (hx : contChar x = false) (xs : Str) :
    SimSt (((finish p).ctx.start (x :: xs)).foldl step {}) ((x :: xs).foldl step o) := by
  rw [start_append, List.foldl_append, List.foldl_cons, List.foldl_cons]
  apply foldl_step_sim
  rw [step_clean _ hx, step_clean o hx]
  obtain ⟨⟨_, g1, g2, g3, g4, g5⟩, gm⟩ := finish_sim h
  rw [gm] at g5
  simp only at g5
  have hq := reopen_ctx (finish p).ctx h16
  have hqm := finish_mode (((finish p).ctx.start []).foldl step {})
  apply plainStep_sim _ gm
  refine ⟨by rw [hqm, gm], ?_, ?_, ?_, ?_, ?_⟩
  · rw [hq]; unfold norm; split <;> exact g1
  · rw [hq]; unfold norm; split <;> exact g2
  · rw [hq]; unfold norm; split <;> exact g3
  · rw [hq]; unfold norm; split <;> exact g4
  · rw [gm]; simp only; rw [hq]; exact fgRel_norm g4 g5

/-! ## the recorded maximum dominates every context that is ever closed -/

/-- in plain mode the current context has been accounted for -/
def InvG (st : PState) : Prop := st.mode = .plain → st.ctx.size ≤ st.maxSize

theorem invG_default : InvG {} := by intro _; simp [size_default]

theorem bump_inv (st : PState) : st.bump.ctx.size ≤ st.bump.maxSize ∧ st.maxSize ≤ st.bump.maxSize := by
  simp only [PState.bump]; omega

theorem plainStep_inv {st : PState} (h : st.ctx.size ≤ st.maxSize) (x : Char) :
    InvG (plainStep st x) ∧ st.maxSize ≤ (plainStep st x).maxSize := by
  unfold plainStep
  split
  · exact ⟨fun _ => (bump_inv _).1, by simp only [PState.bump]; omega⟩
  · split
    · exact ⟨fun _ => (bump_inv _).1, by simp only [PState.bump]; omega⟩
    · split
      · exact ⟨fun _ => (bump_inv _).1, by simp only [PState.bump]; omega⟩
      · split
        · exact ⟨fun _ => by simp [size_default], Nat.le_refl _⟩
        · split
          · exact ⟨fun hm => by simp at hm, Nat.le_refl _⟩
          · exact ⟨fun _ => h, Nat.le_refl _⟩

theorem finish_inv {st : PState} (h : InvG st) :
    (finish st).ctx.size ≤ (finish st).maxSize ∧ st.maxSize ≤ (finish st).maxSize := by
  unfold finish
  cases hm : st.mode with
  | plain => exact ⟨h hm, Nat.le_refl _⟩
  | fg i set n =>
    have hs : (setFg st (optOf i set)).maxSize = st.maxSize := rfl
    have hb := bump_inv (setFg st (optOf i set))
    simp only
    exact ⟨hb.1, by omega⟩
  | bg i set n =>
    have hs : (setBg st (optOf i set)).maxSize = st.maxSize := rfl
    have hb := bump_inv (setBg st (optOf i set))
    simp only
    exact ⟨hb.1, by omega⟩

theorem step_inv {st : PState} (h : InvG st) (x : Char) : InvG (step st x) ∧ st.maxSize ≤ (step st x).maxSize := by
  cases hm : st.mode with
  | plain =>
    have := plainStep_inv (h hm) x
    unfold step; rw [hm]; exact this
  | fg i set n =>
    unfold step; rw [hm]
    simp only
    split
    · exact ⟨fun hm' => by simp at hm', Nat.le_refl _⟩
    · split
      · exact ⟨fun hm' => by simp at hm', Nat.le_refl _⟩
      · have hb := bump_inv (setFg st (optOf i set))
        obtain ⟨h3, h4⟩ := plainStep_inv hb.1 x
        have hs : (setFg st (optOf i set)).maxSize = st.maxSize := rfl
        exact ⟨h3, by omega⟩
  | bg i set n =>
    unfold step; rw [hm]
    simp only
    split
    · exact ⟨fun hm' => by simp at hm', Nat.le_refl _⟩
    · have hb := bump_inv (setBg st (optOf i set))
      obtain ⟨h3, h4⟩ := plainStep_inv hb.1 x
      have hs : (setBg st (optOf i set)).maxSize = st.maxSize := rfl
      exact ⟨h3, by omega⟩

theorem foldl_step_inv (s : Str) : ∀ {st : PState}, InvG st →
    InvG (s.foldl step st) ∧ st.maxSize ≤ (s.foldl step st).maxSize := by
  induction s with
  | nil => intro st h; exact ⟨h, Nat.le_refl _⟩
  | cons x xs ih =>
    intro st h
    obtain ⟨h1, h2⟩ := step_inv h x
    obtain ⟨h3, h4⟩ := ih h1
    exact ⟨h3, by simp only [List.foldl_cons]; omega⟩

/-- the context closed at a point of the text is accounted for in the maximum of the whole text, when
the text stops there or goes on with a character that cannot continue a colour code -/
theorem size_finish_le_final {st : PState} (h : InvG st) (rest : Str)
    (hrest : rest = [] ∨ ∃ y ys, rest = y :: ys ∧ contChar y = false) :
    (finish st).ctx.size ≤ (finish (rest.foldl step st)).maxSize := by
  rcases hrest with rfl | ⟨y, ys, rfl, hy⟩
  · exact (finish_inv h).1
  · simp only [List.foldl_cons]
    have h1 := (finish_inv h).1
    have h2 := (plainStep_inv h1 y)
    rw [← step_clean st hy] at h2
    have h3 := foldl_step_inv ys h2.1
    have h4 := finish_inv h3.1
    have : (finish st).ctx.size ≤ (step st y).maxSize := by
      rw [step_clean st hy]
      have := (plainStep_inv h1 y).2
      omega
    omega

/-! ## cost of re-opening a recomputed context, against the size of the original one -/

theorem cost_sim (hcs : ConstsOk) (hk : CharsOk) {c o : Ctx}
    (h1 : c.bold = o.bold) (h2 : c.reverse = o.reverse) (h3 : c.underline = o.underline) (h4 : c.bg = o.bg)
    (h5 : FgRel c o) (ho : CtxB 16 o) :
    c.startCost + b2n c.active ≤ o.size ∧ b2n c.active ≤ o.size ∧ (c.active = false → c.startCost = 0) := by
  have hok : CtxOk c := by
    constructor
    · intro f hf
      rcases h5 with h5 | h5
      · have := ho.1 f (by rw [← h5]; exact hf); omega
      · rw [h5.2.1] at hf; injection hf with hf; omega
    · intro b hb
      have := ho.2 b (by rw [← h4]; exact hb); omega
  have hp := blen_colorPrefix hk c hok
  obtain ⟨_, h6, h3', h1', _⟩ := hcs
  refine ⟨?_, ?_, inactive_startCost c⟩
  · obtain ⟨cf, cb, cbd, crv, cul⟩ := c
    obtain ⟨of, ob, obd, orv, oul⟩ := o
    simp only at h1 h2 h3 h4
    subst h1; subst h2; subst h3; subst h4
    unfold FgRel at h5
    simp only at h5
    unfold Ctx.startCost Ctx.size Ctx.active
    rcases h5 with h5 | ⟨h5, h5', h5''⟩
    · subst h5
      cases cf <;> cases cb <;> cases cbd <;> cases crv <;> cases cul <;>
        simp [b2n] at hp ⊢ <;> omega
    · subst h5; subst h5'
      cases cb <;> cases cbd <;> cases crv <;> cases cul <;>
        simp [b2n] at hp h5'' ⊢ <;> omega
  · obtain ⟨cf, cb, cbd, crv, cul⟩ := c
    obtain ⟨of, ob, obd, orv, oul⟩ := o
    simp only at h1 h2 h3 h4
    subst h1; subst h2; subst h3; subst h4
    unfold FgRel at h5
    simp only at h5
    unfold Ctx.size Ctx.active
    rcases h5 with h5 | ⟨h5, h5', h5''⟩
    · subst h5
      cases cf <;> cases cb <;> cases cbd <;> cases crv <;> cases cul <;>
        simp [b2n] <;> omega
    · subst h5; subst h5'
      cases cb <;> cases cbd <;> cases crv <;> cases cul <;>
        simp [b2n] at h5'' ⊢ <;> omega

/-! ## the loop of `ircutils.wrap` on lines that start cleanly -/

def CleanHead (l : Str) : Prop := ∃ x xs, l = x :: xs ∧ contChar x = false

theorem flatten_clean (ls : List Str) (h : ∀ l ∈ ls, CleanHead l) :
    ls.flatten = [] ∨ ∃ y ys, ls.flatten = y :: ys ∧ contChar y = false := by
  cases ls with
  | nil => left; rfl
  | cons l ls' =>
    obtain ⟨x, xs, rfl, hx⟩ := h l List.mem_cons_self
    right; exact ⟨x, xs ++ ls'.flatten, by simp, hx⟩

theorem coherentFrom_clean (hcs : ConstsOk) (hk : CharsOk) (hlim : Gen.colorLimit ≤ 16) (ov : Nat) :
    ∀ (lines : List Str) (p o : PState), SimSt p o → StB 16 p → StB 16 o → InvG o →
      (∀ l ∈ lines, CleanHead l) →
      (finish (lines.flatten.foldl step o)).maxSize ≤ ov →
      coherentFrom ov (some (finish p).ctx) lines = true := by
  intro lines
  induction lines with
  | nil => intro _ _ _ _ _ _ _ _; rfl
  | cons l ls ih =>
    intro p o hsim hp ho hinv hclean hov
    obtain ⟨x, xs, rfl, hx⟩ := hclean l List.mem_cons_self
    have hcl : ∀ l ∈ ls, CleanHead l := fun l hl => hclean l (List.mem_cons_of_mem _ hl)
    have hov' : (finish (ls.flatten.foldl step ((x :: xs).foldl step o))).maxSize ≤ ov := by
      simpa [List.foldl_append] using hov
    -- the recomputed state after this line simulates the original one
    have hsim' := reopen_sim hsim (finish_ctxB hp) hx xs
    have hp' : StB 16 (((finish p).ctx.start (x :: xs)).foldl step {}) :=
      foldl_step_okB (by omega) hlim _ _ (stB_default 16)
    have ho' : StB 16 ((x :: xs).foldl step o) := foldl_step_okB (by omega) hlim _ _ ho
    have hinv' := (foldl_step_inv (x :: xs) hinv).1
    have hrest := ih _ _ hsim' hp' ho' hinv' hcl hov'
    -- sizes of the two original contexts involved are below the overhead
    have hs1 : (finish o).ctx.size ≤ ov := by
      have := size_finish_le_final hinv ((x :: xs) ++ ls.flatten) (Or.inr ⟨x, xs ++ ls.flatten, by simp, hx⟩)
      simp only [List.flatten_cons] at hov; omega
    have hs2 : (finish ((x :: xs).foldl step o)).ctx.size ≤ ov := by
      have := size_finish_le_final hinv' ls.flatten (flatten_clean ls hcl)
      omega
    -- cost
    obtain ⟨⟨_, a1, a2, a3, a4, a5⟩, am⟩ := finish_sim hsim
    rw [am] at a5
    obtain ⟨⟨_, b1, b2, b3, b4, b5⟩, bm⟩ := finish_sim hsim'
    rw [bm] at b5
    obtain ⟨c1, _, c3⟩ := cost_sim hcs hk a1 a2 a3 a4 a5 (finish_ctxB ho)
    obtain ⟨_, d2, _⟩ := cost_sim hcs hk b1 b2 b3 b4 b5 (finish_ctxB ho')
    have hcost : (finish p).ctx.startCost +
        b2n (finish (((finish p).ctx.start (x :: xs)).foldl step {})).ctx.active ≤ ov := by
      have hb := b2n_le (finish (((finish p).ctx.start (x :: xs)).foldl step {})).ctx.active
      cases hact : (finish p).ctx.active
      · have := c3 hact; omega
      · rw [hact] at c1; simp only [b2n, ↓reduceIte] at c1; omega
    simp only [coherentFrom, Bool.and_eq_true, decide_eq_true_eq]
    exact ⟨hcost, hrest⟩

/-- the whole loop, first line included -/
theorem coherentFrom_clean_all (hcs : ConstsOk) (hk : CharsOk) (hlim : Gen.colorLimit ≤ 16) (ov : Nat)
    (lines : List Str) (hclean : cleanStarts lines = true)
    (hov : (parse lines.flatten).maxSize ≤ ov) : coherentFrom ov none lines = true := by
  cases lines with
  | nil => rfl
  | cons l ls =>
    have hcl : ∀ x ∈ ls, CleanHead x := by
      intro x hx
      simp only [cleanStarts, List.tail_cons, List.all_eq_true] at hclean
      have := hclean x hx
      cases x with
      | nil => simp at this
      | cons y ys => exact ⟨y, ys, rfl, by simpa using this⟩
    have hinv := (foldl_step_inv l invG_default).1
    have hst : StB 16 (l.foldl step {}) := foldl_step_okB (by omega) hlim _ _ (stB_default 16)
    have hov' : (finish (ls.flatten.foldl step (l.foldl step {}))).maxSize ≤ ov := by
      simpa [parse, List.foldl_append] using hov
    have hrest := coherentFrom_clean hcs hk hlim ov ls _ _ (simSt_refl (l.foldl step {})) hst hst hinv hcl hov'
    have hs : (finish (l.foldl step {})).ctx.size ≤ ov := by
      have := size_finish_le_final hinv ls.flatten (flatten_clean ls hcl); omega
    have hact := active_le_size hcs (finish (l.foldl step {})).ctx
    simp only [coherentFrom, Bool.and_eq_true, decide_eq_true_eq]
    exact ⟨by show 0 + b2n (parse l).ctx.active ≤ ov; unfold parse; omega, hrest⟩

/-! ## munging does not change what the parser sees -/

/-- neither a control character, nor a digit, nor a comma -/
def neutral (c : Char) : Bool := !isCtl c && !isDigit c && !(c = ',')

theorem step_neutral (st : PState) {c : Char} (h : neutral c = true) : step st c = finish st := by
  simp only [neutral, Bool.and_eq_true, Bool.not_eq_true', decide_eq_false_iff_not] at h
  obtain ⟨⟨h1, h2⟩, h3⟩ := h
  have hx : contChar c = false := by simp [contChar, h2, h3]
  rw [step_clean st hx]
  simp only [isCtl, Bool.or_eq_false_iff, decide_eq_false_iff_not] at h1
  obtain ⟨⟨⟨⟨g1, g2⟩, g3⟩, g4⟩, g5⟩ := h1
  simp [plainStep, g1, g2, g3, g4, g5]

theorem finish_of_plain {st : PState} (h : st.mode = .plain) : finish st = st := by
  unfold finish; rw [h]

theorem finish_finish (st : PState) : finish (finish st) = finish st :=
  finish_of_plain (finish_mode st)

theorem isTwWs_neutral {c : Char} (h : isTwWs c = true) : neutral c = true := by
  simp only [isTwWs, Bool.or_eq_true, decide_eq_true_eq] at h
  rcases h with ((((h | h) | h) | h) | h) | h <;> subst h <;> decide

theorem foldl_replicate_space (k : Nat) (hk : 0 < k) (st : PState) :
    (List.replicate k ' ').foldl step st = finish st := by
  induction k generalizing st with
  | zero => omega
  | succ k ih =>
    simp only [List.replicate_succ, List.foldl_cons]
    rw [step_neutral st (by decide)]
    by_cases hk0 : k = 0
    · subst hk0; rfl
    · rw [ih (by omega), finish_finish]

theorem foldl_expandTabs (s : Str) : ∀ (col : Nat) (st : PState),
    (expandTabs col s).foldl step st = s.foldl step st := by
  induction s with
  | nil => intro col st; rfl
  | cons c cs ih =>
    intro col st
    unfold expandTabs
    split
    · rename_i h; subst h
      rw [List.foldl_append, foldl_replicate_space _ (by omega), ih, List.foldl_cons, step_neutral st (by decide)]
    · split <;> simp only [List.foldl_cons, ih]

theorem foldl_map_ws (s : Str) : ∀ (st : PState),
    (s.map fun c => if isTwWs c then ' ' else c).foldl step st = s.foldl step st := by
  induction s with
  | nil => intro st; rfl
  | cons c cs ih =>
    intro st
    simp only [List.map_cons, List.foldl_cons]
    cases hw : isTwWs c
    · simp only [Bool.false_eq_true, ↓reduceIte, ih]
    · simp only [↓reduceIte]
      rw [step_neutral st (by decide : neutral ' ' = true), step_neutral st (isTwWs_neutral hw), ih]

/-- the parser sees the munged text exactly as it sees the text -/
theorem parse_munge_all (s : Str) : parse (munge s) = parse s := by
  unfold parse munge
  rw [foldl_map_ws, foldl_expandTabs]

end C12
