/-
C12 — property theorems: long replies are split without loss, invention or overflow.
(Helper lemmas live in Lemmas.lean, LemmasFmt.lean, LemmasReply.lean.)

Parameters of the model (stated contracts): `chunks` is `textwrap.TextWrapper()._split_chunks(t)`,
whose only assumed property is `chunks.flatten = munge t` (and no empty chunk); the text `s` is what
`ircutils.safeArgument` returned; `irc.isChannel` enters through three booleans of `Env`.
-/
import LimnoriaModel.C12.LemmasStrip
namespace C12
open Py

/-- Facts about the constants *extracted from /repo* on which the theorems below rest: the four tries of
`splitBytes`, the sizes counted by `FormatContext.size`, the colour limit of `getInt`, 512, the factor 8
of the suffix reserve, the wire template of the probe, the suffix texts, the control characters.
Re-checked by `decide` against whatever the sources say now. -/
theorem consts_ok : ConstsOk ∧ CharsOk ∧ TextsOk := by decide

/-! ## utils.str.splitBytes / byteTextWrap -/

/-- `splitBytes(word, size)` for a word longer than `size ≥ 4` bytes never hits its `assert False`: it
cuts the word at a character boundary; the first part is not empty and has at most `size` bytes. -/
theorem splitBytes_spec (w : Str) (size : Nat) (h4 : 4 ≤ size) (hlong : size < blen w) :
    ∃ a b, splitBytes w size = some (a, b) ∧ a ++ b = w ∧ 0 < blen a ∧ blen a ≤ size := by
  obtain ⟨a, b, h1, h2, h3, h4'⟩ := splitBytes_spec' consts_ok.1 w size h4 hlong
  exact ⟨a, b, h1, h2, by omega, h3⟩

example : splitBytes "aé😀b".toList 4 = some ("aé".toList, "😀b".toList) := by decide

/-- `byteTextWrap(t, size)` for any text and any `size ≥ 4`: the loop terminates normally, the lines
concatenate to the whitespace-munged text, and no line has more than `size` bytes. -/
theorem wrap_concat (t : Str) (chunks : List Str) (hcontract : chunks.flatten = munge t)
    (size : Nat) (h4 : 4 ≤ size) :
    ∃ lines, byteTextWrap chunks size = .ok lines ∧ lines.flatten = munge t ∧ ∀ l ∈ lines, blen l ≤ size := by
  obtain ⟨out, h1, h2, h3⟩ := wrapLoop_ok consts_ok.1 size h4 (fuelFor chunks) chunks [[]] (Nat.le_refl _)
    (by intro l hl; simp at hl; subst hl; simp [blen])
  refine ⟨out, by rw [byteTextWrap_eq consts_ok.1 _ _ h4]; exact h1, ?_, h3⟩
  rw [h2, ← hcontract]; simp

example : ["ab".toList, "      ".toList, "cd".toList].flatten = munge "ab\tcd".toList := by decide

/-- no line is empty (so there are at most as many lines as bytes) -/
theorem byteTextWrap_lines_nonempty (chunks : List Str) (hne : chunks ≠ []) (hall : ∀ c ∈ chunks, c ≠ [])
    (size : Nat) (h4 : 4 ≤ size) (lines : List Str) (h : byteTextWrap chunks size = .ok lines) :
    ∀ l ∈ lines, l ≠ [] := by
  rw [byteTextWrap_eq consts_ok.1 _ _ h4] at h
  have := wrapLoop_ne consts_ok.1 size h4 _ _ _ _ h hall (Or.inl rfl)
  rcases this with h1 | h1
  · -- lines = [[]] is impossible: the chunks are not empty, so the flattened text is not empty
    obtain ⟨out, h2, h3, _⟩ := wrapLoop_ok consts_ok.1 size h4 (fuelFor chunks) chunks [[]] (Nat.le_refl _)
      (by intro l hl; simp at hl; subst hl; simp [blen])
    rw [h2] at h
    injection h with h
    subst h
    subst h1
    cases chunks with
    | nil => exact absurd rfl hne
    | cons c cs =>
      have hc := hall c List.mem_cons_self
      simp at h3
      exact absurd h3.1.symm (by intro h; exact hc h.symm)
  · exact h1

example : byteTextWrap ["中中中".toList, " ".toList, "ab".toList] 4 = .ok ["中".toList, "中".toList, "中 ".toList, "ab".toList] := by
  decide

/-- tabs expand to at most eight columns: the munged text has at most 8 times the bytes of the text -/
theorem munge_blen_le (s : Str) : blen (munge s) ≤ 8 * blen s := munge_blen_le' s

/-! ## FormatContext / FormatParser / ircutils.wrap -/

/-- the parser only returns colours of at most two digits -/
theorem parse_colours_small (s : Str) : CtxOk (parse s).ctx := parse_ctxOk consts_ok.1 s

/-- re-opening a context in front of a chunk and closing it after it costs at most `size()` bytes
(`size()` is what `ircutils.wrap` reserves).  Needed the fix to `FormatContext.size`: colour 0 and a
lone background were not counted. -/
theorem start_end_size (c : Ctx) (hok : CtxOk c) (s : Str) : blen (c.end (c.start s)) ≤ blen s + c.size := by
  rw [blen_end consts_ok.2.1, blen_start consts_ok.2.1]
  have := startCost_le_size consts_ok.1 consts_ok.2.1 c hok
  omega

example : CtxOk { fg := some 0, bg := some 15, bold := true } := by
  constructor <;> intro x h <;> simp at h <;> omega

/-
Full statement (every line of `ircutils.wrap(s, length)` has at most `length` bytes):

    ∀ chunks s length, chunks.flatten = munge s → (parse s).maxSize + 4 ≤ length →
      ∃ lines, ircWrap chunks s length = .ok lines ∧ ∀ l ∈ lines, blen l ≤ length

FALSE on the pinned tree (`ircWrap_fits_counterexample`): the contexts are recomputed by parsing the
*produced* lines, so a re-opened foreground colour code followed by ",<digit>" is read as a
foreground,background pair and the next chunks are re-opened with a context larger than any context of
the original text (a digit following the code is harmless since `getInt` reads at most two digits)
(known finding C12-reopened-colour-runs-into-text).  Proved under the decidable coherence condition,
which holds for every text without formatting codes (`ircWrap_plain`).
-/
theorem ircWrap_fits_partial (chunks : List Str) (s : Str) (length : Nat)
    (h4 : (parse s).maxSize + 4 ≤ length) (hco : coherent chunks s length = true) :
    ∃ lines, ircWrap chunks s length = .ok lines ∧ ∀ l ∈ lines, blen l ≤ length := by
  obtain ⟨out, h1, _, h3⟩ := wrapLoop_ok consts_ok.1 (length - (parse s).maxSize) (by omega) (fuelFor chunks) chunks [[]]
    (Nat.le_refl _) (by intro l hl; simp at hl; subst hl; simp [blen])
  have hb : byteTextWrap chunks (length - (parse s).maxSize) = .ok out := by
    rw [byteTextWrap_eq consts_ok.1 _ _ (by omega)]; exact h1
  unfold coherent at hco
  rw [hb] at hco
  refine ⟨processLines none out, ?_, ?_⟩
  · unfold ircWrap
    simp only [hb]
  · intro l hl
    have := processLines_fits consts_ok.2.1 (parse s).maxSize (length - (parse s).maxSize) out none hco h3 l hl
    omega

def cexChunks : List Str := [[Char.ofNat 3, '1'], " ".toList, "aaaa".toList, " ".toList, ",2bbbb".toList, " ".toList, ",cccc".toList]
def cexText : Str := [Char.ofNat 3, '1'] ++ " aaaa ,2bbbb ,cccc".toList

example : cexChunks.flatten = munge cexText ∧ (parse cexText).maxSize + 4 ≤ 11 := by decide

/-- `ircutils.wrap('\x031 aaaa ,2bbbb ,cccc', 11)` returns a line of 12 bytes. -/
theorem ircWrap_fits_counterexample :
    ¬ (∀ chunks s length, chunks.flatten = munge s → (parse s).maxSize + 4 ≤ length →
        ∃ lines, ircWrap chunks s length = .ok lines ∧ ∀ l ∈ lines, blen l ≤ length) := by
  intro h
  obtain ⟨lines, h1, h2⟩ := h cexChunks cexText 11 (by decide) (by decide)
  have hv : ircWrap cexChunks cexText 11 = .ok
      [[Char.ofNat 3, '1', ' ', Char.ofNat 15],
       Char.ofNat 3 :: ("01aaaa ".toList ++ [Char.ofNat 15]),
       Char.ofNat 3 :: ("01,2bbbb".toList ++ [Char.ofNat 15]),
       Char.ofNat 3 :: ("1,02 ,cccc".toList ++ [Char.ofNat 15])] := by decide
  rw [hv] at h1
  injection h1 with h1
  subst h1
  have := h2 (Char.ofNat 3 :: ("1,02 ,cccc".toList ++ [Char.ofNat 15])) (by simp)
  revert this
  decide

/-- For text without formatting codes `ircutils.wrap` is `byteTextWrap`: the lines concatenate to the
munged text (nothing lost, nothing invented) and every line has at most `length` bytes. -/
theorem ircWrap_plain (chunks : List Str) (s : Str) (hplain : Plain s) (hcontract : chunks.flatten = munge s)
    (length : Nat) (h4 : 4 ≤ length) :
    ∃ lines, ircWrap chunks s length = .ok lines ∧ lines.flatten = munge s ∧ ∀ l ∈ lines, blen l ≤ length := by
  have hp : parse s = {} := parse_plain s hplain
  have hms : (parse s).maxSize = 0 := by rw [hp]
  obtain ⟨out, h1, h2, h3⟩ := wrap_concat s chunks hcontract length h4
  have hpl : ∀ l ∈ out, Plain l := plain_of_flatten (by rw [h2]; exact plain_munge hplain)
  refine ⟨out, ?_, h2, h3⟩
  unfold ircWrap
  simp only [hms, Nat.not_lt_zero, ↓reduceIte, Nat.sub_zero, h1]
  rw [processLines_plain out hpl none (Or.inl rfl)]

theorem coherent_plain (chunks : List Str) (s : Str) (hplain : Plain s) (hcontract : chunks.flatten = munge s)
    (length : Nat) (h4 : 4 ≤ length) : coherent chunks s length = true := by
  have hp : parse s = {} := parse_plain s hplain
  obtain ⟨out, h1, h2, _⟩ := wrap_concat s chunks hcontract length h4
  have hpl : ∀ l ∈ out, Plain l := plain_of_flatten (by rw [h2]; exact plain_munge hplain)
  unfold coherent
  simp only [hp, Nat.sub_zero, h1]
  exact coherentFrom_plain out hpl 0 none (Or.inl rfl)

example : Plain "hello wörld 中文 😀".toList := by decide

/-! ## _makeReply and the reply arithmetic -/

/-- A relayed reply is the frame chosen by `_makeReply` (bot hostmask, command, real target, nick prefix:
`frameLen`) plus its text; the text is the payload stripped of `\x01`, or the 44-byte error text. -/
theorem makeReply_wire (e : Env) (hn : Normal e) (s : Str) :
    blen (wire e (makeReply e s)) = frameLen e + blen (replyBody e s) ∧
    blen (replyBody e s) ≤ max (blen s) (blen e.texts.emptyReply) :=
  ⟨wire_makeReply e s, blen_replyBody_le e hn s⟩

/-- structure of `ircutils.wrap` when the size handed to `byteTextWrap` is at least 4 -/
theorem ircWrap_struct (chunks : List Str) (s : Str) (length : Nat) (h4 : (parse s).maxSize + 4 ≤ length) :
    ∃ raw, byteTextWrap chunks (length - (parse s).maxSize) = .ok raw ∧
      ircWrap chunks s length = .ok (processLines none raw) ∧ raw.flatten = chunks.flatten ∧
      (∀ l ∈ raw, blen l ≤ length - (parse s).maxSize) := by
  obtain ⟨out, h1, h2, h3⟩ := wrapLoop_ok consts_ok.1 (length - (parse s).maxSize) (by omega) (fuelFor chunks) chunks [[]]
    (Nat.le_refl _) (by intro l hl; simp at hl; subst hl; simp [blen])
  have hb : byteTextWrap chunks (length - (parse s).maxSize) = .ok out := by
    rw [byteTextWrap_eq consts_ok.1 _ _ (by omega)]; exact h1
  refine ⟨out, hb, ?_, by rw [h2]; simp, h3⟩
  unfold ircWrap
  simp only [hb]

/-- number of lines: at most 8 × the bytes of the text (never 0) -/
theorem raw_length_le (chunks : List Str) (t : Str) (hcontract : chunks.flatten = munge t) (hne : ∀ c ∈ chunks, c ≠ [])
    (size : Nat) (h4 : 4 ≤ size) (raw : List Str) (h : byteTextWrap chunks size = .ok raw) :
    raw.length ≤ max 1 (8 * blen t) := by
  cases hch : chunks with
  | nil =>
    subst hch
    have : raw = [[]] := by
      simp [byteTextWrap, wrapLoop] at h; exact h.symm
    subst this; simp only [List.length_cons, List.length_nil]; omega
  | cons c cs =>
    have hne' : chunks ≠ [] := by rw [hch]; simp
    have h1 := byteTextWrap_lines_nonempty chunks hne' hne size h4 raw h
    have h2 := blen_flatten_ge_length h1
    obtain ⟨out, h3, h4', _⟩ := wrap_concat t chunks hcontract size h4
    rw [h] at h3; injection h3 with h3; subst h3
    rw [h4'] at h2
    have := munge_blen_le t
    omega

/-
Full statement (every message of a chunked reply, as relayed by the server, fits in 512 bytes, for all
texts and settings):  `fits_512_partial` without the hypothesis `hco`.  FALSE on the pinned tree for the
reason given at `ircWrap_fits_partial` (a formatted reply whose re-opened colour code runs into the
following digits and comma); true outright for text without formatting codes (`fits_512_plain`).
What was repaired so that it holds at all: the room is measured on the message `_makeReply` really
builds (`frameLen`), the suffix reserve covers `' \x02(N more messages)\x02'` for every possible `N`,
`FormatContext.size` counts colour 0 and lone backgrounds.
-/
theorem fits_length_partial (e : Env) (hn : Normal e) (hT : TextsFine e.texts) (cfg : Cfg) (chunks : List Str)
    (s : Str) (allowed : Nat) (s1 : Str)
    (hprep : prepare e cfg s = some (allowed, s1, false))
    (hE : blen e.texts.emptyReply ≤ allowed)
    (hcontract : chunks.flatten = munge s1) (hne : ∀ c ∈ chunks, c ≠ [])
    (h4 : suffixReserve e.texts (blen s1) + (parse s1).maxSize + 4 ≤ allowed)
    (hco : coherent chunks s1 (allowed - suffixReserve e.texts (blen s1)) = true) :
    ∃ now stored, reply e cfg chunks s = .sent now stored ∧
      ∀ o ∈ now ++ stored.getD [], blen (wire e o) ≤ frameLen e + allowed := by
  obtain ⟨hc, hk, ht⟩ := consts_ok
  have hlen4 : (parse s1).maxSize + 4 ≤ allowed - suffixReserve e.texts (blen s1) := by omega
  obtain ⟨raw, hraw, hwrap, _, hrawok⟩ := ircWrap_struct chunks s1 _ hlen4
  have hfit : ∀ l ∈ processLines none raw, blen l ≤ allowed - suffixReserve e.texts (blen s1) := by
    intro l hl
    unfold coherent at hco
    rw [hraw] at hco
    have := processLines_fits hk (parse s1).maxSize _ raw none hco hrawok l hl
    omega
  have hcount : (processLines none raw).length ≤ max 1 (8 * blen s1) := by
    rw [processLines_length]
    exact raw_length_le chunks s1 hcontract hne _ (by omega) raw hraw
  have hrep := reply_chunked e cfg chunks s allowed s1 hprep (by omega) _ hwrap
  refine ⟨_, _, hrep, ?_⟩
  intro o ho
  have hmem : o ∈ deliveryOrder e ((processLines none raw).take cfg.maximumMores) := by
    rcases List.mem_append.mp ho with h | h
    · exact List.mem_of_mem_take h
    · split at h
      · simp at h
      · simp only [Option.getD_some, List.mem_reverse] at h
        exact List.mem_of_mem_drop h
  obtain ⟨j, l, hj, hl, rfl⟩ := mem_deliveryOrder e _ o hmem
  have hl := List.mem_of_mem_take hl
  have hj : j < (processLines none raw).length := by
    simp only [List.length_take] at hj; omega
  have htab : Gen.tabFactor = 8 := hc.2.2.2.2.2.2.2.1
  have hj' : j ≤ Gen.tabFactor * blen s1 := by rw [htab]; omega
  have h1 := blen_withSuffix_le hk e.texts hT j (blen s1) l hj'
  have h2 := hfit l hl
  obtain ⟨h3, h5⟩ := makeReply_wire e hn (withSuffix e.texts j l)
  omega

/-- the same with `reply.mores.length = 0`: the room is what is left of 512 bytes -/
theorem fits_512_partial (e : Env) (hn : Normal e) (hT : TextsFine e.texts) (cfg : Cfg) (chunks : List Str)
    (s : Str) (allowed : Nat) (s1 : Str)
    (hauto : cfg.moresLength = 0)
    (hprep : prepare e cfg s = some (allowed, s1, false))
    (hE : blen e.texts.emptyReply ≤ allowed)
    (hcontract : chunks.flatten = munge s1) (hne : ∀ c ∈ chunks, c ≠ [])
    (h4 : suffixReserve e.texts (blen s1) + (parse s1).maxSize + 4 ≤ allowed)
    (hco : coherent chunks s1 (allowed - suffixReserve e.texts (blen s1)) = true) :
    ∃ now stored, reply e cfg chunks s = .sent now stored ∧
      ∀ o ∈ now ++ stored.getD [], blen (wire e o) ≤ 512 := by
  obtain ⟨hc, hk, ht⟩ := consts_ok
  obtain ⟨hframe, _, _⟩ := prepare_auto ht hc e hn cfg s allowed s1 false hauto hprep
  obtain ⟨now, stored, h1, h2⟩ := fits_length_partial e hn hT cfg chunks s allowed s1 hprep hE hcontract hne h4 hco
  exact ⟨now, stored, h1, fun o ho => by have := h2 o ho; omega⟩

/-- For a reply without formatting codes, every message of a chunked reply fits in 512 bytes — for every
target, nick prefix, notice/private/to= combination, bot hostmask, nick and setting of
reply.mores.{maximum,instant}. -/
theorem fits_512_plain (e : Env) (hn : Normal e) (hT : TextsFine e.texts) (cfg : Cfg) (chunks : List Str) (s : Str) (allowed : Nat) (s1 : Str)
    (hplain : Plain s)
    (hauto : cfg.moresLength = 0)
    (hprep : prepare e cfg s = some (allowed, s1, false))
    (hE : blen e.texts.emptyReply ≤ allowed)
    (hcontract : chunks.flatten = munge s1) (hne : ∀ c ∈ chunks, c ≠ [])
    (h4 : suffixReserve e.texts (blen s1) + 4 ≤ allowed) :
    ∃ now stored, reply e cfg chunks s = .sent now stored ∧
      ∀ o ∈ now ++ stored.getD [], blen (wire e o) ≤ 512 := by
  obtain ⟨hc, hk, ht⟩ := consts_ok
  obtain ⟨hs1, _⟩ := prepare_s1 e cfg s allowed s1 false hprep
  have hp1 : Plain s1 := by
    rw [hs1]; unfold truncate
    split
    · intro c hc'; exact hplain c (List.mem_of_mem_take hc')
    · exact hplain
  have hms : (parse s1).maxSize = 0 := by rw [parse_plain s1 hp1]
  exact fits_512_partial e hn hT cfg chunks s allowed s1 hauto hprep hE hcontract hne (by omega)
    (coherent_plain chunks s1 hp1 hcontract _ (by omega))

/-- A reply that goes out as one message (reply.mores on) fits in 512 bytes. -/
theorem single_fits_512 (e : Env) (hn : Normal e) (cfg : Cfg) (chunks : List Str) (s : Str) (allowed : Nat) (s1 : Str)
    (hauto : cfg.moresLength = 0) (hmores : cfg.mores = true)
    (hprep : prepare e cfg s = some (allowed, s1, true))
    (hE : blen e.texts.emptyReply ≤ allowed) :
    reply e cfg chunks s = .sent [makeReply e s1] none ∧ blen (wire e (makeReply e s1)) ≤ 512 := by
  obtain ⟨hc, hk, ht⟩ := consts_ok
  obtain ⟨hframe, _, hb⟩ := prepare_auto ht hc e hn cfg s allowed s1 true hauto hprep
  constructor
  · unfold reply; rw [hprep]; simp
  · simp only [hmores, Bool.not_true, Bool.or_false, true_eq_decide_iff] at hb
    obtain ⟨h3, h5⟩ := makeReply_wire e hn s1
    omega

/-! ## the more protocol -/

/-- Python order of the stored stack: the message at index `j` carries the count `j`, which is the
number of messages below it, i.e. still stored once it has been delivered. -/
theorem more_counts (e : Env) (revChunks : List Str) :
    buildMsgs e revChunks [] = revChunks.mapIdx (fun j c => makeReply e (withSuffix e.texts j c)) := by
  rw [buildMsgs_eq]; simp

/-- In delivery order: the `k`-th message (0-based) of `n` carries line `k` followed by the count
`n - 1 - k` — the number of messages that remain. -/
theorem more_counts_delivery (e : Env) (lines : List Str) (k : Nat) :
    (deliveryOrder e lines)[k]? =
      (lines[k]?).map (fun l => makeReply e (withSuffix e.texts (lines.length - 1 - k) l)) :=
  deliveryOrder_getElem? e lines k

/-- The first answer of a chunked reply is the first `max instant 1` messages in order; the rest is
stored, in order, in `_mores` (nothing is stored when everything went out at once). -/
theorem reply_first_batch (e : Env) (cfg : Cfg) (chunks : List Str) (s : Str) (allowed : Nat) (s1 : Str)
    (hprep : prepare e cfg s = some (allowed, s1, false))
    (hres : suffixReserve e.texts (blen s1) ≤ allowed)
    (lines : List Str) (hwrap : ircWrap chunks s1 (allowed - suffixReserve e.texts (blen s1)) = .ok lines) :
    reply e cfg chunks s = .sent ((deliveryOrder e (lines.take cfg.maximumMores)).take (max cfg.instant 1))
      (if (deliveryOrder e (lines.take cfg.maximumMores)).length < max cfg.instant 1 then none
       else some ((deliveryOrder e (lines.take cfg.maximumMores)).drop (max cfg.instant 1)).reverse) :=
  reply_chunked e cfg chunks s allowed s1 hprep hres lines hwrap

/-- First answer plus successive `more` commands, for any batch sizes `ks` (Misc.mores ≥ 1, possibly
changing between calls): the messages queued are, in order and each exactly once, the first
`max instant 1 + Σ ks` messages of the reply; what is left in `_mores` is the rest.  In particular
once `max instant 1 + Σ ks ≥ n` everything has been delivered and the stack is empty. -/
theorem more_protocol (e : Env) (cfg : Cfg) (chunks : List Str) (s : Str) (allowed : Nat) (s1 : Str)
    (hprep : prepare e cfg s = some (allowed, s1, false))
    (hres : suffixReserve e.texts (blen s1) ≤ allowed)
    (lines : List Str) (hwrap : ircWrap chunks s1 (allowed - suffixReserve e.texts (blen s1)) = .ok lines)
    (ks : List Nat) (hks : ∀ k ∈ ks, 1 ≤ k) :
    ∃ now stored, reply e cfg chunks s = .sent now stored ∧
      now ++ (runMores ks (stored.getD [])).1.flatten = (deliveryOrder e (lines.take cfg.maximumMores)).take (max cfg.instant 1 + ks.sum) ∧
      (runMores ks (stored.getD [])).2 = ((deliveryOrder e (lines.take cfg.maximumMores)).drop (max cfg.instant 1 + ks.sum)).reverse := by
  refine ⟨_, _, reply_chunked e cfg chunks s allowed s1 hprep hres lines hwrap, ?_⟩
  have hst : (if (deliveryOrder e (lines.take cfg.maximumMores)).length < max cfg.instant 1 then none
       else some ((deliveryOrder e (lines.take cfg.maximumMores)).drop (max cfg.instant 1)).reverse).getD [] =
       ((deliveryOrder e (lines.take cfg.maximumMores)).drop (max cfg.instant 1)).reverse := by
    split
    · rename_i h
      rw [List.drop_of_length_le (by omega)]; rfl
    · rfl
  rw [hst]
  obtain ⟨h1, h2⟩ := runMores_reverse ks hks ((deliveryOrder e (lines.take cfg.maximumMores)).drop (max cfg.instant 1))
  rw [h1, h2, List.drop_drop, List.take_add]
  exact ⟨rfl, rfl⟩

example : runMores [1, 2] [(⟨[], [], ['c']⟩ : Out), ⟨[], [], ['b']⟩, ⟨[], [], ['a']⟩] =
    ([[⟨[], [], ['a']⟩], [⟨[], [], ['b']⟩, ⟨[], [], ['c']⟩]], []) := by decide

/-! ## several requesters: the shared `_mores` dictionary -/

/-- Non-interference.  Along ANY trace of replies, `more` and `more <nick>` commands by any number of
requesters, what the requester with `user@host` key `a` is answered is exactly what he would be
answered if nobody else had done anything — provided his own actions are replies and plain `more`s.
(`more <nick>` by somebody else works on a copy; every reply allocates a fresh list; two different
`user@host` never share a list object — the invariant `Mores.WF`.) -/
theorem two_requesters (m : Mores) (hwf : m.WF) (a : Str) (acts : List Act)
    (hown : ∀ act ∈ acts, act.key = a → act.own = true) :
    (m.run acts).filter (fun r => r.1 = a) = m.run (acts.filter fun act => act.key = a) :=
  run_filter a acts m m hwf hwf rfl hown

/-- The protocol theorem for interleavings: `stored` is what a chunked reply left in `_mores` for
`nick!mask`; whatever the other requesters do meanwhile — including `more <nick>` on this very reply —
the successive plain `more`s of the requester are answered, in order and each exactly once, with the
batches `runMores` computes on `stored` alone (see `more_protocol` for what these batches are), then
with "there is no more". -/
theorem more_protocol_interleaved (m : Mores) (hwf : m.WF) (mask nick : Str) (priv : Bool) (stored : List Out)
    (acts : List Act)
    (hplain : ∀ act ∈ acts, act.key = ircLower mask → act.plain = true) :
    ((m.store mask nick priv stored).run acts).filter (fun r => r.1 = ircLower mask) =
      (runMores ((acts.filter fun act => act.key = ircLower mask).map Act.number) stored).1.map
        fun b => (ircLower mask, moreAnswer b) := by
  have hwf' : (m.store mask nick priv stored).WF := bindFresh_wf hwf _ stored
  have hown : ∀ act ∈ acts, act.key = ircLower mask → act.own = true := by
    intro act hact hk
    have := hplain act hact hk
    cases act with
    | store _ _ _ _ => simp [Act.plain] at this
    | more _ nk _ => cases nk <;> simp_all [Act.plain, Act.own]
  rw [two_requesters _ hwf' (ircLower mask) acts hown]
  apply run_plain (ircLower mask) _ _ stored hwf'
  · rw [(store_eq m mask nick priv stored).2]; exact bindFresh_listOf_self _ _ _
  · intro act hact
    obtain ⟨h1, h2⟩ := List.mem_filter.mp hact
    have hk : act.key = ircLower mask := by simpa using h2
    exact ⟨hk, hplain act h1 hk⟩

/-- what `more <nick>` gives the caller: a copy of the list stored under `<nick>`, as it is now -/
theorem adopt_copy (m m' : Mores) (mask nick : Str) (id : Nat)
    (hn : lookupKey (ircLower nick) m.byNick = some (false, id)) (h : m.adopt mask nick = .ok m') :
    m'.listOf (ircLower mask) = some (m.lists.getD id []) := by
  unfold Mores.adopt at h
  rw [hn] at h
  simp only [Bool.false_eq_true, ↓reduceIte] at h
  injection h with h; subst h
  simp [Mores.listOf, lookupKey_cons, List.getD]

def o1 : Out := ⟨[], [], ['1']⟩
def o2 : Out := ⟨[], [], ['2']⟩
def o3 : Out := ⟨[], [], ['3']⟩
def exActs : List Act :=
  [.more "bo@b".toList (some "ALICE".toList) 1, .more "al@a".toList none 1, .more "bo@b".toList none 1,
   .more "al@a".toList none 2, .more "al@a".toList none 1]

/-- alice has messages 1,2,3 pending (stack `[3,2,1]`); bob peeks with `more ALICE`, then both go on:
alice still gets 1, then 2 3, then "no more"; bob gets 1 then 2 -/
example : (({} : Mores).store "al@a".toList "Alice".toList false [o3, o2, o1]).run exActs =
    [("bo@b".toList, some (.sent [o1])), ("al@a".toList, some (.sent [o1])), ("bo@b".toList, some (.sent [o2])),
     ("al@a".toList, some (.sent [o2, o3])), ("al@a".toList, some .noMore)] := by decide

example : ∀ act ∈ exActs, act.key = ircLower "al@a".toList → act.plain = true := by decide

/-- The keys of `_mores` are lowered with the rfc1459 mapping, whatever CASEMAPPING any network's 005
announces before, between or after: what a reply stored under `user@host` is what a later `more` by the
same `user@host` finds (`~`, `[`, `]`, `\\` in the ident, host or nick included). -/
theorem mores_key_stable (m : Mores) (mask nick : Str) (priv : Bool) (msgs : List Out) :
    (m.store mask nick priv msgs).listOf (ircLower mask) = some msgs := by
  rw [(store_eq m mask nick priv msgs).2]; exact bindFresh_listOf_self _ _ _

example : ircLower "~Al[1]\\x@Host".toList = "^al{1}|x@host".toList := by decide

/-! ## the text itself -/

/-- For a reply without formatting codes, nothing is lost and nothing invented: the chunks are lines
that concatenate to the (truncated, whitespace-munged) text, each of at most the computed size, and the
messages delivered are exactly these lines, in order, each followed by its count (`more_counts_delivery`,
`more_protocol`). -/
theorem visible_text_plain (e : Env) (cfg : Cfg) (chunks : List Str) (s : Str) (allowed : Nat) (s1 : Str)
    (hplain : Plain s1)
    (hprep : prepare e cfg s = some (allowed, s1, false))
    (hcontract : chunks.flatten = munge s1)
    (h4 : suffixReserve e.texts (blen s1) + 4 ≤ allowed) :
    ∃ lines : List Str, lines.flatten = munge s1 ∧ (∀ l ∈ lines, blen l ≤ allowed - suffixReserve e.texts (blen s1)) ∧
      reply e cfg chunks s = .sent ((deliveryOrder e (lines.take cfg.maximumMores)).take (max cfg.instant 1))
        (if (deliveryOrder e (lines.take cfg.maximumMores)).length < max cfg.instant 1 then none
         else some ((deliveryOrder e (lines.take cfg.maximumMores)).drop (max cfg.instant 1)).reverse) := by
  obtain ⟨lines, h1, h2, h3⟩ := ircWrap_plain chunks s1 hplain hcontract (allowed - suffixReserve e.texts (blen s1)) (by omega)
  exact ⟨lines, h2, h3, reply_chunked e cfg chunks s allowed s1 hprep (by omega) lines h1⟩

/-! ## text without colour codes: full theorems; text with colour codes: the counter-example -/

theorem flags_ok : FlagsOk := by decide

/-- For text without colour codes (any use of bold, reverse, underline, reset, italic; over-long words;
multi-byte characters) the contexts `ircutils.wrap` recomputes from the produced lines are the contexts
of the original text, so the reserved overhead always suffices. -/
theorem coherent_nocolour (chunks : List Str) (s : Str) (hn : NoColour s) (hcontract : chunks.flatten = munge s)
    (length : Nat) (h4 : (parse s).maxSize + 4 ≤ length) : coherent chunks s length = true := by
  obtain ⟨raw, hraw, _, hflat, _⟩ := ircWrap_struct chunks s length h4
  unfold coherent
  rw [hraw]
  have hnm := nocolour_munge flags_ok hn
  apply coherentFrom_nocolour consts_ok.1 consts_ok.2.1 flags_ok _ raw [] none
  · simpa [hflat, hcontract] using hnm
  · simp only [List.nil_append, hflat, hcontract, parse_munge flags_ok s hn]; exact Nat.le_refl _
  · exact Or.inl ⟨rfl, rfl⟩

/-- `ircutils.wrap` on text without colour codes: every line fits the requested length, and the visible
text of the lines, concatenated, is the visible text of the (munged) input — nothing lost, nothing
invented, whatever the words, the formatting toggles and the cut points. -/
theorem ircWrap_nocolour (chunks : List Str) (s : Str) (hn : NoColour s) (hcontract : chunks.flatten = munge s)
    (length : Nat) (h4 : (parse s).maxSize + 4 ≤ length) :
    ∃ lines, ircWrap chunks s length = .ok lines ∧ (∀ l ∈ lines, blen l ≤ length) ∧
      (lines.map stripFormatting).flatten = stripFormatting (munge s) := by
  obtain ⟨lines, h1, h2⟩ := ircWrap_fits_partial chunks s length h4 (coherent_nocolour chunks s hn hcontract length h4)
  obtain ⟨raw, _, hwrap, hflat, _⟩ := ircWrap_struct chunks s length h4
  rw [hwrap] at h1; injection h1 with h1; subst h1
  refine ⟨_, hwrap, h2, ?_⟩
  have hnm := nocolour_munge flags_ok hn
  have hraw : ∀ l ∈ raw, NoColour l := nocolour_of_flatten (by rw [hflat, hcontract]; exact hnm)
  rw [strip_processLines flags_ok raw none hraw (Or.inl rfl), stripFormatting_nocolour _ hnm, ← hcontract, ← hflat,
    List.filter_flatten]
  congr 1
  apply List.map_congr_left
  intro l hl
  exact stripFormatting_nocolour l (hraw l hl)

example : NoColour ([Char.ofNat 2] ++ "bold ".toList ++ [Char.ofNat 31] ++ "both".toList ++ [Char.ofNat 15] ++ " plain".toList) := by decide

/-- Every message of a chunked reply without colour codes fits in 512 bytes. -/
theorem fits_512_nocolour (e : Env) (hn' : Normal e) (hT : TextsFine e.texts) (cfg : Cfg) (chunks : List Str) (s : Str) (allowed : Nat) (s1 : Str)
    (hn : NoColour s)
    (hauto : cfg.moresLength = 0)
    (hprep : prepare e cfg s = some (allowed, s1, false))
    (hE : blen e.texts.emptyReply ≤ allowed)
    (hcontract : chunks.flatten = munge s1) (hne : ∀ c ∈ chunks, c ≠ [])
    (h4 : suffixReserve e.texts (blen s1) + (parse s1).maxSize + 4 ≤ allowed) :
    ∃ now stored, reply e cfg chunks s = .sent now stored ∧
      ∀ o ∈ now ++ stored.getD [], blen (wire e o) ≤ 512 := by
  obtain ⟨hc, hk, ht⟩ := consts_ok
  obtain ⟨hs1, _⟩ := prepare_s1 e cfg s allowed s1 false hprep
  have hn1 : NoColour s1 := by
    rw [hs1]; unfold truncate
    split
    · intro c hc'; exact hn c (List.mem_of_mem_take hc')
    · exact hn
  exact fits_512_partial e hn' hT cfg chunks s allowed s1 hauto hprep hE hcontract hne h4
    (coherent_nocolour chunks s1 hn1 hcontract _ (by omega))

/-
Full statement (visible text preserved by `ircutils.wrap`, for all texts):

    ∀ chunks s length, chunks.flatten = munge s → (parse s).maxSize + 4 ≤ length →
      ∃ lines, ircWrap chunks s length = .ok lines ∧
        (lines.map stripFormatting).flatten = stripFormatting (munge s)

FALSE on the pinned tree (`visible_text_counterexample`, known finding C12-cut-inside-colour-code):
`splitBytes` cuts an over-long word between `\x03` and its digits.  Proved for all text without colour
codes (`ircWrap_nocolour`).
-/
def cutText : Str := "aaaaaaaaa".toList ++ Char.ofNat 3 :: "04".toList ++ List.replicate 20 'b'

theorem visible_text_counterexample :
    ¬ (∀ chunks s length, chunks.flatten = munge s → (parse s).maxSize + 4 ≤ length →
        ∃ lines, ircWrap chunks s length = .ok lines ∧
          (lines.map stripFormatting).flatten = stripFormatting (munge s)) := by
  intro h
  obtain ⟨lines, h1, h2⟩ := h [cutText] cutText 16 (by decide +kernel) (by decide +kernel)
  have hv : (match ircWrap [cutText] cutText 16 with
      | .ok ls => (ls.map stripFormatting).flatten
      | _ => []) = "aaaaaaaaa4".toList ++ List.replicate 20 'b' := by decide +kernel
  rw [h1] at hv
  simp only at hv
  rw [h2] at hv
  revert hv
  decide +kernel


/-! ## text with colour codes whose wrapped lines start cleanly -/

theorem colour_ok : Gen.colorLimit ≤ 16 := by decide

/-
For text WITH colour codes the recomputed contexts are those of the text (up to a lone background
gaining the foreground 00) provided no line after the first begins with a digit or a comma — which
excludes exactly the two recorded findings (a cut inside `\x03NN`, a re-opened code running into the
text).  Then re-opening never costs more than the reserved overhead.
-/
theorem coherent_clean (chunks : List Str) (s : Str) (hcontract : chunks.flatten = munge s)
    (length : Nat) (h4 : (parse s).maxSize + 4 ≤ length) (hclean : cleanWrap chunks s length = true) :
    coherent chunks s length = true := by
  obtain ⟨raw, hraw, _, hflat, _⟩ := ircWrap_struct chunks s length h4
  unfold cleanWrap at hclean
  unfold coherent
  rw [hraw] at hclean ⊢
  apply coherentFrom_clean_all consts_ok.1 consts_ok.2.1 colour_ok _ raw hclean
  rw [hflat, hcontract, parse_munge_all]
  exact Nat.le_refl _

/-- every line of `ircutils.wrap` fits the requested length, for any text (colours included) whose
wrapped lines start cleanly -/
theorem ircWrap_fits_clean (chunks : List Str) (s : Str) (hcontract : chunks.flatten = munge s)
    (length : Nat) (h4 : (parse s).maxSize + 4 ≤ length) (hclean : cleanWrap chunks s length = true) :
    ∃ lines, ircWrap chunks s length = .ok lines ∧ ∀ l ∈ lines, blen l ≤ length :=
  ircWrap_fits_partial chunks s length h4 (coherent_clean chunks s hcontract length h4 hclean)

/-- every message of a chunked reply fits in 512 bytes, for any text (colours included) whose wrapped
lines start cleanly -/
theorem fits_512_clean (e : Env) (hn : Normal e) (hT : TextsFine e.texts) (cfg : Cfg) (chunks : List Str) (s : Str) (allowed : Nat) (s1 : Str)
    (hauto : cfg.moresLength = 0)
    (hprep : prepare e cfg s = some (allowed, s1, false))
    (hE : blen e.texts.emptyReply ≤ allowed)
    (hcontract : chunks.flatten = munge s1) (hne : ∀ c ∈ chunks, c ≠ [])
    (h4 : suffixReserve e.texts (blen s1) + (parse s1).maxSize + 4 ≤ allowed)
    (hclean : cleanWrap chunks s1 (allowed - suffixReserve e.texts (blen s1)) = true) :
    ∃ now stored, reply e cfg chunks s = .sent now stored ∧
      ∀ o ∈ now ++ stored.getD [], blen (wire e o) ≤ 512 :=
  fits_512_partial e hn hT cfg chunks s allowed s1 hauto hprep hE hcontract hne h4
    (coherent_clean chunks s1 hcontract _ (by omega) hclean)

/-- `ircutils.wrap` on any text — colours, over-long words, multi-byte characters — whose wrapped lines
start cleanly: every line fits, and the visible text of the lines, concatenated, is the visible text of
the (munged) input: nothing lost, nothing invented.  (When a line does start with a digit or a comma
after a colour code the statement is false: `visible_text_counterexample`, `ircWrap_fits_counterexample`.) -/
theorem visible_text_clean (chunks : List Str) (s : Str) (hcontract : chunks.flatten = munge s)
    (length : Nat) (h4 : (parse s).maxSize + 4 ≤ length) (hclean : cleanWrap chunks s length = true) :
    ∃ lines, ircWrap chunks s length = .ok lines ∧ (∀ l ∈ lines, blen l ≤ length) ∧
      (lines.map stripFormatting).flatten = stripFormatting (munge s) := by
  obtain ⟨lines, h1, h2⟩ := ircWrap_fits_clean chunks s hcontract length h4 hclean
  obtain ⟨raw, hraw, hwrap, hflat, _⟩ := ircWrap_struct chunks s length h4
  rw [hwrap] at h1; injection h1 with h1; subst h1
  refine ⟨_, hwrap, h2, ?_⟩
  unfold cleanWrap at hclean
  rw [hraw] at hclean
  rw [strip_processLines_all colour_ok raw hclean, hflat, hcontract]

/-- The whole reply, any text whose wrapped lines start cleanly: the messages delivered (first answer,
then `more`, see `more_protocol`) are, in order, the lines `l_k` each followed by the count of messages
that remain (`more_counts_delivery`), and the visible text of the lines, concatenated, is the visible
text of the (truncated, munged) reply. -/
theorem reply_text_clean (e : Env) (cfg : Cfg) (chunks : List Str) (s : Str) (allowed : Nat) (s1 : Str)
    (hprep : prepare e cfg s = some (allowed, s1, false))
    (hcontract : chunks.flatten = munge s1)
    (h4 : suffixReserve e.texts (blen s1) + (parse s1).maxSize + 4 ≤ allowed)
    (hclean : cleanWrap chunks s1 (allowed - suffixReserve e.texts (blen s1)) = true) :
    ∃ lines : List Str, (lines.map stripFormatting).flatten = stripFormatting (munge s1) ∧
      (∀ l ∈ lines, blen l ≤ allowed - suffixReserve e.texts (blen s1)) ∧
      reply e cfg chunks s = .sent ((deliveryOrder e (lines.take cfg.maximumMores)).take (max cfg.instant 1))
        (if (deliveryOrder e (lines.take cfg.maximumMores)).length < max cfg.instant 1 then none
         else some ((deliveryOrder e (lines.take cfg.maximumMores)).drop (max cfg.instant 1)).reverse) := by
  obtain ⟨lines, h1, h2, h3⟩ := visible_text_clean chunks s1 hcontract (allowed - suffixReserve e.texts (blen s1)) (by omega) hclean
  exact ⟨lines, h3, h2, reply_chunked e cfg chunks s allowed s1 hprep (by omega) lines h1⟩

def clText : Str := [Char.ofNat 3, '4'] ++ "red ".toList ++ [Char.ofNat 3, '0', ',', '1'] ++ "white on black".toList ++
  [Char.ofNat 15] ++ " plain".toList
def clChunks : List Str := [[Char.ofNat 3, '4'] ++ "red".toList, " ".toList,
  [Char.ofNat 3, '0', ',', '1'] ++ "white".toList, " ".toList, "on".toList, " ".toList,
  "black".toList ++ [Char.ofNat 15], " ".toList, "plain".toList]

example : clChunks.flatten = munge clText ∧ (parse clText).maxSize + 4 ≤ 20 ∧ cleanWrap clChunks clText 20 = true := by
  decide +kernel


/-! ## reply.mores.maximum -/

/-- "… up to the configured maximum number of chunks": a chunked reply consists of at most
`reply.mores.maximum` messages (first answer and everything `more` can ever release), whatever the text.
(Before the fix `chunks = chunks[:maximumMores]` the only cut counted CHARACTERS of the text, while a chunk
holds fewer than `allowedLength` BYTES: 7 messages for maximum = 2 and the reply `'é' * 200`.) -/
theorem chunk_count (e : Env) (cfg : Cfg) (chunks : List Str) (s : Str) (allowed : Nat) (s1 : Str)
    (hprep : prepare e cfg s = some (allowed, s1, false))
    (hres : suffixReserve e.texts (blen s1) ≤ allowed)
    (lines : List Str) (hwrap : ircWrap chunks s1 (allowed - suffixReserve e.texts (blen s1)) = .ok lines) :
    ∃ now stored, reply e cfg chunks s = .sent now stored ∧
      now.length + (stored.getD []).length ≤ cfg.maximumMores := by
  refine ⟨_, _, reply_chunked e cfg chunks s allowed s1 hprep hres lines hwrap, ?_⟩
  have hd := deliveryOrder_length e (lines.take cfg.maximumMores)
  have ht : (lines.take cfg.maximumMores).length ≤ cfg.maximumMores := List.length_take_le _ _
  split
  · simp only [Option.getD_none, List.length_nil, List.length_take]; omega
  · simp only [Option.getD_some, List.length_reverse, List.length_take, List.length_drop]; omega

def cexEnv : Env :=
  { botPrefix := "test!u@h".toList, nick := "alice".toList, msgTarget := "#chan".toList,
    msgIsChannel := true, to := none, pubTo := false, pubNick := false, pubMsgTarget := true,
    notice := none, priv := none, prefixNick := none, stripCtcp := true, confWithNotice := false,
    confInPrivate := false, confWithNickPrefix := true, confNoticeWhenPrivate := true }
def cexCfg : Cfg := { moresLength := 60, maximumMores := 2, instant := 1, mores := true }

/-- `reply.mores.length = 60`, `maximum = 2`, reply `'é' * 200`: exactly 2 messages -/
example : ∃ now stored, reply cexEnv cexCfg [List.replicate 120 'é'] (List.replicate 200 'é') = .sent now stored ∧
    now.length + (stored.getD []).length = 2 := by
  refine ⟨(match reply cexEnv cexCfg [List.replicate 120 'é'] (List.replicate 200 'é') with
            | .sent n _ => n | _ => []),
          (match reply cexEnv cexCfg [List.replicate 120 'é'] (List.replicate 200 'é') with
            | .sent _ st => st | _ => none), ?_, ?_⟩ <;> decide +kernel

/-! ## locales -/

def textsOfRow (r : Str × Str × Str × Str × Str) : Texts :=
  { moreSingular := r.2.1, morePlural := r.2.2.1, emptyReply := r.2.2.2.1, errorPrefix := r.2.2.2.2 }

/-- The suffix reserve is sufficient in every shipped translation (and in English): the text chosen by
`max(_('more message'), _('more messages'), key=len)` is, in bytes, at least as long as both.
An obligation over the table extracted from locales/*.po. -/
theorem locale_texts_ok : TextsFine Texts.english ∧ ∀ r ∈ Gen.localeTexts, TextsFine (textsOfRow r) := by
  decide

/-! ## explicit reply.mores.length -/

theorem fits_length_nocolour (e : Env) (hn' : Normal e) (hT : TextsFine e.texts) (cfg : Cfg) (chunks : List Str)
    (s : Str) (allowed : Nat) (s1 : Str)
    (hn : NoColour s)
    (hprep : prepare e cfg s = some (allowed, s1, false))
    (hE : blen e.texts.emptyReply ≤ allowed)
    (hcontract : chunks.flatten = munge s1) (hne : ∀ c ∈ chunks, c ≠ [])
    (h4 : suffixReserve e.texts (blen s1) + (parse s1).maxSize + 4 ≤ allowed) :
    ∃ now stored, reply e cfg chunks s = .sent now stored ∧
      ∀ o ∈ now ++ stored.getD [], blen (wire e o) ≤ frameLen e + allowed := by
  obtain ⟨hs1, _⟩ := prepare_s1 e cfg s allowed s1 false hprep
  have hn1 : NoColour s1 := by
    rw [hs1]; unfold truncate
    split
    · intro c hc'; exact hn c (List.mem_of_mem_take hc')
    · exact hn
  exact fits_length_partial e hn' hT cfg chunks s allowed s1 hprep hE hcontract hne h4
    (coherent_nocolour chunks s1 hn1 hcontract _ (by omega))

/-- Whatever `reply.mores.length` is (explicit, or 0 = computed): every message of a chunked reply, as
relayed, has at most `frameLen e + allowedLength` bytes — the frame `:hostmask CMD target :nick: … CRLF`
plus the allowed length.  With an explicit length this is ≤ 512 exactly when
`length ≤ 512 - frameLen e`; a larger length makes 512 impossible (`length_overflow_counterexample`). -/
theorem fits_length_clean (e : Env) (hn : Normal e) (hT : TextsFine e.texts) (cfg : Cfg) (chunks : List Str)
    (s : Str) (allowed : Nat) (s1 : Str)
    (hprep : prepare e cfg s = some (allowed, s1, false))
    (hE : blen e.texts.emptyReply ≤ allowed)
    (hcontract : chunks.flatten = munge s1) (hne : ∀ c ∈ chunks, c ≠ [])
    (h4 : suffixReserve e.texts (blen s1) + (parse s1).maxSize + 4 ≤ allowed)
    (hclean : cleanWrap chunks s1 (allowed - suffixReserve e.texts (blen s1)) = true) :
    ∃ now stored, reply e cfg chunks s = .sent now stored ∧
      ∀ o ∈ now ++ stored.getD [], blen (wire e o) ≤ frameLen e + allowed :=
  fits_length_partial e hn hT cfg chunks s allowed s1 hprep hE hcontract hne h4
    (coherent_clean chunks s1 hcontract _ (by omega) hclean)

def bigCfg : Cfg := { moresLength := 600, maximumMores := 50, instant := 1, mores := true }

/-- `reply.mores.length = 600` in a channel: the first message of `'x' * 1000` is relayed as a line of
more than 512 bytes (the operator asked for it). -/
theorem length_overflow_counterexample :
    ¬ (∀ (e : Env) (cfg : Cfg) (chunks : List Str) (s : Str) now stored, Normal e →
        reply e cfg chunks s = .sent now stored → ∀ o ∈ now, blen (wire e o) ≤ 512) := by
  intro h
  have hv : ∃ now stored, reply cexEnv bigCfg [List.replicate 1000 'x'] (List.replicate 1000 'x') = .sent now stored ∧
      ∃ o ∈ now, 512 < blen (wire cexEnv o) := by
    refine ⟨(match reply cexEnv bigCfg [List.replicate 1000 'x'] (List.replicate 1000 'x') with
              | .sent n _ => n | _ => []),
            (match reply cexEnv bigCfg [List.replicate 1000 'x'] (List.replicate 1000 'x') with
              | .sent _ st => st | _ => none), ?_, ?_⟩
    · decide +kernel
    · refine ⟨(match reply cexEnv bigCfg [List.replicate 1000 'x'] (List.replicate 1000 'x') with
              | .sent n _ => n.headD ⟨[], [], []⟩ | _ => ⟨[], [], []⟩), ?_, ?_⟩ <;> decide +kernel
  obtain ⟨now, stored, h1, o, ho, hlt⟩ := hv
  have := h cexEnv bigCfg _ _ now stored (by decide) h1 o ho
  omega

/-! ## Irc._truncateMsg and the replies that are not length-checked -/

theorem blen_takeBytes_le : ∀ (l : Str) (n : Nat), blen (takeBytes n l) ≤ n := by
  intro l
  induction l with
  | nil => intro n; simp [takeBytes, blen]
  | cons c cs ih =>
    intro n
    unfold takeBytes
    split
    · have := ih (n - c.utf8Size); simp only [blen]; omega
    · simp [blen]

theorem takeBytes_prefix : ∀ (l : Str) (n : Nat), takeBytes n l <+: l := by
  intro l
  induction l with
  | nil => intro n; simp [takeBytes]
  | cons c cs ih =>
    intro n
    unfold takeBytes
    split
    · exact List.prefix_cons_inj c |>.mpr (ih _)
    · exact List.nil_prefix

/-- What is written to the socket never exceeds 512 bytes (`Irc._truncateMsg` cuts the outgoing line at a
character boundary) and is the line itself when it fits.  This bounds the OUTGOING line: the server
prepends `:hostmask ` when relaying, so a reply that was not length-checked can still be cut a second
time by the server — and its text is lost either way (`unchecked_counterexample`). -/
theorem sentLine_le (o : Out) : blen (sentLine o) ≤ 512 ∧ (blen (outLine o) ≤ 512 → sentLine o = outLine o) := by
  have hm : Gen.ircMaxLine = 512 := by decide
  unfold sentLine truncateLine
  rw [hm]
  constructor
  · split
    · have := blen_takeBytes_le (outLine o) (512 - 2)
      have h1 : ('\r' : Char).utf8Size = 1 := by decide
      have h2 : ('\n' : Char).utf8Size = 1 := by decide
      simp only [blen_append, blen_cons, blen_nil, h1, h2]; omega
    · omega
  · intro h; simp [show ¬ (512 < blen (outLine o)) by omega]

/-- an action reply is one message, whatever its length (`action=True` implies `noLengthCheck`) -/
theorem action_reply_single (e : Env) (ha : e.action = true) (cfg : Cfg) (chunks : List Str) (s : Str) :
    replyCall e cfg chunks s = .sent [makeReply e s] none := by
  simp [replyCall, ha]

/-- an ordinary reply goes through the length-checked branch -/
theorem replyCall_normal (e : Env) (ha : e.action = false) (cfg : Cfg) (chunks : List Str) (s : Str) :
    replyCall e cfg chunks s = reply e cfg chunks s := by
  simp [replyCall, ha]

theorem call_env_normal (c : Call) (ha : c.action = false) : Normal c.env := ⟨ha, rfl⟩

/-
Full statement for the replies that bypass the length check (`irc.error(long text)`, `action=True`,
`reply.mores` off): relayed line ≤ 512 bytes and no text lost.  FALSE on the pinned tree
(`unchecked_counterexample`, known finding C12-unchecked-replies-truncated): they are sent as ONE message,
which `Irc._truncateMsg` cuts at 512 bytes of the outgoing line.
-/
theorem unchecked_counterexample :
    ∃ o, errorReply cexEnv (List.replicate 600 'x') = some o ∧ 512 < blen (wire cexEnv o) ∧
      sentLine o ≠ outLine o ∧ blen (sentLine o) = 512 := by
  refine ⟨makeReply (errorEnv cexEnv) (List.replicate 600 'x'), ?_, ?_, ?_, ?_⟩ <;> decide +kernel

/-! ## reply.mores off, nested replies, configuration lookups, the key of the stored stack -/

/-- `reply.mores` off: one message, whatever its size (what `Irc._truncateMsg` then does to it is
`sentLine_le`); the operator's choice, outside the 512-byte claim -/
theorem mores_off_single (e : Env) (cfg : Cfg) (chunks : List Str) (s : Str) (allowed : Nat) (s1 : Str) (b : Bool)
    (hoff : cfg.mores = false) (hprep : prepare e cfg s = some (allowed, s1, b)) :
    reply e cfg chunks s = .sent [makeReply e s1] none := by
  obtain ⟨_, hb⟩ := prepare_s1 e cfg s allowed s1 b hprep
  simp only [hoff, Bool.not_false, Bool.or_true] at hb
  subst hb
  unfold reply; rw [hprep]; simp

/-- a nested command's reply reaches the outer command cut to `reply.maximumLength` characters, and then
goes through the same length-checked branch (all the theorems above apply to the cut text) -/
theorem nested_arg (n : Nat) (s : Str) : (nestedArg n s).length ≤ n ∧ nestedArg n s <+: s := by
  unfold nestedArg
  exact ⟨by simp [List.length_take]; omega, List.take_prefix n s⟩

/-- The 512-byte theorem at the level of one call of `irc.reply`, configuration lookups included: the
values of `reply.mores.*` are those `registry.getSpecific` returns for the (raw) target `_getTarget`
designates, `withNotice` / `inPrivate` / `withNickPrefix` those of the channel `_makeReply` replies to
(network values first, then the channel's, then the global ones), for every combination of `to=`,
`private=`, `notice=`, `prefixNick=` — given here or leaked from a nested command — and every locale of
the table; `noLengthCheck` (i.e. `action=True`, here or in the nested command) must not be set. -/
theorem fits_512_call (c : Call) (hu : c.unchecked = false) (ha : c.action = false) (hT : TextsFine c.texts)
    (chunks : List Str) (s : Str) (allowed : Nat) (s1 : Str)
    (hauto : c.cfg.moresLength = 0)
    (hprep : prepare c.env c.cfg s = some (allowed, s1, false))
    (hE : blen c.texts.emptyReply ≤ allowed)
    (hcontract : chunks.flatten = munge s1) (hne : ∀ x ∈ chunks, x ≠ [])
    (h4 : suffixReserve c.texts (blen s1) + (parse s1).maxSize + 4 ≤ allowed)
    (hclean : cleanWrap chunks s1 (allowed - suffixReserve c.texts (blen s1)) = true) :
    ∃ now stored, c.reply chunks s = .sent now stored ∧
      ∀ o ∈ now ++ stored.getD [], blen (wire c.env o) ≤ 512 := by
  have hn : Normal c.env := ⟨ha, rfl⟩
  unfold Call.reply
  simp only [hu, Bool.false_eq_true, ↓reduceIte]
  exact fits_512_clean c.env hn hT c.cfg chunks s allowed s1 hauto hprep hE hcontract hne h4 hclean

/-- keywords of a nested command leak into the enclosing reply: after `[inner …]` replied with
`private=True` the outer reply is private too; after `action=True` it is an unchecked ACTION -/
theorem nested_keywords_leak (c : Call) (ki : Kw) (hi : c.inner = some ki) :
    (ki.priv = some true → c.attrs.priv = some true) ∧
    (ki.action = some true → c.unchecked = true ∧ c.action = true) := by
  unfold Call.unchecked Call.action Call.attrs
  rw [hi]
  constructor
  · intro h
    simp only [Attrs.apply, Attrs.forward, Call.reset, h, orPy]
    cases c.kw.priv <;> simp [orPy]
  · intro h
    simp only [Attrs.apply, Attrs.forward, Call.reset, h, orPy]
    cases c.kw.action <;> cases c.kw.noLengthCheck <;> simp [orPy]

/-- where a chunked reply is stored: under the `user@host` of `to` when it is a nick the bot knows,
else under the requester's; `more_protocol_interleaved` then applies to THAT hostmask -/
theorem storeMask_cases (c : Call) :
    c.storeMask = (match split1 '!' (match c.to with
        | some t => if !t.isEmpty && c.toIsNick then c.toHostmask.getD c.msgPrefix else c.msgPrefix
        | none => c.msgPrefix) with
      | some (_, rest) => rest
      | none => []) := rfl

def exCall : Call :=
  { botPrefix := "test!u@h".toList, msgPrefix := "alice!al@host.a".toList, nick := "alice".toList,
    msgTarget := "@#chan".toList, msgChannel := some "#chan".toList, kw := { to := some "bob".toList },
    inner := some { notice := some true }, toStripped := some "bob".toList, pubTo := false, pubNick := false,
    pubMsgTarget := true, chanTo := false, chanMsgTarget := false, toIsNick := true,
    toHostmask := some "bob!bo@host.b".toList, stripCtcp := true, texts := Texts.english, noticeWhenPrivate := true,
    confGlobal := ⟨false, false, true, false, false, true, 0, 50, 1⟩,
    confChan := some ("#chan".toList, ⟨false, false, false, false, false, true, 60, 3, 2⟩),
    confNet := { net := some ⟨false, false, false, false, false, true, 80, 7, 1⟩ } }

/-- alice, on `@#chan` (STATUSMSG), runs an outer command with `to='bob'` (a known nick) around a nested
one that replied with `notice=True`: the stack is stored under bob's `user@host`; the notice leaks; the
raw target `@#chan` is not a channel for the registry, so `reply.mores.*` are the NETWORK's values
(80, 7, 1) and the values set for #chan are ignored (the network has values set) -/
example : exCall.storeMask = "bo@host.b".toList ∧ exCall.cfg = ⟨80, 7, 1, true⟩ ∧
    replyFrame exCall.env = (Gen.noticeCmd, "@#chan".toList, []) ∧ exCall.unchecked = false ∧
    exCall.action = false ∧ TextsFine exCall.texts := by
  decide

/-! ## the bot's belief of its own hostmask and the hostmask the server relays with -/

/-- relaying with the hostmask `p` instead of the believed one shifts the length by the difference -/
theorem relayed_len (e : Env) (p : Str) (o : Out) :
    blen (wireAs p o) + blen e.botPrefix = blen (wire e o) + blen p := by
  have h1 : (':' : Char).utf8Size = 1 := by decide
  have h2 : (' ' : Char).utf8Size = 1 := by decide
  have h3 : ('\r' : Char).utf8Size = 1 := by decide
  have h4 : ('\n' : Char).utf8Size = 1 := by decide
  simp only [wire, wireAs, blen_cons, blen_append, blen_nil, h1, h2, h3, h4]; omega

/-- The 512-byte theorem as the property states it — "once prefixed with the bot's own hostmask as the
server relays it".  The arithmetic of `reply` uses `irc.prefix`, the bot's BELIEF; the statement about
the relayed line needs the explicit hypothesis belief = truth (any true hostmask not longer than the
believed one does as well).  That `irc.prefix` equals what a conformant server holds for the bot after
any sequence of NICK / CHGHOST / JOIN … is what `C10.view_refines_partial` proves ("the bot's own prefix").
When the belief is stale and shorter (`stale_belief_overflows`) full chunks overflow. -/
theorem fits_512_relayed (e : Env) (hn : Normal e) (hT : TextsFine e.texts) (cfg : Cfg) (chunks : List Str) (s : Str)
    (allowed : Nat) (s1 : Str) (p : Str) (hbelief : blen p ≤ blen e.botPrefix)
    (hauto : cfg.moresLength = 0)
    (hprep : prepare e cfg s = some (allowed, s1, false))
    (hE : blen e.texts.emptyReply ≤ allowed)
    (hcontract : chunks.flatten = munge s1) (hne : ∀ c ∈ chunks, c ≠ [])
    (h4 : suffixReserve e.texts (blen s1) + (parse s1).maxSize + 4 ≤ allowed)
    (hclean : cleanWrap chunks s1 (allowed - suffixReserve e.texts (blen s1)) = true) :
    ∃ now stored, reply e cfg chunks s = .sent now stored ∧
      ∀ o ∈ now ++ stored.getD [], blen (wireAs p o) ≤ 512 := by
  obtain ⟨now, stored, h1, h2⟩ := fits_512_clean e hn hT cfg chunks s allowed s1 hauto hprep hE hcontract hne h4 hclean
  refine ⟨now, stored, h1, fun o ho => ?_⟩
  have := h2 o ho
  have := relayed_len e p o
  omega

/-- a message that exactly fills 512 bytes for the believed hostmask is over 512 as soon as the true
hostmask is longer -/
theorem stale_belief_overflows (e : Env) (p : Str) (o : Out) (hfull : blen (wire e o) = 512)
    (hstale : blen e.botPrefix < blen p) : 512 < blen (wireAs p o) := by
  have := relayed_len e p o
  omega

/-! ## termination for every size and every `reply.mores.length` -/

/-- `byteTextWrap(t, size)` terminates normally for EVERY size (0 stands for the zero or negative sizes
the subtractions of its callers can produce): since the fix `size = max(size, 4)` a line can always
hold one character.  The lines concatenate to the munged text and have at most `max size 4` bytes.
(Before: `splitBytes` returned an empty first part for a size below 4 and `while words:` never ended —
e.g. `reply.mores.length = 45` with the French suffix texts.) -/
theorem byteTextWrap_total (t : Str) (chunks : List Str) (hcontract : chunks.flatten = munge t) (size : Nat) :
    ∃ lines, byteTextWrap chunks size = .ok lines ∧ lines.flatten = munge t ∧ ∀ l ∈ lines, blen l ≤ max size 4 := by
  rw [byteTextWrap_clamped consts_ok.1]
  exact wrap_concat t chunks hcontract (max size 4) (by omega)

theorem ircWrap_total (chunks : List Str) (s : Str) (hcontract : chunks.flatten = munge s) (length : Nat) :
    ∃ lines, ircWrap chunks s length = .ok lines := by
  obtain ⟨raw, h, _, _⟩ := byteTextWrap_total s chunks hcontract (length - (parse s).maxSize)
  exact ⟨processLines none raw, by unfold ircWrap; simp only [h]⟩

/-- A chunked reply always comes out, whatever `reply.mores.length` (even one that leaves no room after
the suffix reserve): some messages are sent, at most `reply.mores.maximum` in all. -/
theorem reply_total (e : Env) (cfg : Cfg) (chunks : List Str) (s : Str) (allowed : Nat) (s1 : Str)
    (hprep : prepare e cfg s = some (allowed, s1, false)) (hcontract : chunks.flatten = munge s1) :
    ∃ now stored, reply e cfg chunks s = .sent now stored ∧
      now.length + (stored.getD []).length ≤ cfg.maximumMores := by
  obtain ⟨lines, hw⟩ := ircWrap_total chunks s1 hcontract (allowed - suffixReserve e.texts (blen s1))
  have hrep : reply e cfg chunks s = deliver e cfg (lines.take cfg.maximumMores) := by
    unfold reply; rw [hprep]; simp only [Bool.false_eq_true, ↓reduceIte, hw]
  rw [hrep, deliver_eq]
  refine ⟨_, _, rfl, ?_⟩
  have hd := deliveryOrder_length e (lines.take cfg.maximumMores)
  have ht : (lines.take cfg.maximumMores).length ≤ cfg.maximumMores := List.length_take_le _ _
  split
  · simp only [Option.getD_none, List.length_nil, List.length_take]; omega
  · simp only [Option.getD_some, List.length_reverse, List.length_take, List.length_drop]; omega

/-! ## several replies in one command invocation; the two queues of `Irc.takeMsg` -/

/-- the attributes each of the successive final replies of ONE command invocation is built with: every
`reply()` ends with `_resetReplyAttributes()` (its `finally:` clause) -/
def replySeq (reset : Attrs) : Attrs → List Kw → List Attrs
  | _, [] => []
  | a, k :: ks => a.apply k :: replySeq reset reset ks

/-- … so no reply depends on the keywords of an earlier one (in particular `action=True` /
`noLengthCheck=True` of a first reply does not switch the length check off for the next) -/
theorem attrs_reset_between_replies (reset : Attrs) (ks : List Kw) :
    replySeq reset reset ks = ks.map reset.apply := by
  induction ks with
  | nil => rfl
  | cons k ks ih => simp [replySeq, ih]

/-- `Irc.takeMsg` empties the fast queue (`sendMsg`) before the ordinary one (`queueMsg`) -/
def takeOrder (fast normal : List Out) : List Out := fast ++ normal

/-- all the messages of one reply go through the SAME function (`sendMsg = irc.sendMsg if sendImmediately
else irc.queueMsg`), so they leave in the order they were produced, `sendImmediately` or not -/
theorem same_queue_order (sendImmediately : Bool) (now : List Out) :
    (if sendImmediately then takeOrder now [] else takeOrder [] now) = now := by
  cases sendImmediately <;> simp [takeOrder]

/-! ## non-vacuity: a concrete chunked reply meets the hypotheses of the theorems above -/

def exEnv : Env :=
  { botPrefix := "test!".toList ++ List.replicate 395 'h', nick := "al".toList, msgTarget := "#c".toList,
    msgIsChannel := true, to := none, pubTo := false, pubNick := false, pubMsgTarget := true,
    notice := none, priv := none, prefixNick := none, stripCtcp := true, confWithNotice := false,
    confInPrivate := false, confWithNickPrefix := true, confNoticeWhenPrivate := true }
def exCfg : Cfg := { moresLength := 0, maximumMores := 50, instant := 1, mores := true }
def exText : Str := List.replicate 100 'x' ++ ' ' :: List.replicate 100 'y'
def exChunks : List Str := [List.replicate 100 'x', [' '], List.replicate 100 'y']

example : prepare exEnv exCfg exText = some (92, exText, false) ∧ blen Gen.emptyReply ≤ 92 ∧
    exChunks.flatten = munge exText ∧ (∀ c ∈ exChunks, c ≠ []) ∧
    suffixReserve Texts.english (blen exText) + (parse exText).maxSize + 4 ≤ 92 ∧
    coherent exChunks exText (92 - suffixReserve Texts.english (blen exText)) = true ∧ Plain exText ∧
    suffixReserve Texts.english (blen exText) = 23 ∧ NoColour exText ∧ Normal exEnv ∧ TextsFine exEnv.texts ∧
    cleanWrap exChunks exText (92 - suffixReserve Texts.english (blen exText)) = true := by decide +kernel

example : ∃ lines, ircWrap exChunks exText (92 - suffixReserve Texts.english (blen exText)) = .ok lines := by
  obtain ⟨l, h, _⟩ := ircWrap_plain exChunks exText (by decide +kernel) (by decide +kernel) (92 - suffixReserve Texts.english (blen exText)) (by decide +kernel)
  exact ⟨l, h⟩

example : prepare exEnv exCfg "short".toList = some (92, "short".toList, true) := by decide +kernel

end C12
