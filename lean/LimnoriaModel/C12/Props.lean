/-
C12 — property theorems: long replies are split without loss, invention or overflow.
(Helper lemmas live in Lemmas.lean, LemmasFmt.lean, LemmasReply.lean.)

Parameters of the model (stated contracts): `chunks` is `textwrap.TextWrapper()._split_chunks(t)`,
whose only assumed property is `chunks.flatten = munge t` (and no empty chunk); the text `s` is what
`ircutils.safeArgument` returned; `irc.isChannel` enters through three booleans of `Env`.
-/
import LimnoriaModel.C12.LemmasReply
namespace C12
open Py

/-- Facts about the constants *extracted from /repo* on which the theorems below rest: the four tries of
`splitBytes`, the sizes counted by `FormatContext.size`, the colour limit of `getInt`, 512, the factor 8
of the suffix reserve, the wire template of the probe, the suffix texts, the control characters.
Re-checked by `decide` against whatever the sources say now. -/
theorem consts_ok : ConstsOk ∧ CharsOk ∧ TextsOk := by decide

/-! ## utils.str.splitBytes / byteTextWrap -/

/-- `splitBytes(word, size)` for a word longer than `size ≥ 4` bytes never hits its `assert False`: it
cuts the word at a character boundary; the first part is not empty and has at most `size` bytes. -/
theorem splitBytes_spec (w : Str) (size : Nat) (h4 : 4 ≤ size) (hlong : size < blen w) :
    ∃ a b, splitBytes w size = some (a, b) ∧ a ++ b = w ∧ 0 < blen a ∧ blen a ≤ size := by
  obtain ⟨a, b, h1, h2, h3, h4'⟩ := splitBytes_spec' consts_ok.1 w size h4 hlong
  exact ⟨a, b, h1, h2, by omega, h3⟩

example : splitBytes "aé😀b".toList 4 = some ("aé".toList, "😀b".toList) := by decide

/-- `byteTextWrap(t, size)` for any text and any `size ≥ 4`: the loop terminates normally, the lines
concatenate to the whitespace-munged text, and no line has more than `size` bytes. -/
theorem wrap_concat (t : Str) (chunks : List Str) (hcontract : chunks.flatten = munge t)
    (size : Nat) (h4 : 4 ≤ size) :
    ∃ lines, byteTextWrap chunks size = .ok lines ∧ lines.flatten = munge t ∧ ∀ l ∈ lines, blen l ≤ size := by
  obtain ⟨out, h1, h2, h3⟩ := wrapLoop_ok consts_ok.1 size h4 (fuelFor chunks) chunks [[]] (Nat.le_refl _)
    (by intro l hl; simp at hl; subst hl; simp [blen])
  refine ⟨out, h1, ?_, h3⟩
  rw [h2, ← hcontract]; simp

example : ["ab".toList, "      ".toList, "cd".toList].flatten = munge "ab\tcd".toList := by decide

/-- no line is empty (so there are at most as many lines as bytes) -/
theorem byteTextWrap_lines_nonempty (chunks : List Str) (hne : chunks ≠ []) (hall : ∀ c ∈ chunks, c ≠ [])
    (size : Nat) (h4 : 4 ≤ size) (lines : List Str) (h : byteTextWrap chunks size = .ok lines) :
    ∀ l ∈ lines, l ≠ [] := by
  have := wrapLoop_ne consts_ok.1 size h4 _ _ _ _ h hall (Or.inl rfl)
  rcases this with h1 | h1
  · -- lines = [[]] is impossible: the chunks are not empty, so the flattened text is not empty
    obtain ⟨out, h2, h3, _⟩ := wrapLoop_ok consts_ok.1 size h4 (fuelFor chunks) chunks [[]] (Nat.le_refl _)
      (by intro l hl; simp at hl; subst hl; simp [blen])
    unfold byteTextWrap at h
    rw [h2] at h
    injection h with h
    subst h
    subst h1
    cases chunks with
    | nil => exact absurd rfl hne
    | cons c cs =>
      have hc := hall c List.mem_cons_self
      simp at h3
      exact absurd h3.1.symm (by intro h; exact hc h.symm)
  · exact h1

example : byteTextWrap ["中中中".toList, " ".toList, "ab".toList] 4 = .ok ["中".toList, "中".toList, "中 ".toList, "ab".toList] := by
  decide

/-- tabs expand to at most eight columns: the munged text has at most 8 times the bytes of the text -/
theorem munge_blen_le (s : Str) : blen (munge s) ≤ 8 * blen s := munge_blen_le' s

/-! ## FormatContext / FormatParser / ircutils.wrap -/

/-- the parser only returns colours of at most two digits -/
theorem parse_colours_small (s : Str) : CtxOk (parse s).ctx := parse_ctxOk consts_ok.1 s

/-- re-opening a context in front of a chunk and closing it after it costs at most `size()` bytes
(`size()` is what `ircutils.wrap` reserves).  Needed the fix to `FormatContext.size`: colour 0 and a
lone background were not counted. -/
theorem start_end_size (c : Ctx) (hok : CtxOk c) (s : Str) : blen (c.end (c.start s)) ≤ blen s + c.size := by
  rw [blen_end consts_ok.2.1, blen_start consts_ok.2.1]
  have := startCost_le_size consts_ok.1 consts_ok.2.1 c hok
  omega

example : CtxOk { fg := some 0, bg := some 15, bold := true } := by
  constructor <;> intro x h <;> simp at h <;> omega

/-
Full statement (every line of `ircutils.wrap(s, length)` has at most `length` bytes):

    ∀ chunks s length, chunks.flatten = munge s → (parse s).maxSize + 4 ≤ length →
      ∃ lines, ircWrap chunks s length = .ok lines ∧ ∀ l ∈ lines, blen l ≤ length

FALSE on the pinned tree (`ircWrap_fits_counterexample`): the contexts are recomputed by parsing the
*produced* lines, so a re-opened colour code runs into the digits / comma that follow it and the next
chunks are re-opened with a context larger than any context of the original text
(known finding C12-reopened-colour-runs-into-text).  Proved under the decidable coherence condition,
which holds for every text without formatting codes (`ircWrap_plain`).
-/
theorem ircWrap_fits_partial (chunks : List Str) (s : Str) (length : Nat)
    (h4 : (parse s).maxSize + 4 ≤ length) (hco : coherent chunks s length = true) :
    ∃ lines, ircWrap chunks s length = .ok lines ∧ ∀ l ∈ lines, blen l ≤ length := by
  obtain ⟨out, h1, _, h3⟩ := wrapLoop_ok consts_ok.1 (length - (parse s).maxSize) (by omega) (fuelFor chunks) chunks [[]]
    (Nat.le_refl _) (by intro l hl; simp at hl; subst hl; simp [blen])
  have hb : byteTextWrap chunks (length - (parse s).maxSize) = .ok out := h1
  unfold coherent at hco
  rw [hb] at hco
  refine ⟨processLines none out, ?_, ?_⟩
  · unfold ircWrap
    simp only [show ¬ (length < (parse s).maxSize) by omega, ↓reduceIte, hb]
  · intro l hl
    have := processLines_fits consts_ok.2.1 (parse s).maxSize (length - (parse s).maxSize) out none hco h3 l hl
    omega

def cexChunks : List Str := [[Char.ofNat 3, '1'], " ".toList, "aaaa".toList, " ".toList, "1,2bbb".toList, " ".toList, ",cccc".toList]
def cexText : Str := [Char.ofNat 3, '1'] ++ " aaaa 1,2bbb ,cccc".toList

example : cexChunks.flatten = munge cexText ∧ (parse cexText).maxSize + 4 ≤ 11 := by decide

/-- `ircutils.wrap('\x031 aaaa 1,2bbb ,cccc', 11)` returns a line of 13 bytes. -/
theorem ircWrap_fits_counterexample :
    ¬ (∀ chunks s length, chunks.flatten = munge s → (parse s).maxSize + 4 ≤ length →
        ∃ lines, ircWrap chunks s length = .ok lines ∧ ∀ l ∈ lines, blen l ≤ length) := by
  intro h
  obtain ⟨lines, h1, h2⟩ := h cexChunks cexText 11 (by decide) (by decide)
  have hv : ircWrap cexChunks cexText 11 = .ok
      [[Char.ofNat 3, '1', ' ', Char.ofNat 15],
       Char.ofNat 3 :: ("01aaaa ".toList ++ [Char.ofNat 15]),
       Char.ofNat 3 :: ("011,2bbb".toList ++ [Char.ofNat 15]),
       Char.ofNat 3 :: ("11,02 ,cccc".toList ++ [Char.ofNat 15])] := by decide
  rw [hv] at h1
  injection h1 with h1
  subst h1
  have := h2 (Char.ofNat 3 :: ("11,02 ,cccc".toList ++ [Char.ofNat 15])) (by simp)
  revert this
  decide

/-- For text without formatting codes `ircutils.wrap` is `byteTextWrap`: the lines concatenate to the
munged text (nothing lost, nothing invented) and every line has at most `length` bytes. -/
theorem ircWrap_plain (chunks : List Str) (s : Str) (hplain : Plain s) (hcontract : chunks.flatten = munge s)
    (length : Nat) (h4 : 4 ≤ length) :
    ∃ lines, ircWrap chunks s length = .ok lines ∧ lines.flatten = munge s ∧ ∀ l ∈ lines, blen l ≤ length := by
  have hp : parse s = {} := parse_plain s hplain
  have hms : (parse s).maxSize = 0 := by rw [hp]
  obtain ⟨out, h1, h2, h3⟩ := wrap_concat s chunks hcontract length h4
  have hpl : ∀ l ∈ out, Plain l := plain_of_flatten (by rw [h2]; exact plain_munge hplain)
  refine ⟨out, ?_, h2, h3⟩
  unfold ircWrap
  simp only [hms, Nat.not_lt_zero, ↓reduceIte, Nat.sub_zero, h1]
  rw [processLines_plain out hpl none (Or.inl rfl)]

theorem coherent_plain (chunks : List Str) (s : Str) (hplain : Plain s) (hcontract : chunks.flatten = munge s)
    (length : Nat) (h4 : 4 ≤ length) : coherent chunks s length = true := by
  have hp : parse s = {} := parse_plain s hplain
  obtain ⟨out, h1, h2, _⟩ := wrap_concat s chunks hcontract length h4
  have hpl : ∀ l ∈ out, Plain l := plain_of_flatten (by rw [h2]; exact plain_munge hplain)
  unfold coherent
  simp only [hp, Nat.sub_zero, h1]
  exact coherentFrom_plain out hpl 0 none (Or.inl rfl)

example : Plain "hello wörld 中文 😀".toList := by decide

end C12
