/-
C12 — long replies are split without loss, invention or overflow.

Executable model of
  * `utils.str.splitBytes` / `utils.str.byteTextWrap`            (src/utils/str.py)
  * `textwrap`'s whitespace munging (expandtabs + translate)     (the word splitter itself is a parameter)
  * `ircutils.FormatContext` (`start`, `end`, `size`), `FormatParser` (`getInt`, `getColor`, `parse`),
    `ircutils.wrap`                                              (src/ircutils.py)
  * `callbacks._makeReply` (command, target, nick prefix) and the chunking branch of
    `NestedCommandsIrcProxy.reply` (allowedLength, maximumLength truncation, suffix reserve,
    `(N more messages)` suffixes, `instant`, the `_mores` stack)  (src/callbacks.py)
  * `Misc.more`                                                  (plugins/Misc/plugin.py)

Strings are `List Char`; the byte size of a string is the sum of the UTF-8 sizes of its characters
(`blen`), so "a byte offset at which the rest of a valid UTF-8 string decodes" is "an offset that is a
character boundary" (`cutAt`).  Core Lean only; everything is structurally recursive (explicit fuel
where the Python has a `while` loop) so that it both links into the driver and evaluates in the kernel.
-/
import LimnoriaModel.Py.Basic
import LimnoriaModel.Gen.Reply
namespace C12
open Py

/-! ## bytes -/

/-- `len(s.encode())` -/
def blen : Str → Nat
  | [] => 0
  | c :: cs => c.utf8Size + blen cs

/-! ## decimal rendering (`'%i' % n`, `str(n)`) -/

def digitChar (d : Nat) : Char := Char.ofNat (48 + d)

def natToStrAux : Nat → Nat → Str
  | 0, n => [digitChar (n % 10)]
  | f + 1, n => if n < 10 then [digitChar n] else natToStrAux f (n / 10) ++ [digitChar (n % 10)]

def natToStr (n : Nat) : Str := natToStrAux n n

/-- `str(n).zfill(2)` -/
def zfill2 (n : Nat) : Str :=
  let d := natToStr n
  if d.length < 2 then '0' :: d else d

/-! ## textwrap: whitespace munging (`TextWrapper._munge_whitespace`) -/

/-- `textwrap._whitespace` -/
def isTwWs (c : Char) : Bool :=
  c = '\t' || c = '\n' || c = '\x0b' || c = '\x0c' || c = '\r' || c = ' '

/-- `str.expandtabs(8)` (column resets after CR and LF) -/
def expandTabs : Nat → Str → Str
  | _, [] => []
  | col, c :: cs =>
    if c = '\t' then List.replicate (8 - col % 8) ' ' ++ expandTabs (col + (8 - col % 8)) cs
    else if c = '\n' || c = '\r' then c :: expandTabs 0 cs
    else c :: expandTabs (col + 1) cs

def munge (s : Str) : Str := (expandTabs 0 s).map fun c => if isTwWs c then ' ' else c

/-! ## utils.str.splitBytes / byteTextWrap -/

/-- `(word[0:p], word[p:])` when the bytes from offset `p` on decode, i.e. when `p` is a character
boundary of `word` (or lies beyond its end) -/
def cutAt : Str → Nat → Option (Str × Str)
  | [], _ => some ([], [])
  | c :: cs, p =>
    if p = 0 then some ([], c :: cs)
    else if c.utf8Size ≤ p then
      match cutAt cs (p - c.utf8Size) with
      | some (a, b) => some (c :: a, b)
      | none => none
    else none

/-- the Python slice index `size - i` on a byte string of length `len`
(a negative index counts from the end and is clamped at 0) -/
def pyIdx (size i len : Nat) : Nat := if i ≤ size then size - i else (len + size) - i

def splitBytesFrom (w : Str) (size : Nat) : List Nat → Option (Str × Str)
  | [] => none
  | i :: is =>
    match cutAt w (pyIdx size i (blen w)) with
    | some r => some r
    | none => splitBytesFrom w size is

/-- `splitBytes(word, size)`; `none` = the `assert False` at its end -/
def splitBytes (w : Str) (size : Nat) : Option (Str × Str) :=
  splitBytesFrom w size (List.range Gen.splitBytesTries)

inductive WrapRes where
  | ok (lines : List Str)
  | assertFail          -- `assert False` in splitBytes
  | noProgress          -- the `while words:` loop of byteTextWrap would never end
  | unsupported         -- negative size (outside the model)
deriving DecidableEq, Repr

/-- `if len(lines[-1]) + len(word) <= size: lines[-1] += word  else: lines.append(word)`;
`lines` is kept reversed (head = `lines[-1]`) -/
def addWord (size : Nat) (lines : List Str) (w : Str) : List Str :=
  match lines with
  | [] => [w]
  | l :: ls => if blen l + blen w ≤ size then (l ++ w) :: ls else w :: l :: ls

/-- the `while words:` loop; `ws` is the stack of words (top first) -/
def wrapLoop (size : Nat) : Nat → List Str → List Str → WrapRes
  | _, [], lines => .ok lines.reverse
  | 0, _ :: _, _ => .noProgress
  | f + 1, w :: ws, lines =>
    if size < blen w then
      match splitBytes w size with
      | none => .assertFail
      | some (before, after) =>
        if before.isEmpty then .noProgress
        else wrapLoop size f (after :: ws) (addWord size lines before)
    else wrapLoop size f ws (addWord size lines w)

def fuelFor : List Str → Nat
  | [] => 0
  | w :: ws => blen w + 1 + fuelFor ws

/-- `byteTextWrap(text, size)` where `chunks = TextWrapper()._split_chunks(text)` -/
def byteTextWrap (chunks : List Str) (size : Nat) : WrapRes :=
  -- `size = max(size, 4)`: a line must be able to hold one character (a negative size, which the
  -- callers' subtractions can produce, is 0 here and clamped the same way)
  wrapLoop (max size Gen.minWrapSize) (fuelFor chunks) chunks [[]]

/-! ## ircutils.FormatContext -/

structure Ctx where
  fg : Option Nat := none
  bg : Option Nat := none
  bold : Bool := false
  reverse : Bool := false
  underline : Bool := false
deriving DecidableEq, Repr, Inhabited

def b2n (b : Bool) : Nat := if b then 1 else 0

/-- `FormatContext.size()` -/
def Ctx.size (c : Ctx) : Nat :=
  let p := b2n c.bold + b2n c.reverse + b2n c.underline + b2n c.fg.isSome + b2n c.bg.isSome
  let p := if c.bg.isSome then p + Gen.sizeWithBg else if c.fg.isSome then p + Gen.sizeFgOnly else p
  if p = 0 then 0 else p + Gen.sizeEnd

/-- what `mircColor('%s', fg, bg)[:-1]` puts in front of the text, for colours `0..15` -/
def colorPrefix (c : Ctx) : Str :=
  match c.fg, c.bg with
  | none, none => []
  | some f, none => Gen.colorChar :: zfill2 f
  | none, some b => Gen.colorChar :: '0' :: '0' :: ',' :: zfill2 b
  | some f, some b => Gen.colorChar :: (natToStr f ++ ',' :: zfill2 b)

/-- `FormatContext.start(s)` -/
def Ctx.start (c : Ctx) (s : Str) : Str :=
  colorPrefix c ++ ((if c.underline then [Gen.underlineChar] else []) ++
    ((if c.reverse then [Gen.reverseChar] else []) ++ ((if c.bold then [Gen.boldChar] else []) ++ s)))

def Ctx.active (c : Ctx) : Bool := c.bold || c.reverse || c.underline || c.fg.isSome || c.bg.isSome

/-- `FormatContext.end(s)` -/
def Ctx.end (c : Ctx) (s : Str) : Str := if c.active then s ++ [Gen.resetChar] else s

/-! ## ircutils.FormatParser as a one-pass state machine

`getInt`/`getColor` read ahead by one character and push it back; here the parser is a fold over the
characters with the pending integer kept in the mode, and a pushed-back character is simply handled
again in plain mode. -/

inductive Mode where
  | plain
  | fg (i : Nat) (set : Bool) (n : Nat)     -- inside `context.fg = self.getInt()`, `n` digits read
  | bg (i : Nat) (set : Bool) (n : Nat)     -- inside `context.bg = self.getInt()`
deriving DecidableEq, Repr

structure PState where
  ctx : Ctx := {}
  mode : Mode := .plain
  maxSize : Nat := 0
deriving DecidableEq, Repr

/-- `self.max_context_size = max(self.max_context_size, context.size())` -/
def PState.bump (st : PState) : PState := { st with maxSize := max st.maxSize st.ctx.size }

def optOf (i : Nat) (set : Bool) : Option Nat := if set then some i else none

def digitVal (c : Char) : Nat := c.toNat - 48

def plainStep (st : PState) (c : Char) : PState :=
  if c = Gen.boldChar then ({ st with ctx := { st.ctx with bold := !st.ctx.bold } }).bump
  else if c = Gen.reverseChar then ({ st with ctx := { st.ctx with reverse := !st.ctx.reverse } }).bump
  else if c = Gen.underlineChar then ({ st with ctx := { st.ctx with underline := !st.ctx.underline } }).bump
  else if c = Gen.resetChar then { st with ctx := {} }
  else if c = Gen.colorChar then { st with mode := .fg 0 false 0 }
  else st

def setFg (st : PState) (v : Option Nat) : PState := { st with ctx := { st.ctx with fg := v }, mode := .plain }
def setBg (st : PState) (v : Option Nat) : PState := { st with ctx := { st.ctx with bg := v }, mode := .plain }

/-- a digit continues the number being read when fewer than `colorDigits` digits were read and the value
stays below `colorLimit`; otherwise the number is complete and the digit is text -/
def continues (i n : Nat) (c : Char) : Bool :=
  isDigit c && decide (n < Gen.colorDigits) && decide (i * Gen.colorBase + digitVal c < Gen.colorLimit)

def step (st : PState) (c : Char) : PState :=
  match st.mode with
  | .plain => plainStep st c
  | .fg i set n =>
    if continues i n c then { st with mode := .fg (i * Gen.colorBase + digitVal c) true (n + 1) }
    else if c = ',' then { setFg st (optOf i set) with mode := .bg 0 false 0 }
    else plainStep (setFg st (optOf i set)).bump c
  | .bg i set n =>
    if continues i n c then { st with mode := .bg (i * Gen.colorBase + digitVal c) true (n + 1) }
    else plainStep (setBg st (optOf i set)).bump c

/-- end of input while a colour is being read -/
def finish (st : PState) : PState :=
  match st.mode with
  | .plain => st
  | .fg i set _ => (setFg st (optOf i set)).bump
  | .bg i set _ => (setBg st (optOf i set)).bump

/-- `p = FormatParser(s); ctx = p.parse()` gives `(parse s).ctx` and `p.max_context_size = (parse s).maxSize` -/
def parse (s : Str) : PState := finish (s.foldl step {})

/-! ## ircutils.stripFormatting (what a client shows)

`stripColor` is `re.sub(r'\x03(?:\d{1,2},\d{1,2}|\d{1,2}|,\d{1,2}|)', '', s)`; the regular expression is
deterministic enough to be run as a six-state machine (ASCII digits; `\d` also matches other Unicode
decimal digits, which the generators avoid). -/

inductive SC where
  | plain
  | c0        -- after \x03
  | c1        -- \x03 and one digit
  | c2        -- \x03 and two digits
  | comma     -- … and a comma that is part of the code only if a digit follows
  | b1        -- … comma and one digit
deriving DecidableEq, Repr

def scPlain (c : Char) : SC × Str := if c = Gen.colorChar then (.c0, []) else (.plain, [c])

def scStep : SC → Char → SC × Str
  | .plain, c => scPlain c
  | .c0, c => if isDigit c then (.c1, []) else if c = ',' then (.comma, []) else scPlain c
  | .c1, c => if isDigit c then (.c2, []) else if c = ',' then (.comma, []) else scPlain c
  | .c2, c => if c = ',' then (.comma, []) else scPlain c
  | .comma, c => if isDigit c then (.b1, []) else (let r := scPlain c; (r.1, ',' :: r.2))
  | .b1, c => if isDigit c then (.plain, []) else scPlain c

def scGo : SC → Str → Str
  | .comma, [] => [',']
  | _, [] => []
  | st, c :: cs => (scStep st c).2 ++ scGo (scStep st c).1 cs

/-- `ircutils.stripColor` -/
def stripColor (s : Str) : Str := scGo .plain s

def isFmtChar (c : Char) : Bool :=
  c = Gen.boldChar || c = Gen.reverseChar || c = Gen.underlineChar || c = Gen.italicChar || c = Gen.resetChar

/-- `ircutils.stripFormatting`: colours first, then bold, reverse, underline, italic, reset -/
def stripFormatting (s : Str) : Str := (stripColor s).filter fun c => !isFmtChar c

/-! ## ircutils.wrap -/

/-- the `for chunk in chunks:` loop of `ircutils.wrap` -/
def processLines : Option Ctx → List Str → List Str
  | _, [] => []
  | ctx, l :: ls =>
    let l' := match ctx with
      | none => l
      | some c => c.start l
    let c' := (parse l').ctx
    c'.end l' :: processLines (some c') ls

/-- `ircutils.wrap(s, length)`, `chunks = TextWrapper()._split_chunks(s)` -/
def ircWrap (chunks : List Str) (s : Str) (length : Nat) : WrapRes :=
  let overhead := (parse s).maxSize
  match byteTextWrap chunks (length - overhead) with
  | .ok lines => .ok (processLines none lines)
  | e => e

/-- number of bytes `ctx.start` puts in front of a chunk -/
def Ctx.startCost (c : Ctx) : Nat := blen (colorPrefix c) + b2n c.underline + b2n c.reverse + b2n c.bold

/-- `true` when, along the loop of `ircutils.wrap`, re-opening the previous context and closing the new
one never costs more than the `overhead` that was reserved (the maximum of `size()` over the parse of
the whole text).  It can fail because the contexts are recomputed by re-parsing the *produced* lines:
a cut inside a `\x03NN` sequence, or a re-opened colour code running into the digits / comma that
follow, give a context the original text never had. -/
def coherentFrom (overhead : Nat) : Option Ctx → List Str → Bool
  | _, [] => true
  | ctx, l :: ls =>
    let l' := match ctx with
      | none => l
      | some c => c.start l
    let c' := (parse l').ctx
    decide ((match ctx with
      | none => 0
      | some c => c.startCost) + b2n c'.active ≤ overhead) && coherentFrom overhead (some c') ls

/-- the coherence condition for `ircutils.wrap(s, length)` -/
def coherent (chunks : List Str) (s : Str) (length : Nat) : Bool :=
  match byteTextWrap chunks (length - (parse s).maxSize) with
  | .ok lines => coherentFrom (parse s).maxSize none lines
  | _ => true

/-- a character that can continue a colour code -/
def contChar (c : Char) : Bool := isDigit c || c = ','

/-- every line after the first is non-empty and does not begin with a digit or a comma -/
def cleanStarts (lines : List Str) : Bool :=
  lines.tail.all fun l => match l with
    | [] => false
    | x :: _ => !contChar x

/-- `ircutils.wrap(s, length)` never starts a line (after the first) with a digit or a comma — the
decidable condition under which the recomputed contexts are provably those of the text -/
def cleanWrap (chunks : List Str) (s : Str) (length : Nat) : Bool :=
  match byteTextWrap chunks (length - (parse s).maxSize) with
  | .ok lines => cleanStarts lines
  | _ => true

/-! ## callbacks._makeReply -/

/-- the texts that come from the locale (`_('…')`) -/
structure Texts where
  moreSingular : Str         -- _('more message')
  morePlural : Str           -- _('more messages')
  emptyReply : Str           -- _('Error: I tried to send you an empty message.')
  errorPrefix : Str          -- _('Error: ')
deriving DecidableEq, Repr

/-- the untranslated texts, as they stand in the source -/
def Texts.english : Texts :=
  { moreSingular := Gen.moreSingular, morePlural := Gen.morePlural, emptyReply := Gen.emptyReply,
    errorPrefix := Gen.errorPrefix }

/-- everything `_makeReply` and the length arithmetic of `reply` look at -/
structure Env where
  botPrefix : Str            -- irc.prefix
  nick : Str                 -- msg.nick
  msgTarget : Str            -- msg.args[0]
  msgIsChannel : Bool        -- msg.channel is not None
  to : Option Str            -- self.to
  pubTo : Bool               -- isPublic(to)           (irc.isChannel is a parameter)
  pubNick : Bool             -- isPublic(msg.nick)
  pubMsgTarget : Bool        -- isPublic(msg.args[0])
  notice : Option Bool       -- self.notice
  priv : Option Bool         -- self.private
  prefixNick : Option Bool   -- self.prefixNick
  stripCtcp : Bool
  confWithNotice : Bool      -- supybot.reply.withNotice          (for the channel looked up)
  confInPrivate : Bool       -- supybot.reply.inPrivate
  confWithNickPrefix : Bool  -- supybot.reply.withNickPrefix
  confNoticeWhenPrivate : Bool -- supybot.reply.withNoticeWhenPrivate
  texts : Texts := Texts.english
  action : Bool := false     -- `action=True`: sent as a CTCP ACTION, without length check
  errorMode : Bool := false  -- `_makeErrorReply`: `error=True`
  confErrNotice : Bool := false    -- supybot.reply.error.withNotice
  confErrPrivate : Bool := false   -- supybot.reply.error.inPrivate
deriving DecidableEq, Repr

structure Out where
  command : Str
  target : Str
  payload : Str
deriving DecidableEq, Repr

def isCtcp (c : Char) : Bool := c = Gen.ctcpChar

/-- `s.strip('\x01')` -/
def stripCtcpStr (s : Str) : Str := rstripP isCtcp (lstripP isCtcp s)

/-- `ircutils.isValidArgument` -/
def validArg (s : Str) : Bool := !(s.contains '\r' || s.contains '\n' || s.contains '\x00')

/-- command, target and nick prefix chosen by `_makeReply` (they do not depend on the text) -/
def replyFrame (e : Env) : Str × Str × Str :=
  -- target = ircutils.replyTo(msg)
  let target0 := if e.msgIsChannel then e.msgTarget else e.nick
  let pub0 := if e.msgIsChannel then e.pubMsgTarget else e.pubNick
  -- if to is not None and isPublic(to): target = to
  let tp1 : Str × Bool := match e.to with
    | some t => if e.pubTo then (t, true) else (target0, pub0)
    | none => (target0, pub0)
  let notice0 := e.notice.getD e.confWithNotice
  let priv0 := e.priv.getD e.confInPrivate
  let prefixNick0 := e.prefixNick.getD e.confWithNickPrefix
  -- if error: notice = conf.…error.withNotice or notice; private = conf.…error.inPrivate or private
  let notice := if e.errorMode then e.confErrNotice || notice0 else notice0
  let priv := if e.errorMode then e.confErrPrivate || priv0 else priv0
  -- if private: prefixNick = False; target = msg.nick if to is None else to
  -- if action: prefixNick = False
  let prefixNick := if priv || e.action then false else prefixNick0
  let tp2 : Str × Bool := if priv then
      (match e.to with
       | none => (e.nick, e.pubNick)
       | some t => (t, e.pubTo))
    else tp1
  -- if to is None: to = msg.nick
  let to' := e.to.getD e.nick
  let pubTo' := match e.to with
    | none => e.pubNick
    | some _ => e.pubTo
  -- if prefixNick and isPublic(target): if not isPublic(to): s = '%s: %s' % (to, s)
  let pre := if prefixNick && tp2.2 && !pubTo' then to' ++ [':', ' '] else []
  -- if not isPublic(target): if conf.supybot.reply.withNoticeWhenPrivate(): notice = True
  let notice' := if !tp2.2 && e.confNoticeWhenPrivate then true else notice
  -- msgmaker: privmsg; notice if notice; action if action (an action is never a NOTICE)
  (if notice' && !e.action then Gen.noticeCmd else Gen.privmsgCmd, tp2.1, pre)

/-- the text after the nick prefix: the error prefix, `s.strip('\x01')`, the error text when nothing is
left (not for actions), the CTCP ACTION wrapping -/
def replyBody (e : Env) (s : Str) : Str :=
  let s0 := if e.errorMode then e.texts.errorPrefix ++ s else s
  let s1 := if e.stripCtcp then stripCtcpStr s0 else s0
  let s2 := if s1.isEmpty && !e.action then e.texts.emptyReply else s1
  if e.action then Gen.actionPrefix ++ s2 ++ Gen.actionSuffix else s2

/-- `_makeReply(irc, msg, s, to=, notice=, private=, prefixNick=, action=, error=, stripCtcp=)` for a
payload on which `safeArgument` is the identity (`validArg s`) -/
def makeReply (e : Env) (s : Str) : Out :=
  { command := (replyFrame e).1, target := (replyFrame e).2.1, payload := (replyFrame e).2.2 ++ replyBody e s }

/-- the line as the server relays it: `':%s %s %s :%s\r\n' % (irc.prefix, command, target, payload)` -/
def wire (e : Env) (o : Out) : Str :=
  ':' :: (e.botPrefix ++ ' ' :: (o.command ++ ' ' :: (o.target ++ ' ' :: ':' :: (o.payload ++ ['\r', '\n']))))

/-- the line as the server REALLY relays it: with the hostmask `p` the server knows for the bot.
`Env.botPrefix` (`irc.prefix`) is only the bot's belief of it. -/
def wireAs (p : Str) (o : Out) : Str :=
  ':' :: (p ++ ' ' :: (o.command ++ ' ' :: (o.target ++ ' ' :: ':' :: (o.payload ++ ['\r', '\n']))))

/-! ## NestedCommandsIrcProxy.reply: the length-checked branch -/

structure Cfg where
  moresLength : Nat     -- supybot.reply.mores.length
  maximumMores : Nat    -- supybot.reply.mores.maximum
  instant : Nat         -- supybot.reply.mores.instant
  mores : Bool          -- supybot.reply.mores
deriving DecidableEq, Repr

/-- `ircutils.bold` -/
def bold (s : Str) : Str := Gen.boldChar :: (s ++ [Gen.boldChar])

/-- `'(%i %s)' % (n, more)` -/
def countText (n : Nat) (more : Str) : Str := '(' :: (natToStr n ++ ' ' :: (more ++ [')']))

/-- `max(_('more message'), _('more messages'), key=len)` -/
def longerMore (t : Texts) : Str :=
  if t.moreSingular.length < t.morePlural.length then t.morePlural else t.moreSingular

/-- `' ' + ircutils.bold('(%i %s)' % (8 * s_size, suffix))` measured in bytes -/
def suffixReserve (t : Texts) (sSize : Nat) : Nat :=
  blen (' ' :: bold (countText (Gen.tabFactor * sSize) (longerMore t)))

/-- `512 - len(probe.encode())`, `probe` = the wire form of `_makeReply(self, msg, '.')` without the dot;
`none` when nothing is left (outside the model) -/
def autoLength (e : Env) : Option Nat :=
  let o := makeReply e Gen.probePayload
  let n := blen (wire e { o with payload := o.payload.dropLast })
  if n < Gen.maxLine then some (Gen.maxLine - n) else none

/-- `allowedLength` before the suffix reserve -/
def allowedLength (e : Env) (cfg : Cfg) : Option Nat :=
  if cfg.moresLength ≠ 0 then some cfg.moresLength else autoLength e

/-- `s[:maximumLength]` when `len(s) > maximumLength` (characters!) -/
def truncate (allowed : Nat) (cfg : Cfg) (s : Str) : Str :=
  if allowed * cfg.maximumMores < s.length then s.take (allowed * cfg.maximumMores) else s

/-- the text of the message carrying `chunk` when `i` messages have been built before it
(`i = 0` is the last chunk) -/
def withSuffix (t : Texts) (i : Nat) (chunk : Str) : Str :=
  if i = 0 then chunk
  else chunk ++ ' ' :: bold (countText i (if i = 1 then t.moreSingular else t.morePlural))

/-- `for (i, chunk) in enumerate(chunks): … msgs.append(_makeReply(…))` over the reversed chunk list;
`msgs` is in Python order (index 0 = last chunk; the stack is popped from the end) -/
def buildMsgs (e : Env) : List Str → List Out → List Out
  | [], msgs => msgs
  | chunk :: rest, msgs => buildMsgs e rest (msgs ++ [makeReply e (withSuffix e.texts msgs.length chunk)])

/-- `msgs.pop()` on a Python list: (last element, the rest) -/
def popLast (l : List Out) : Option (Out × List Out) :=
  match l.getLast? with
  | none => none
  | some x => some (x, l.dropLast)

/-- `while instant > 1 and msgs: instant -= 1; sendMsg(msgs.pop())` → (sent in order, remaining msgs) -/
def instantLoop : Nat → List Out → List Out → List Out × List Out
  | 0, msgs, sent => (sent, msgs)
  | 1, msgs, sent => (sent, msgs)
  | n + 2, msgs, sent =>
    match popLast msgs with
    | none => (sent, msgs)
    | some (x, rest) => instantLoop (n + 1) rest (sent ++ [x])

inductive ReplyRes where
  | sent (now : List Out) (stored : Option (List Out))   -- messages queued now; the list put in `_mores`
  | wrapFailed (r : WrapRes)
  | unsupported
deriving DecidableEq, Repr

/-- the end of the branch: build the messages of the chunks, send the first `instant` ones, store the rest -/
def deliver (e : Env) (cfg : Cfg) (lines : List Str) : ReplyRes :=
  let msgs := buildMsgs e lines.reverse []
  let (sent, rest) := instantLoop cfg.instant msgs []
  match popLast rest with
  | none => .sent sent none
  | some (x, stored) => .sent (sent ++ [x]) (some stored)

/-- first half of the branch: the (possibly truncated) text, and whether it goes out as one message -/
def prepare (e : Env) (cfg : Cfg) (s : Str) : Option (Nat × Str × Bool) :=
  match allowedLength e cfg with
  | none => none
  | some allowed =>
    let s1 := truncate allowed cfg s
    some (allowed, s1, blen s1 ≤ allowed || !cfg.mores)

/-- `reply(s)` with `finalEvaled`, not nested, length checked; `s` is `safeArgument`'s result and
`chunks = TextWrapper()._split_chunks(s truncated)` -/
def reply (e : Env) (cfg : Cfg) (chunks : List Str) (s : Str) : ReplyRes :=
  match prepare e cfg s with
  | none => .unsupported
  | some (allowed, s1, single) =>
    if single then .sent [makeReply e s1] none
    else
      let reserve := suffixReserve e.texts (blen s1)
      match ircWrap chunks s1 (allowed - reserve) with
        | .ok lines =>
          -- `chunks = chunks[:maximumMores]`: reply.mores.maximum is the maximum number of chunks
          deliver e cfg (lines.take cfg.maximumMores)
        | r => .wrapFailed r

/-! ## the other shapes of a reply -/

/-- `irc.reply(s, action=…)` at top level: `action=True` implies `noLengthCheck` (one message, whatever
its size); everything else goes through the length-checked branch -/
def replyCall (e : Env) (cfg : Cfg) (chunks : List Str) (s : Str) : ReplyRes :=
  if e.action then .sent [makeReply e s] none else reply e cfg chunks s

/-- `_makeErrorReply(irc, msg, s)`: `error=True`, none of the reply attributes of the proxy are used -/
def errorEnv (e : Env) : Env :=
  { e with to := none, pubTo := false, notice := none, priv := none, prefixNick := none, action := false,
           errorMode := true }

/-- `irc.error(s)` (no `Raise`): one message, never length-checked; nothing when `s` is empty -/
def errorReply (e : Env) (s : Str) : Option Out :=
  if s.isEmpty then none else some (makeReply (errorEnv e) s)

/-- a nested command's reply becomes an argument: `s[:conf.supybot.reply.maximumLength()]` -/
def nestedArg (maximumLength : Nat) (s : Str) : Str := s.take maximumLength

/-! ## Irc._truncateMsg: what is really written to the socket -/

/-- the line the bot sends (the server adds `:prefix ` when relaying it) -/
def outLine (o : Out) : Str := o.command ++ ' ' :: (o.target ++ ' ' :: ':' :: (o.payload ++ ['\r', '\n']))

/-- `bytes[:n].decode('utf-8', 'ignore')`: the whole characters that fit in `n` bytes -/
def takeBytes : Nat → Str → Str
  | _, [] => []
  | n, c :: cs => if c.utf8Size ≤ n then c :: takeBytes (n - c.utf8Size) cs else []

/-- `Irc._truncateMsg` on a message without server tags -/
def truncateLine (l : Str) : Str :=
  if Gen.ircMaxLine < blen l then takeBytes (Gen.ircMaxLine - 2) l ++ ['\r', '\n'] else l

/-- what `takeMsg` hands to the driver for a queued reply -/
def sentLine (o : Out) : Str := truncateLine (outLine o)

/-! ## configuration lookups: global values and the values of one channel -/

structure ConfVals where
  withNotice : Bool        -- supybot.reply.withNotice
  inPrivate : Bool         -- supybot.reply.inPrivate
  withNickPrefix : Bool    -- supybot.reply.withNickPrefix
  errNotice : Bool         -- supybot.reply.error.withNotice
  errPrivate : Bool        -- supybot.reply.error.inPrivate
  mores : Bool             -- supybot.reply.mores
  moresLength : Nat        -- supybot.reply.mores.length
  maximum : Nat            -- supybot.reply.mores.maximum
  instant : Nat            -- supybot.reply.mores.instant
deriving DecidableEq, Repr

/-- the keyword arguments of one `irc.reply(...)` -/
structure Kw where
  to : Option Str := none
  notice : Option Bool := none
  priv : Option Bool := none
  prefixNick : Option Bool := none
  action : Option Bool := none
  noLengthCheck : Option Bool := none
deriving DecidableEq, Repr

/-- the reply attributes of a proxy (`self.to`, `self.notice`, …) -/
structure Attrs where
  to : Option Str := none
  notice : Option Bool := none
  priv : Option Bool := none
  action : Option Bool := none
  noLengthCheck : Option Bool := none
  prefixNick : Bool
deriving DecidableEq, Repr

/-- Python's `a or b` on `None` / `False` / `True` -/
def orPy (a b : Option Bool) : Option Bool := if a = some true then some true else b

def truthyStr : Option Str → Bool
  | some t => !t.isEmpty
  | none => false

/-- the head of `reply()`: how the keywords update the attributes of the proxy -/
def Attrs.apply (a : Attrs) (k : Kw) : Attrs :=
  let pn := k.prefixNick.getD a.prefixNick
  let action := match k.action with
    | some v => orPy a.action (some v)
    | none => a.action
  let pn := if k.action = some true then false else pn
  let notice := match k.notice with
    | some v => orPy a.notice (some v)
    | none => a.notice
  let priv := match k.priv with
    | some v => orPy a.priv (some v)
    | none => a.priv
  let to := match k.to with
    | some t => if truthyStr a.to then a.to else some t
    | none => a.to
  { to := to, notice := notice, priv := priv, action := action, prefixNick := pn,
    noLengthCheck := orPy (orPy k.noLengthCheck a.noLengthCheck) action }

/-- a nested command's final reply is handed to the OUTER proxy with all the attributes of the inner one:
`self.irc.reply(s, noLengthCheck=self.noLengthCheck, to=self.to, notice=self.notice, action=self.action,
private=self.private, prefixNick=self.prefixNick)` — they stay set on the outer proxy (they leak) -/
def Attrs.forward (a : Attrs) : Kw :=
  { to := a.to, notice := a.notice, priv := a.priv, prefixNick := some a.prefixNick, action := a.action,
    noLengthCheck := a.noLengthCheck }

/-- what a network sets for the configuration values: for the whole network, and for one channel of it -/
structure NetConf where
  net : Option ConfVals := none
  netChan : Option (Str × ConfVals) := none
deriving DecidableEq, Repr

/-- one call of `irc.reply` / `irc.error` as the command sees it, before any configuration lookup -/
structure Call where
  botPrefix : Str
  msgPrefix : Str            -- msg.prefix
  nick : Str                 -- msg.nick
  msgTarget : Str            -- msg.args[0] (with its STATUSMSG prefix, if any)
  msgChannel : Option Str    -- msg.channel: the channel without STATUSMSG prefix, or None
  kw : Kw                    -- the keywords of this call
  inner : Option Kw          -- the keywords of the nested command whose reply is this call's text
  toStripped : Option Str    -- irc.stripChannelPrefix(self.to)
  pubTo : Bool               -- irc.isChannel(irc.stripChannelPrefix(self.to))
  pubNick : Bool
  pubMsgTarget : Bool
  chanTo : Bool              -- ircutils.isChannel(self.to)         (the test made by registry.getSpecific)
  chanMsgTarget : Bool       -- ircutils.isChannel(msg.args[0])
  toIsNick : Bool            -- ircutils.isNick(self.to)
  toHostmask : Option Str    -- irc.state.nickToHostmask(self.to), when known
  stripCtcp : Bool
  texts : Texts
  noticeWhenPrivate : Bool   -- supybot.reply.withNoticeWhenPrivate (global)
  confGlobal : ConfVals
  confChan : Option (Str × ConfVals)     -- the values set for one channel
  confNet : NetConf := {}                -- the values set for this network
deriving DecidableEq, Repr

/-- `conf.get(group, channel=ch, network=irc.network)` (`registry.Value.getSpecific`): with a channel, the
network's values win as soon as the network (or the network for that channel) has one set; else the
channel's values, else the global ones.  Without a (valid) channel: the network's values, else global. -/
def Call.confAt (c : Call) (ch : Option Str) : ConfVals :=
  match ch with
  | some x =>
    let nc : Option ConfVals := match c.confNet.netChan with
      | some (oc, v) => if x = oc then some v else none
      | none => none
    match nc, c.confNet.net with
    | some v, _ => v
    | none, some v => v
    | none, none =>
      (match c.confChan with
       | some (oc, v) => if x = oc then v else c.confGlobal
       | none => c.confGlobal)
  | none => c.confNet.net.getD c.confGlobal

/-- `_resetReplyAttributes` -/
def Call.reset (c : Call) : Attrs :=
  { prefixNick := (c.confAt c.msgChannel).withNickPrefix }

/-- the attributes of the proxy when `_makeReply` runs -/
def Call.attrs (c : Call) : Attrs :=
  match c.inner with
  | none => c.reset.apply c.kw
  | some ki => (c.reset.apply (c.reset.apply ki).forward).apply c.kw

def Call.to (c : Call) : Option Str := c.attrs.to
def Call.action (c : Call) : Bool := c.attrs.action == some true
/-- `self.noLengthCheck` is true: one message, whatever its size -/
def Call.unchecked (c : Call) : Bool := c.attrs.noLengthCheck == some true
def Call.msgIsChannel (c : Call) : Bool := c.msgChannel.isSome

/-- the channel `_makeReply` looks its configuration up for: `irc.stripChannelPrefix(target)` when the
target (`replyTo(msg)`, or `to` when it is a channel) is public -/
def Call.lookupChannel (c : Call) : Option Str :=
  let chan0 : Option Str := if c.msgIsChannel then (if c.pubMsgTarget then c.msgChannel else none)
    else (if c.pubNick then some c.nick else none)
  match c.to with
  | some _ => if c.pubTo then c.toStripped else chan0
  | none => chan0

/-- the reply attributes and configuration values as `_makeReply` will see them -/
def Call.env (c : Call) : Env :=
  let a := c.attrs
  let cv := c.confAt c.lookupChannel
  { botPrefix := c.botPrefix, nick := c.nick, msgTarget := c.msgTarget, msgIsChannel := c.msgIsChannel,
    to := a.to, pubTo := c.pubTo, pubNick := c.pubNick, pubMsgTarget := c.pubMsgTarget,
    notice := a.notice, priv := a.priv, prefixNick := some a.prefixNick, stripCtcp := c.stripCtcp,
    confWithNotice := cv.withNotice, confInPrivate := cv.inPrivate, confWithNickPrefix := cv.withNickPrefix,
    confNoticeWhenPrivate := c.noticeWhenPrivate, texts := c.texts, action := c.action, errorMode := false,
    confErrNotice := cv.errNotice, confErrPrivate := cv.errPrivate }

/-- `irc.error(s)`: no keyword and no attribute of the proxy reaches `_makeReply` -/
def Call.errorEnv (c : Call) : Env :=
  let c' := { c with kw := {}, inner := none, toStripped := none, pubTo := false, chanTo := false, toIsNick := false }
  { c'.env with prefixNick := none, errorMode := true }

/-- `target = self._getTarget(to)`: the channel the `reply.mores.*` values are looked up for (the raw
target: a STATUSMSG-prefixed one is not a channel for `registry.getSpecific`) -/
def Call.cfg (c : Call) : Cfg :=
  let usesTo := c.attrs.priv == some true && truthyStr c.to
  let target := if usesTo then c.to.getD [] else c.msgTarget
  let isChan := if usesTo then c.chanTo else c.chanMsgTarget
  let cv := c.confAt (if isChan then some target else none)
  { moresLength := cv.moresLength, maximumMores := cv.maximum, instant := cv.instant, mores := cv.mores }

/-- one call of `irc.reply(s, …)`: the length-checked branch unless `noLengthCheck` (set by `action=True`,
here or in the nested command) -/
def Call.reply (c : Call) (chunks : List Str) (s : Str) : ReplyRes :=
  if c.unchecked then .sent [makeReply c.env s] none else C12.reply c.env c.cfg chunks s

/-- the key under which `reply` stores the pending messages: the `user@host` of `to` when it is a nick
the bot knows, else the requester's -/
def Call.storeMask (c : Call) : Str :=
  let pfx := match c.to with
    | some t => if !t.isEmpty && c.toIsNick then c.toHostmask.getD c.msgPrefix else c.msgPrefix
    | none => c.msgPrefix
  match split1 '!' pfx with
  | some (_, rest) => rest
  | none => []

/-! ## Misc.more -/

/-- `msgs = L[-number:]; msgs.reverse(); L[-number:] = []` → (messages queued in order, new `L`).
`L[-0:]` is the whole list. -/
def moreStep (number : Nat) (l : List Out) : List Out × List Out :=
  let k := if number = 0 then l.length else min number l.length
  ((l.drop (l.length - k)).reverse, l.take (l.length - k))

/-! ## the `_mores` dictionary shared by all requesters

`callbacks.IrcObjectProxy._mores` is one class-level `IrcDict` (keys lowered with the rfc1459 rules).
`reply` binds two keys to the SAME list object: `_mores[user@host] = msgs` and
`_mores[nick] = (private, msgs)`.  `Misc.more` pops from `_mores[user@host]` in place, and
`more <nick>` first binds the caller's `user@host` to a COPY (`L[:]`) of the list found under `<nick>`.
List objects are modelled as indices into a heap that only grows. -/

/-- `ircutils.toLower` with the rfc1459 casemapping (ASCII upper case and `[]\~`) -/
def ircLowerChar (c : Char) : Char :=
  if c = '[' then '{' else if c = ']' then '}' else if c = '\\' then '|' else if c = '~' then '^'
  else asciiLowerChar c

def ircLower (s : Str) : Str := s.map ircLowerChar

/-- dictionary lookup in an association list (the most recent binding of a key is in front) -/
def lookupKey {β : Type} (k : Str) : List (Str × β) → Option β
  | [] => none
  | (k', v) :: rest => if k = k' then some v else lookupKey k rest

structure Mores where
  lists : List (List Out) := []                -- heap of list objects
  byMask : List (Str × Nat) := []              -- `_mores[user@host] = <list object>`
  byNick : List (Str × (Bool × Nat)) := []     -- `_mores[nick] = (private, <list object>)`
deriving Repr

/-- `self._mores[mask] = msgs; self._mores[msg.nick] = (private, msgs)` with a fresh list object -/
def Mores.store (m : Mores) (mask nick : Str) (priv : Bool) (msgs : List Out) : Mores :=
  { lists := m.lists ++ [msgs],
    byMask := (ircLower mask, m.lists.length) :: m.byMask,
    byNick := (ircLower nick, (priv, m.lists.length)) :: m.byNick }

inductive MoreRes where
  | sent (l : List Out)     -- messages queued
  | noMore                  -- "That's all, there is no more."
  | noPublic                -- "<nick> has no public mores."
  | cantFind                -- "Sorry, I can't find any mores for <nick>"
  | notAsked                -- "You haven't asked me a command; …"
deriving DecidableEq, Repr

/-- the `if nick:` block of `Misc.more`: bind the caller's hostmask to a copy of `<nick>`'s list -/
def Mores.adopt (m : Mores) (mask nick : Str) : Except MoreRes Mores :=
  match lookupKey (ircLower nick) m.byNick with
  | none => .error .cantFind
  | some (priv, id) =>
    if priv then .error .noPublic
    else .ok { m with lists := m.lists ++ [m.lists.getD id []],
                      byMask := (ircLower mask, m.lists.length) :: m.byMask }

/-- the rest of `Misc.more`: pop `number` messages, in place, from the caller's list -/
def Mores.pop (m : Mores) (mask : Str) (number : Nat) : Mores × MoreRes :=
  match lookupKey (ircLower mask) m.byMask with
  | none => (m, .notAsked)
  | some id =>
    let r := moreStep number (m.lists.getD id [])
    ({ m with lists := m.lists.set id r.2 }, if r.1.isEmpty then .noMore else .sent r.1)

/-- `Misc.more` called by `…!mask` with the optional argument `<nick>` and `plugins.Misc.mores = number` -/
def Mores.more (m : Mores) (mask : Str) (nick : Option Str) (number : Nat) : Mores × MoreRes :=
  match nick with
  | none => m.pop mask number
  | some n =>
    match m.adopt mask n with
    | .error e => (m, e)
    | .ok m' => m'.pop mask number

/-- `private = self.private or not public` stored next to the list under the nick -/
def storedPrivate (e : Env) : Bool := e.priv.getD false || !e.msgIsChannel

end C12
