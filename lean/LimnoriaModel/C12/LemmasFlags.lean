/-
C12 — helper lemmas, part D: text without colour codes (bold / reverse / underline / reset / italic only).
For such text the contexts recomputed by `ircutils.wrap` from the produced lines are exactly the
contexts of the original text, so the reserved overhead is always sufficient and the visible text is
preserved.
-/
import LimnoriaModel.C12.LemmasMores
namespace C12
open Py

/-- no `\x03` -/
def NoColour (s : Str) : Prop := ∀ c ∈ s, c ≠ Gen.colorChar

instance (s : Str) : Decidable (NoColour s) := by unfold NoColour; exact inferInstance

/-- the five control characters of the parser -/
def isCtl (c : Char) : Bool :=
  c = Gen.boldChar || c = Gen.reverseChar || c = Gen.underlineChar || c = Gen.resetChar || c = Gen.colorChar

/-- table facts: the control characters are pairwise distinct, none is a blank, a digit or a comma -/
def FlagsOk : Prop :=
  Gen.boldChar ≠ Gen.reverseChar ∧ Gen.boldChar ≠ Gen.underlineChar ∧ Gen.boldChar ≠ Gen.resetChar ∧
  Gen.boldChar ≠ Gen.colorChar ∧ Gen.reverseChar ≠ Gen.underlineChar ∧ Gen.reverseChar ≠ Gen.resetChar ∧
  Gen.reverseChar ≠ Gen.colorChar ∧ Gen.underlineChar ≠ Gen.resetChar ∧ Gen.underlineChar ≠ Gen.colorChar ∧
  Gen.resetChar ≠ Gen.colorChar ∧ Gen.italicChar ≠ Gen.colorChar ∧
  isCtl ' ' = false ∧ isCtl '\t' = false ∧ isCtl '\n' = false ∧ isCtl '\x0b' = false ∧ isCtl '\x0c' = false ∧
  isCtl '\r' = false ∧ isFmtChar ' ' = false ∧ isFmtChar '\t' = false ∧ isFmtChar '\n' = false ∧
  isFmtChar '\x0b' = false ∧ isFmtChar '\x0c' = false ∧ isFmtChar '\r' = false

instance : Decidable FlagsOk := by unfold FlagsOk; exact inferInstance

/-- a context without colours -/
def Flags (c : Ctx) : Prop := c.fg = none ∧ c.bg = none

theorem flags_default : Flags {} := ⟨rfl, rfl⟩

theorem ctxOk_of_flags {c : Ctx} (h : Flags c) : CtxOk c :=
  ⟨(by intro f hf; rw [h.1] at hf; simp at hf), (by intro b hb; rw [h.2] at hb; simp at hb)⟩

/-- what one character does to a context when no colour is being read -/
def toggle (c : Ctx) (ch : Char) : Ctx :=
  if ch = Gen.boldChar then { c with bold := !c.bold }
  else if ch = Gen.reverseChar then { c with reverse := !c.reverse }
  else if ch = Gen.underlineChar then { c with underline := !c.underline }
  else if ch = Gen.resetChar then {}
  else c

theorem toggle_flags {c : Ctx} (h : Flags c) (ch : Char) : Flags (toggle c ch) := by
  unfold toggle
  split
  · exact h
  · split
    · exact h
    · split
      · exact h
      · split
        · exact flags_default
        · exact h

theorem foldl_toggle_flags (s : Str) : ∀ {c : Ctx}, Flags c → Flags (s.foldl toggle c) := by
  induction s with
  | nil => intro c h; exact h
  | cons x xs ih => intro c h; exact ih (toggle_flags h x)

def Inv (st : PState) : Prop := st.ctx.size ≤ st.maxSize

theorem size_default : ({} : Ctx).size = 0 := by simp [Ctx.size, b2n]

theorem step_plain {st : PState} (hm : st.mode = .plain) {ch : Char} (hch : ch ≠ Gen.colorChar) :
    (step st ch).ctx = toggle st.ctx ch ∧ (step st ch).mode = .plain ∧ st.maxSize ≤ (step st ch).maxSize ∧
    (Inv st → Inv (step st ch)) := by
  unfold step
  rw [hm]
  simp only
  unfold plainStep toggle Inv
  split
  · exact ⟨rfl, hm, by simp [PState.bump]; omega, by intro _; simp [PState.bump]; omega⟩
  · split
    · exact ⟨rfl, hm, by simp [PState.bump]; omega, by intro _; simp [PState.bump]; omega⟩
    · split
      · exact ⟨rfl, hm, by simp [PState.bump]; omega, by intro _; simp [PState.bump]; omega⟩
      · split
        · exact ⟨rfl, hm, Nat.le_refl _, by intro _; simp [size_default]⟩
        · exact ⟨rfl, hm, Nat.le_refl _, fun h => h⟩

theorem foldl_step_nocolour (s : Str) : ∀ (st : PState), st.mode = .plain → NoColour s →
    (s.foldl step st).ctx = s.foldl toggle st.ctx ∧ (s.foldl step st).mode = .plain ∧
    st.maxSize ≤ (s.foldl step st).maxSize ∧ (Inv st → Inv (s.foldl step st)) := by
  induction s with
  | nil => intro st hm _; exact ⟨rfl, hm, Nat.le_refl _, fun h => h⟩
  | cons x xs ih =>
    intro st hm hn
    obtain ⟨h1, h2, h3, h4⟩ := step_plain hm (hn x List.mem_cons_self)
    obtain ⟨g1, g2, g3, g4⟩ := ih (step st x) h2 (fun y hy => hn y (List.mem_cons_of_mem _ hy))
    simp only [List.foldl_cons]
    exact ⟨by rw [g1, h1], g2, by omega, fun h => g4 (h4 h)⟩

theorem finish_plain {st : PState} (hm : st.mode = .plain) : finish st = st := by
  unfold finish; rw [hm]

theorem parse_nocolour (s : Str) (hn : NoColour s) :
    parse s = s.foldl step {} ∧ (parse s).ctx = s.foldl toggle {} ∧ Inv (parse s) := by
  obtain ⟨h1, h2, _, h4⟩ := foldl_step_nocolour s {} rfl hn
  have : parse s = s.foldl step {} := by unfold parse; exact finish_plain h2
  refine ⟨this, by rw [this]; exact h1, by rw [this]; exact h4 (by simp [Inv, size_default])⟩

theorem nocolour_append {a b : Str} : NoColour (a ++ b) ↔ NoColour a ∧ NoColour b := by
  unfold NoColour
  constructor
  · intro h; exact ⟨fun c hc => h c (List.mem_append_left _ hc), fun c hc => h c (List.mem_append_right _ hc)⟩
  · intro ⟨h1, h2⟩ c hc
    rcases List.mem_append.mp hc with h | h
    · exact h1 c h
    · exact h2 c h

/-- the maximum recorded over a text is at least the one recorded over any prefix, and at least the
size of the context at the end of that prefix -/
theorem prefix_size_le (a b : Str) (hn : NoColour (a ++ b)) :
    (a.foldl toggle {}).size ≤ (parse (a ++ b)).maxSize := by
  obtain ⟨hna, hnb⟩ := nocolour_append.mp hn
  obtain ⟨hpa, hca, hia⟩ := parse_nocolour a hna
  obtain ⟨hpab, _, _⟩ := parse_nocolour (a ++ b) hn
  have hmode : (a.foldl step {}).mode = .plain := (foldl_step_nocolour a {} rfl hna).2.1
  obtain ⟨_, _, hmono, _⟩ := foldl_step_nocolour b (a.foldl step {}) hmode hnb
  rw [hpab, List.foldl_append]
  rw [hpa] at hia hca
  unfold Inv at hia
  rw [hca] at hia
  omega

/-! ## `start` re-creates a colourless context exactly -/

theorem nocolour_start (hf : FlagsOk) {c : Ctx} (hc : Flags c) {l : Str} (hl : NoColour l) : NoColour (c.start l) := by
  obtain ⟨_, _, _, h4, _, _, h7, _, h9, _⟩ := hf
  unfold Ctx.start colorPrefix
  rw [hc.1, hc.2]
  intro x hx
  simp only [List.nil_append, List.mem_append] at hx
  rcases hx with hx | hx | hx | hx
  · split at hx <;> simp at hx; subst hx; exact h9
  · split at hx <;> simp at hx; subst hx; exact h7
  · split at hx <;> simp at hx; subst hx; exact h4
  · exact hl x hx

theorem foldl_toggle_start (hf : FlagsOk) (c : Ctx) (hc : Flags c) (l : Str) :
    (c.start l).foldl toggle {} = l.foldl toggle c := by
  obtain ⟨h1, h2, _, _, h5, _⟩ := hf
  obtain ⟨fg, bg, bd, rv, ul⟩ := c
  obtain ⟨hfg, hbg⟩ := hc
  simp only at hfg hbg
  subst hfg; subst hbg
  unfold Ctx.start colorPrefix
  simp only [List.nil_append]
  cases bd <;> cases rv <;> cases ul <;>
    simp [toggle, h1.symm, h2.symm, h5.symm]

theorem parse_start_ctx (hf : FlagsOk) (c : Ctx) (hc : Flags c) (l : Str) (hl : NoColour l) :
    (parse (c.start l)).ctx = l.foldl toggle c := by
  rw [(parse_nocolour _ (nocolour_start hf hc hl)).2.1, foldl_toggle_start hf c hc l]

theorem active_le_size (hcs : ConstsOk) (c : Ctx) : b2n c.active ≤ c.size := by
  have h1 : 1 ≤ Gen.sizeEnd := hcs.2.2.2.1
  obtain ⟨fg, bg, bd, rv, ul⟩ := c
  cases fg <;> cases bg <;> cases bd <;> cases rv <;> cases ul <;>
    simp [Ctx.active, Ctx.size, b2n] <;> omega

/-! ## coherence and visible text along the loop of `ircutils.wrap` -/

/-- the context with which the loop re-opens the next line: none before the first line -/
def ctxOf : Option Ctx → Ctx
  | none => {}
  | some c => c

theorem coherentFrom_nocolour (hcs : ConstsOk) (hk : CharsOk) (hf : FlagsOk) (ov : Nat) :
    ∀ (lines : List Str) (pre : Str) (ctx : Option Ctx),
      NoColour (pre ++ lines.flatten) → (parse (pre ++ lines.flatten)).maxSize ≤ ov →
      ((ctx = none ∧ pre = []) ∨ ctx = some (pre.foldl toggle {})) →
      coherentFrom ov ctx lines = true := by
  intro lines
  induction lines with
  | nil => intro pre ctx _ _ _; rfl
  | cons l ls ih =>
    intro pre ctx hn hov hctx
    have hn' : NoColour ((pre ++ l) ++ ls.flatten) := by simpa [List.append_assoc] using hn
    have hov' : (parse ((pre ++ l) ++ ls.flatten)).maxSize ≤ ov := by simpa [List.append_assoc] using hov
    have hnl : NoColour l := (nocolour_append.mp (nocolour_append.mp hn').1).2
    -- c = the context at the end of `pre`
    have hcflags : Flags (pre.foldl toggle {}) := foldl_toggle_flags pre flags_default
    have hsz_c : (pre.foldl toggle {}).size ≤ ov := by
      have := prefix_size_le pre (l ++ ls.flatten) (by simpa using hn)
      simp only [List.flatten_cons] at hov; omega
    have hsz_c' : ((pre ++ l).foldl toggle {}).size ≤ ov := by
      have := prefix_size_le (pre ++ l) ls.flatten hn'; omega
    have hrest := ih (pre ++ l) (some ((pre ++ l).foldl toggle {})) hn' hov' (Or.inr rfl)
    have hcost : ∀ (c : Ctx), c = pre.foldl toggle {} →
        c.startCost + b2n ((pre ++ l).foldl toggle {}).active ≤ ov := by
      intro c hc
      have h1 := startCost_le_size hcs hk c (ctxOk_of_flags (hc ▸ hcflags))
      have h2 := active_le_size hcs ((pre ++ l).foldl toggle {})
      have h3 := b2n_le ((pre ++ l).foldl toggle {}).active
      cases hact : c.active
      · have := inactive_startCost c hact; omega
      · rw [hact] at h1; simp only [b2n, ↓reduceIte] at h1; rw [hc] at h1 ⊢; omega
    rcases hctx with ⟨rfl, rfl⟩ | rfl
    · -- first line: nothing is re-opened
      have hctx' : (parse l).ctx = ([] ++ l).foldl toggle {} := by
        rw [(parse_nocolour l hnl).2.1]; rfl
      simp only [coherentFrom, hctx', Bool.and_eq_true, decide_eq_true_eq]
      refine ⟨?_, hrest⟩
      have := active_le_size hcs (([] ++ l).foldl toggle {})
      omega
    · have hctx' : (parse ((pre.foldl toggle {}).start l)).ctx = (pre ++ l).foldl toggle {} := by
        rw [parse_start_ctx hf _ hcflags l hnl, List.foldl_append]
      simp only [coherentFrom, hctx', Bool.and_eq_true, decide_eq_true_eq]
      exact ⟨hcost _ rfl, hrest⟩

/-! ## parsing ignores what is not a control character: munging does not change the overhead -/

theorem step_not_ctl {st : PState} (hm : st.mode = .plain) {ch : Char} (h : isCtl ch = false) : step st ch = st := by
  simp only [isCtl, Bool.or_eq_false_iff, decide_eq_false_iff_not] at h
  obtain ⟨⟨⟨⟨h1, h2⟩, h3⟩, h4⟩, h5⟩ := h
  unfold step; rw [hm]; simp [plainStep, h1, h2, h3, h4, h5]

theorem foldl_step_filter (s : Str) : ∀ (st : PState), st.mode = .plain → NoColour s →
    s.foldl step st = (s.filter isCtl).foldl step st := by
  induction s with
  | nil => intro st _ _; rfl
  | cons x xs ih =>
    intro st hm hn
    have hxs : NoColour xs := fun y hy => hn y (List.mem_cons_of_mem _ hy)
    simp only [List.foldl_cons, List.filter_cons]
    cases hx : isCtl x
    · simp only [Bool.false_eq_true, ↓reduceIte]
      rw [step_not_ctl hm hx]; exact ih st hm hxs
    · simp only [↓reduceIte, List.foldl_cons]
      exact ih _ (step_plain hm (hn x List.mem_cons_self)).2.1 hxs

theorem filter_expandTabs (hf : FlagsOk) (s : Str) : ∀ col, (expandTabs col s).filter isCtl = s.filter isCtl := by
  have hsp : isCtl ' ' = false := hf.2.2.2.2.2.2.2.2.2.2.2.1
  have htab : isCtl '\t' = false := hf.2.2.2.2.2.2.2.2.2.2.2.2.1
  induction s with
  | nil => intro col; rfl
  | cons c cs ih =>
    intro col
    unfold expandTabs
    split
    · rename_i h; subst h
      rw [List.filter_append, ih]
      have : (List.replicate (8 - col % 8) ' ').filter isCtl = [] := by
        rw [List.filter_eq_nil_iff]; intro a ha; rw [(List.mem_replicate.mp ha).2, hsp]; simp
      simp [this, htab]
    · split <;> simp [List.filter_cons, ih]

theorem isTwWs_not_ctl (hf : FlagsOk) {c : Char} (h : isTwWs c = true) : isCtl c = false := by
  obtain ⟨_, _, _, _, _, _, _, _, _, _, _, h1, h2, h3, h4, h5, h6, _⟩ := hf
  simp only [isTwWs, Bool.or_eq_true, decide_eq_true_eq] at h
  rcases h with ((((h | h) | h) | h) | h) | h <;> subst h <;> assumption

theorem filter_map_ws (hf : FlagsOk) (s : Str) :
    (s.map fun c => if isTwWs c then ' ' else c).filter isCtl = s.filter isCtl := by
  have hsp : isCtl ' ' = false := hf.2.2.2.2.2.2.2.2.2.2.2.1
  induction s with
  | nil => rfl
  | cons c cs ih =>
    simp only [List.map_cons, List.filter_cons, ih]
    cases hw : isTwWs c
    · simp
    · simp [hsp, isTwWs_not_ctl hf hw]

theorem filter_munge (hf : FlagsOk) (s : Str) : (munge s).filter isCtl = s.filter isCtl := by
  unfold munge; rw [filter_map_ws hf, filter_expandTabs hf]

theorem nocolour_munge (hf : FlagsOk) {s : Str} (h : NoColour s) : NoColour (munge s) := by
  intro c hc
  rcases mem_munge hc with h1 | h1
  · exact h c h1
  · subst h1
    have hsp : isCtl ' ' = false := hf.2.2.2.2.2.2.2.2.2.2.2.1
    simp only [isCtl, Bool.or_eq_false_iff, decide_eq_false_iff_not] at hsp
    exact hsp.2

theorem parse_munge (hf : FlagsOk) (s : Str) (h : NoColour s) : parse (munge s) = parse s := by
  rw [(parse_nocolour _ (nocolour_munge hf h)).1, (parse_nocolour s h).1,
    foldl_step_filter _ {} rfl (nocolour_munge hf h), foldl_step_filter s {} rfl h, filter_munge hf]

theorem scGo_nocolour (s : Str) (h : NoColour s) : scGo .plain s = s := by
  induction s with
  | nil => rfl
  | cons c cs ih =>
    have hc := h c List.mem_cons_self
    simp only [scGo, scStep, scPlain, hc, ↓reduceIte, List.singleton_append]
    rw [ih (fun y hy => h y (List.mem_cons_of_mem _ hy))]

theorem stripFormatting_nocolour (s : Str) (h : NoColour s) :
    stripFormatting s = s.filter fun c => !isFmtChar c := by
  unfold stripFormatting stripColor; rw [scGo_nocolour s h]

theorem isFmt_ctl : isFmtChar Gen.boldChar = true ∧ isFmtChar Gen.reverseChar = true ∧
    isFmtChar Gen.underlineChar = true ∧ isFmtChar Gen.resetChar = true := by
  simp [isFmtChar]

theorem nocolour_end (hf : FlagsOk) (c : Ctx) {x : Str} (hx : NoColour x) : NoColour (c.end x) := by
  unfold Ctx.end
  split
  · exact nocolour_append.mpr ⟨hx, by intro y hy; simp at hy; subst hy; exact hf.2.2.2.2.2.2.2.2.2.1⟩
  · exact hx

theorem strip_start_end (hf : FlagsOk) (c c' : Ctx) (hc : Flags c) (l : Str) (hl : NoColour l) :
    stripFormatting (c'.end (c.start l)) = stripFormatting l := by
  have hs := nocolour_start hf hc hl
  rw [stripFormatting_nocolour _ (nocolour_end hf c' hs), stripFormatting_nocolour _ hl]
  obtain ⟨h1, h2, h3, h4⟩ := isFmt_ctl
  have hstart : (c.start l).filter (fun c => !isFmtChar c) = l.filter (fun c => !isFmtChar c) := by
    unfold Ctx.start colorPrefix
    rw [hc.1, hc.2]
    simp only [List.nil_append, List.filter_append]
    cases c.underline <;> cases c.reverse <;> cases c.bold <;> simp [h1, h2, h3]
  unfold Ctx.end
  split
  · rw [List.filter_append, hstart]; simp [h4]
  · exact hstart

theorem strip_processLines (hf : FlagsOk) : ∀ (lines : List Str) (ctx : Option Ctx),
    (∀ l ∈ lines, NoColour l) → (ctx = none ∨ ∃ c, ctx = some c ∧ Flags c) →
    (processLines ctx lines).map stripFormatting = lines.map stripFormatting := by
  intro lines
  induction lines with
  | nil => intro ctx _ _; rfl
  | cons l ls ih =>
    intro ctx hn hctx
    have hl := hn l List.mem_cons_self
    have hls : ∀ x ∈ ls, NoColour x := fun x hx => hn x (List.mem_cons_of_mem _ hx)
    rcases hctx with rfl | ⟨c, rfl, hc⟩
    · have hfl : Flags (parse l).ctx := by
        rw [(parse_nocolour l hl).2.1]; exact foldl_toggle_flags l flags_default
      simp only [processLines, List.map_cons]
      rw [ih (some (parse l).ctx) hls (Or.inr ⟨_, rfl, hfl⟩)]
      have := strip_start_end hf {} (parse l).ctx flags_default l hl
      rw [start_default] at this
      rw [this]
    · have hfl : Flags (parse (c.start l)).ctx := by
        rw [(parse_nocolour _ (nocolour_start hf hc hl)).2.1]; exact foldl_toggle_flags _ flags_default
      simp only [processLines, List.map_cons]
      rw [ih (some (parse (c.start l)).ctx) hls (Or.inr ⟨_, rfl, hfl⟩), strip_start_end hf c _ hc l hl]

theorem nocolour_of_flatten {ls : List Str} (h : NoColour ls.flatten) : ∀ l ∈ ls, NoColour l := by
  intro l hl c hc
  exact h c (List.mem_flatten.mpr ⟨l, hl, hc⟩)

end C12
