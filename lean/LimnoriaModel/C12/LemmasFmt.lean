/-
C12 — helper lemmas, part B: FormatContext, FormatParser, ircutils.wrap.
-/
import LimnoriaModel.C12.Lemmas
namespace C12
open Py

/-- the control characters are single bytes, pairwise what the parser expects -/
def CharsOk : Prop :=
  Gen.boldChar.utf8Size = 1 ∧ Gen.reverseChar.utf8Size = 1 ∧ Gen.underlineChar.utf8Size = 1 ∧
  Gen.resetChar.utf8Size = 1 ∧ Gen.colorChar.utf8Size = 1 ∧ Gen.boldChar ≠ Gen.ctcpChar

instance : Decidable CharsOk := by unfold CharsOk; exact inferInstance

/-- colours a context can hold after parsing: below 100, i.e. at most two digits -/
def CtxOk (c : Ctx) : Prop := (∀ f, c.fg = some f → f < 100) ∧ (∀ b, c.bg = some b → b < 100)

theorem ctxOk_default : CtxOk {} := ⟨(by intro f h; simp at h), (by intro b h; simp at h)⟩

/-! ## start / end / size -/

theorem b2n_le (b : Bool) : b2n b ≤ 1 := by cases b <;> simp [b2n]

theorem blen_start (hk : CharsOk) (c : Ctx) (s : Str) : blen (c.start s) = c.startCost + blen s := by
  obtain ⟨hb, hr, hu, _, _, _⟩ := hk
  unfold Ctx.start Ctx.startCost
  simp only [blen_append]
  cases c.underline <;> cases c.reverse <;> cases c.bold <;> simp [blen, b2n, hb, hr, hu] <;> omega

theorem blen_end (hk : CharsOk) (c : Ctx) (s : Str) : blen (c.end s) = blen s + b2n c.active := by
  unfold Ctx.end
  cases c.active
  · simp [b2n]
  · simp [b2n, blen_append, blen, hk.2.2.2.1]

theorem blen_colorPrefix (hk : CharsOk) (c : Ctx) (hok : CtxOk c) :
    blen (colorPrefix c) ≤ (if c.bg.isSome then 6 else if c.fg.isSome then 3 else 0) := by
  have hcc := hk.2.2.2.2.1
  have hcomma : (',' : Char).utf8Size = 1 := by decide
  have hzero : ('0' : Char).utf8Size = 1 := by decide
  unfold colorPrefix
  cases hf : c.fg with
  | none =>
    cases hb : c.bg with
    | none => simp [blen]
    | some b =>
      have := blen_zfill2 b (hok.2 b hb)
      simp [blen, hcc, hcomma, hzero, this]
  | some f =>
    cases hb : c.bg with
    | none =>
      have := blen_zfill2 f (hok.1 f hf)
      simp [blen, hcc, this]
    | some b =>
      have h1 := blen_zfill2 b (hok.2 b hb)
      have h2 := natToStr_small f (hok.1 f hf)
      have h3 := blen_natToStr f
      simp [blen, blen_append, hcc, hcomma, h1]; omega

theorem active_iff (c : Ctx) : c.active = true ↔
    (b2n c.bold + b2n c.reverse + b2n c.underline + b2n c.fg.isSome + b2n c.bg.isSome ≠ 0) := by
  unfold Ctx.active
  cases c.bold <;> cases c.reverse <;> cases c.underline <;> cases c.fg <;> cases c.bg <;> simp [b2n]

/-- re-opening a context and closing it again costs at most `size()` bytes -/
theorem startCost_le_size (hc : ConstsOk) (hk : CharsOk) (c : Ctx) (hok : CtxOk c) :
    c.startCost + b2n c.active ≤ c.size := by
  obtain ⟨_, h6, h3, h1, _⟩ := hc
  have hp := blen_colorPrefix hk c hok
  unfold Ctx.startCost Ctx.size
  have hact := active_iff c
  cases hbd : c.bold <;> cases hrv : c.reverse <;> cases hul : c.underline <;>
    cases hfg : c.fg <;> cases hbg : c.bg <;>
    simp [hbd, hrv, hul, hfg, hbg, b2n, Ctx.active] at hp hact ⊢ <;> omega

theorem inactive_startCost (c : Ctx) (h : c.active = false) : c.startCost = 0 := by
  unfold Ctx.active at h
  unfold Ctx.startCost colorPrefix
  cases hbd : c.bold <;> cases hrv : c.reverse <;> cases hul : c.underline <;>
    cases hfg : c.fg <;> cases hbg : c.bg <;> simp [hbd, hrv, hul, hfg, hbg, b2n, blen] at h ⊢

/-! ## the parser only produces colours below the limit -/

def StOk (st : PState) : Prop :=
  CtxOk st.ctx ∧ (match st.mode with
    | .plain => True
    | .fg i _ _ => i < 100
    | .bg i _ _ => i < 100)

theorem continues_lt {i n : Nat} {c : Char} (h : continues i n c = true) :
    i * Gen.colorBase + digitVal c < Gen.colorLimit := by
  simp only [continues, Bool.and_eq_true, decide_eq_true_eq] at h; exact h.2

theorem plainStep_ok {st : PState} (h : CtxOk st.ctx) (hm : st.mode = .plain) (c : Char) :
    StOk (plainStep st c) := by
  unfold plainStep
  split
  · exact ⟨h, by simp [PState.bump, hm]⟩
  · split
    · exact ⟨h, by simp [PState.bump, hm]⟩
    · split
      · exact ⟨h, by simp [PState.bump, hm]⟩
      · split
        · exact ⟨ctxOk_default, by simp [hm]⟩
        · split
          · exact ⟨h, by simp⟩
          · exact ⟨h, by simp [hm]⟩

theorem ctxOk_setFg {st : PState} (h : CtxOk st.ctx) {i : Nat} (hi : i < 100) (set : Bool) :
    CtxOk (setFg st (optOf i set)).ctx := by
  refine ⟨?_, h.2⟩
  intro f hf
  cases set <;> simp [setFg, optOf] at hf
  omega

theorem ctxOk_setBg {st : PState} (h : CtxOk st.ctx) {i : Nat} (hi : i < 100) (set : Bool) :
    CtxOk (setBg st (optOf i set)).ctx := by
  refine ⟨h.1, ?_⟩
  intro f hf
  cases set <;> simp [setBg, optOf] at hf
  omega

theorem step_ok (hc : ConstsOk) {st : PState} (h : StOk st) (c : Char) : StOk (step st c) := by
  have hlim : Gen.colorLimit ≤ 100 := hc.2.2.2.2.1
  obtain ⟨hctx, hmode⟩ := h
  unfold step
  split
  · rename_i hm; exact plainStep_ok hctx hm c
  · rename_i i set n hm
    rw [hm] at hmode
    simp only at hmode
    split
    · rename_i hcont
      have := continues_lt hcont
      exact ⟨hctx, by simp only; omega⟩
    · split
      · exact ⟨ctxOk_setFg hctx hmode set, by simp⟩
      · exact plainStep_ok (st := (setFg st (optOf i set)).bump) (ctxOk_setFg hctx hmode set) rfl c
  · rename_i i set n hm
    rw [hm] at hmode
    simp only at hmode
    split
    · rename_i hcont
      have := continues_lt hcont
      exact ⟨hctx, by simp only; omega⟩
    · exact plainStep_ok (st := (setBg st (optOf i set)).bump) (ctxOk_setBg hctx hmode set) rfl c

theorem foldl_step_ok (hc : ConstsOk) (s : Str) : ∀ st, StOk st → StOk (s.foldl step st) := by
  induction s with
  | nil => intro st h; exact h
  | cons c cs ih => intro st h; exact ih _ (step_ok hc h c)

theorem finish_ctxOk {st : PState} (h : StOk st) : CtxOk (finish st).ctx := by
  obtain ⟨hctx, hmode⟩ := h
  unfold finish
  split
  · exact hctx
  · rename_i i set n hm; rw [hm] at hmode; exact ctxOk_setFg hctx hmode set
  · rename_i i set n hm; rw [hm] at hmode; exact ctxOk_setBg hctx hmode set

/-- every context the parser returns holds colours of at most two digits -/
theorem parse_ctxOk (hc : ConstsOk) (s : Str) : CtxOk (parse s).ctx :=
  finish_ctxOk (foldl_step_ok hc s {} ⟨ctxOk_default, by simp⟩)

/-! ## text without formatting codes -/

/-- no bold / reverse / underline / reset / colour character -/
def Plain (s : Str) : Prop :=
  ∀ c ∈ s, c ≠ Gen.boldChar ∧ c ≠ Gen.reverseChar ∧ c ≠ Gen.underlineChar ∧ c ≠ Gen.resetChar ∧ c ≠ Gen.colorChar

instance (s : Str) : Decidable (Plain s) := by unfold Plain; exact inferInstance

theorem foldl_step_plain (s : Str) (h : Plain s) : s.foldl step {} = {} := by
  induction s with
  | nil => rfl
  | cons c cs ih =>
    obtain ⟨h1, h2, h3, h4, h5⟩ := h c List.mem_cons_self
    have : step {} c = {} := by simp [step, plainStep, h1, h2, h3, h4, h5]
    simp only [List.foldl_cons, this]
    exact ih (fun x hx => h x (List.mem_cons_of_mem _ hx))

theorem parse_plain (s : Str) (h : Plain s) : parse s = {} := by
  unfold parse; rw [foldl_step_plain s h]; rfl

theorem start_default (s : Str) : ({} : Ctx).start s = s := by
  simp [Ctx.start, colorPrefix]

theorem end_default (s : Str) : ({} : Ctx).end s = s := by
  simp [Ctx.end, Ctx.active]

theorem processLines_plain (lines : List Str) (h : ∀ l ∈ lines, Plain l) :
    ∀ ctx, (ctx = none ∨ ctx = some {}) → processLines ctx lines = lines := by
  induction lines with
  | nil => intro ctx _; rfl
  | cons l ls ih =>
    intro ctx hctx
    have hl := h l List.mem_cons_self
    have hrest := ih (fun x hx => h x (List.mem_cons_of_mem _ hx)) (some {}) (Or.inr rfl)
    rcases hctx with rfl | rfl
    · simp only [processLines, parse_plain l hl, end_default, hrest]
    · simp only [processLines, start_default, parse_plain l hl, end_default, hrest]

theorem coherentFrom_plain (lines : List Str) (h : ∀ l ∈ lines, Plain l) (overhead : Nat) :
    ∀ ctx, (ctx = none ∨ ctx = some {}) → coherentFrom overhead ctx lines = true := by
  induction lines with
  | nil => intro ctx _; rfl
  | cons l ls ih =>
    intro ctx hctx
    have hl := h l List.mem_cons_self
    have hrest := ih (fun x hx => h x (List.mem_cons_of_mem _ hx)) (some {}) (Or.inr rfl)
    rcases hctx with rfl | rfl
    · simp [coherentFrom, parse_plain l hl, hrest, Ctx.active, b2n]
    · simp [coherentFrom, start_default, parse_plain l hl, hrest, Ctx.active, b2n, Ctx.startCost, colorPrefix, blen]

theorem plain_of_flatten {ls : List Str} (h : Plain ls.flatten) : ∀ l ∈ ls, Plain l := by
  intro l hl c hc
  exact h c (List.mem_flatten.mpr ⟨l, hl, hc⟩)

theorem plain_munge {s : Str} (h : Plain s) : Plain (munge s) := by
  intro c hc
  rcases mem_munge hc with h1 | h1
  · exact h c h1
  · subst h1
    have : Gen.boldChar ≠ ' ' ∧ Gen.reverseChar ≠ ' ' ∧ Gen.underlineChar ≠ ' ' ∧ Gen.resetChar ≠ ' ' ∧ Gen.colorChar ≠ ' ' := by
      decide
    exact ⟨this.1.symm, this.2.1.symm, this.2.2.1.symm, this.2.2.2.1.symm, this.2.2.2.2.symm⟩

/-! ## ircutils.wrap: every line fits when the contexts are coherent -/

theorem processLines_fits (hk : CharsOk) (overhead size : Nat) :
    ∀ (lines : List Str) (ctx : Option Ctx), coherentFrom overhead ctx lines = true →
      (∀ l ∈ lines, blen l ≤ size) → ∀ l ∈ processLines ctx lines, blen l ≤ size + overhead := by
  intro lines
  induction lines with
  | nil => intro ctx _ _ l hl; simp [processLines] at hl
  | cons x xs ih =>
    intro ctx hco hsz l hl
    simp only [coherentFrom, Bool.and_eq_true, decide_eq_true_eq] at hco
    obtain ⟨hcost, hrest⟩ := hco
    simp only [processLines, List.mem_cons] at hl
    have hx := hsz x List.mem_cons_self
    rcases hl with rfl | hl
    · rw [blen_end hk]
      cases ctx with
      | none => simp only at hcost ⊢; omega
      | some c => simp only at hcost ⊢; rw [blen_start hk]; omega
    · exact ih _ hrest (fun y hy => hsz y (List.mem_cons_of_mem _ hy)) l hl

theorem processLines_length (lines : List Str) : ∀ ctx, (processLines ctx lines).length = lines.length := by
  induction lines with
  | nil => intro ctx; rfl
  | cons x xs ih => intro ctx; simp [processLines, ih]

end C12
