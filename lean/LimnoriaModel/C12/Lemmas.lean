/-
C12 — helper lemmas, part A: bytes, decimal rendering, whitespace munging, splitBytes, byteTextWrap.
-/
import LimnoriaModel.C12.Model
namespace C12
open Py

/-! ## constants of the code on which the proofs rest (re-checked against the extracted table) -/

/-- What the theorems need from the constants extracted from /repo. -/
def ConstsOk : Prop :=
  Gen.splitBytesTries = 4 ∧
  6 ≤ Gen.sizeWithBg + 1 ∧ 3 ≤ Gen.sizeFgOnly + 1 ∧ 1 ≤ Gen.sizeEnd ∧
  Gen.colorLimit ≤ 100 ∧ Gen.colorBase = 10 ∧
  Gen.maxLine = 512 ∧ Gen.tabFactor = 8 ∧
  Gen.digitChars = ['0', '1', '2', '3', '4', '5', '6', '7', '8', '9'] ∧
  Gen.probeTemplate = [':', '%', 's', ' ', '%', 's', ' ', '%', 's', ' ', ':', '%', 's', '\r', '\n'] ∧
  Gen.probePayload = ['.'] ∧
  Gen.countTemplate = ['(', '%', 'i', ' ', '%', 's', ')'] ∧ Gen.joinTemplate = ['%', 's', ' ', '%', 's'] ∧
  Gen.nickPrefixTemplate = ['%', 's', ':', ' ', '%', 's'] ∧ Gen.colorDigits = 2 ∧ Gen.minWrapSize = 4

instance : Decidable ConstsOk := by unfold ConstsOk; exact inferInstance

/-! ## bytes -/

theorem blen_append (a b : Str) : blen (a ++ b) = blen a + blen b := by
  induction a with
  | nil => simp [blen]
  | cons c cs ih => simp [blen, ih]; omega

theorem blen_nil : blen [] = 0 := rfl

theorem blen_cons (c : Char) (cs : Str) : blen (c :: cs) = c.utf8Size + blen cs := rfl

theorem blen_singleton (c : Char) : blen [c] = c.utf8Size := by simp [blen]

theorem blen_pos {s : Str} (h : s ≠ []) : 0 < blen s := by
  cases s with
  | nil => exact absurd rfl h
  | cons c cs => have := Char.utf8Size_pos c; simp [blen]; omega

theorem blen_reverse (s : Str) : blen s.reverse = blen s := by
  induction s with
  | nil => rfl
  | cons c cs ih => simp [blen_append, blen, ih]; omega

theorem blen_replicate_space (k : Nat) : blen (List.replicate k ' ') = k := by
  induction k with
  | zero => rfl
  | succ k ih =>
    have h : (' ' : Char).utf8Size = 1 := by decide
    simp [List.replicate_succ, blen, ih, h]; omega

theorem length_le_blen (s : Str) : s.length ≤ blen s := by
  induction s with
  | nil => simp [blen]
  | cons c cs ih => have := Char.utf8Size_pos c; simp [blen]; omega

theorem blen_dropWhile_le (p : Char → Bool) (s : Str) : blen (s.dropWhile p) ≤ blen s := by
  induction s with
  | nil => simp [blen]
  | cons c cs ih =>
    simp only [List.dropWhile_cons]
    split
    · simp [blen]; omega
    · exact Nat.le_refl _

theorem blen_flatten_ge_length {ls : List Str} (h : ∀ l ∈ ls, l ≠ []) : ls.length ≤ blen ls.flatten := by
  induction ls with
  | nil => simp [blen]
  | cons l ls ih =>
    have h1 := blen_pos (h l List.mem_cons_self)
    have h2 := ih (fun x hx => h x (List.mem_cons_of_mem _ hx))
    simp [blen_append]; omega

/-! ## decimal rendering -/

theorem natToStrAux_fuel : ∀ (k f : Nat), k ≤ f → natToStrAux f k = natToStrAux k k := by
  intro k
  induction k using Nat.strongRecOn with
  | _ k ih =>
    intro f hf
    by_cases hk : k < 10
    · cases f with
      | zero =>
        have : k = 0 := by omega
        subst this; rfl
      | succ f' =>
        cases k with
        | zero => simp [natToStrAux]
        | succ k' => simp [natToStrAux, hk]
    · cases f with
      | zero => omega
      | succ f' =>
        cases k with
        | zero => omega
        | succ k' =>
          simp only [natToStrAux, hk, ↓reduceIte]
          have h1 : (k' + 1) / 10 < k' + 1 := Nat.div_lt_self (by omega) (by omega)
          rw [ih ((k' + 1) / 10) h1 f' (by omega), ih ((k' + 1) / 10) h1 k' (by omega)]

theorem natToStr_unfold (n : Nat) :
    natToStr n = if n < 10 then [digitChar n] else natToStr (n / 10) ++ [digitChar (n % 10)] := by
  unfold natToStr
  cases n with
  | zero => simp [natToStrAux]
  | succ k =>
    simp only [natToStrAux]
    split
    · rfl
    · rw [natToStrAux_fuel ((k + 1) / 10) k (by omega)]

theorem natToStr_length_pos (n : Nat) : 1 ≤ (natToStr n).length := by
  rw [natToStr_unfold]; split <;> simp

theorem natToStr_length_mono : ∀ (m n : Nat), n ≤ m → (natToStr n).length ≤ (natToStr m).length := by
  intro m
  induction m using Nat.strongRecOn with
  | _ m ih =>
    intro n hnm
    rw [natToStr_unfold n, natToStr_unfold m]
    by_cases hm : m < 10
    · have hn : n < 10 := by omega
      simp [hm, hn]
    · by_cases hn : n < 10
      · simp [hm, hn]
      · simp only [hm, hn, ↓reduceIte, List.length_append, List.length_singleton]
        have := ih (m / 10) (Nat.div_lt_self (by omega) (by omega)) (n / 10) (Nat.div_le_div_right hnm)
        omega

theorem digitChar_size : ∀ d, d < 10 → (digitChar d).utf8Size = 1 := by decide

theorem blen_natToStr : ∀ (n : Nat), blen (natToStr n) = (natToStr n).length := by
  intro n
  induction n using Nat.strongRecOn with
  | _ n ih =>
    rw [natToStr_unfold]
    split
    · rename_i h; simp [blen, digitChar_size n h]
    · rename_i h
      have := ih (n / 10) (Nat.div_lt_self (by omega) (by omega))
      simp [blen_append, blen, this, digitChar_size (n % 10) (Nat.mod_lt _ (by omega))]

theorem natToStr_small : ∀ n, n < 100 → (natToStr n).length ≤ 2 := by decide

theorem zfill2_small : ∀ n, n < 100 → (zfill2 n).length = 2 := by decide

theorem blen_zfill2 : ∀ n, n < 100 → blen (zfill2 n) = 2 := by decide

/-! ## textwrap munging -/

theorem isTwWs_size {c : Char} (h : isTwWs c = true) : c.utf8Size = 1 := by
  simp only [isTwWs, Bool.or_eq_true, decide_eq_true_eq] at h
  rcases h with ((((h | h) | h) | h) | h) | h <;> subst h <;> decide

theorem blen_expandTabs_le (s : Str) : ∀ col, blen (expandTabs col s) ≤ 8 * blen s := by
  induction s with
  | nil => intro col; simp [expandTabs, blen]
  | cons c cs ih =>
    intro col
    unfold expandTabs
    split
    · rename_i h; subst h
      have h1 : ('\t' : Char).utf8Size = 1 := by decide
      have := ih (col + (8 - col % 8))
      simp only [blen_append, blen_replicate_space, blen, h1]; omega
    · split
      · have := ih 0; have := Char.utf8Size_pos c; simp only [blen]; omega
      · have := ih (col + 1); have := Char.utf8Size_pos c; simp only [blen]; omega

theorem blen_map_ws (s : Str) : blen (s.map fun c => if isTwWs c then ' ' else c) = blen s := by
  induction s with
  | nil => rfl
  | cons c cs ih =>
    simp only [List.map_cons, blen, ih]
    split
    · rename_i h
      have h0 : (' ' : Char).utf8Size = 1 := by decide
      rw [isTwWs_size h, h0]
    · rfl

theorem munge_blen_le' (s : Str) : blen (munge s) ≤ 8 * blen s := by
  unfold munge; rw [blen_map_ws]; exact blen_expandTabs_le s 0

theorem mem_expandTabs {s : Str} : ∀ {col : Nat} {x : Char}, x ∈ expandTabs col s → x ∈ s ∨ x = ' ' := by
  induction s with
  | nil => intro col x h; simp [expandTabs] at h
  | cons c cs ih =>
    intro col x h
    unfold expandTabs at h
    split at h
    · rw [List.mem_append] at h
      rcases h with h | h
      · right; exact (List.mem_replicate.mp h).2
      · rcases ih h with h | h
        · left; exact List.mem_cons_of_mem _ h
        · right; exact h
    · split at h
      · rcases List.mem_cons.mp h with h | h
        · left; rw [h]; exact List.mem_cons_self
        · rcases ih h with h | h
          · left; exact List.mem_cons_of_mem _ h
          · right; exact h
      · rcases List.mem_cons.mp h with h | h
        · left; rw [h]; exact List.mem_cons_self
        · rcases ih h with h | h
          · left; exact List.mem_cons_of_mem _ h
          · right; exact h

theorem mem_munge {s : Str} {x : Char} (h : x ∈ munge s) : x ∈ s ∨ x = ' ' := by
  unfold munge at h
  rw [List.mem_map] at h
  obtain ⟨y, hy, hxy⟩ := h
  split at hxy
  · right; exact hxy.symm
  · subst hxy; exact mem_expandTabs hy

/-! ## splitBytes -/

theorem cutAt_spec : ∀ (w : Str) (p : Nat) (a b : Str), cutAt w p = some (a, b) →
    a ++ b = w ∧ blen a = min p (blen w) := by
  intro w
  induction w with
  | nil =>
    intro p a b h
    simp only [cutAt, Option.some.injEq, Prod.mk.injEq] at h
    obtain ⟨rfl, rfl⟩ := h
    simp [blen]
  | cons c cs ih =>
    intro p a b h
    unfold cutAt at h
    split at h
    · rename_i hp
      simp only [Option.some.injEq, Prod.mk.injEq] at h
      obtain ⟨rfl, rfl⟩ := h
      simp [blen, hp]
    · split at h
      · rename_i hp hsz
        split at h
        · rename_i a' b' hrec
          simp only [Option.some.injEq, Prod.mk.injEq] at h
          obtain ⟨rfl, rfl⟩ := h
          obtain ⟨h1, h2⟩ := ih _ _ _ hrec
          refine ⟨by simp [h1], ?_⟩
          simp only [blen, h2]; omega
        · cases h
      · cases h

theorem cutAt_exists : ∀ (w : Str) (n : Nat), n ≤ blen w → ∃ i, i ≤ 3 ∧ i ≤ n ∧ (cutAt w (n - i)).isSome := by
  intro w
  induction w with
  | nil => intro n _; exact ⟨0, by omega, by omega, by simp [cutAt]⟩
  | cons c cs ih =>
    intro n hn
    by_cases h0 : n = 0
    · exact ⟨0, by omega, by omega, by subst h0; simp [cutAt]⟩
    · by_cases hsz : c.utf8Size ≤ n
      · have hn' : n - c.utf8Size ≤ blen cs := by simp only [blen] at hn; omega
        obtain ⟨i, hi3, hin, hsome⟩ := ih (n - c.utf8Size) hn'
        refine ⟨i, hi3, by omega, ?_⟩
        have hpos := Char.utf8Size_pos c
        unfold cutAt
        have h1 : ¬ (n - i = 0) := by omega
        have h2 : c.utf8Size ≤ n - i := by omega
        simp only [h1, h2, ↓reduceIte]
        have h3 : n - i - c.utf8Size = n - c.utf8Size - i := by omega
        rw [h3]
        cases hc : cutAt cs (n - c.utf8Size - i) with
        | none => rw [hc] at hsome; simp at hsome
        | some r => obtain ⟨a, b⟩ := r; simp
      · have h4 := Char.utf8Size_le_four c
        refine ⟨n, by omega, by omega, ?_⟩
        simp [cutAt]

theorem splitBytesFrom_spec (w : Str) (size : Nat) :
    ∀ (is : List Nat), (∃ i ∈ is, (cutAt w (pyIdx size i (blen w))).isSome) →
    ∃ j ∈ is, ∃ r, cutAt w (pyIdx size j (blen w)) = some r ∧ splitBytesFrom w size is = some r := by
  intro is
  induction is with
  | nil => intro ⟨i, hi, _⟩; cases hi
  | cons x xs ih =>
    intro ⟨i, hi, hsome⟩
    unfold splitBytesFrom
    cases hx : cutAt w (pyIdx size x (blen w)) with
    | some r => exact ⟨x, List.mem_cons_self, r, hx, rfl⟩
    | none =>
      simp only
      rcases List.mem_cons.mp hi with rfl | hi'
      · rw [hx] at hsome; simp at hsome
      · obtain ⟨j, hj, r, h1, h2⟩ := ih ⟨i, hi', hsome⟩
        exact ⟨j, List.mem_cons_of_mem _ hj, r, h1, h2⟩

/-- `splitBytes` on a word that is too long, for a size of at least 4 bytes: it cuts the word at a
character boundary, the first part is not empty and has at most `size` bytes. -/
theorem splitBytes_spec' (hc : ConstsOk) (w : Str) (size : Nat) (h4 : 4 ≤ size) (hlong : size < blen w) :
    ∃ a b, splitBytes w size = some (a, b) ∧ a ++ b = w ∧ blen a ≤ size ∧ size < blen a + 4 := by
  obtain ⟨i, hi3, hin, hsome⟩ := cutAt_exists w size (by omega)
  have hr : List.range Gen.splitBytesTries = [0, 1, 2, 3] := by rw [hc.1]; rfl
  have hmem : i ∈ [0, 1, 2, 3] := by
    have : i = 0 ∨ i = 1 ∨ i = 2 ∨ i = 3 := by omega
    rcases this with h | h | h | h <;> subst h <;> simp
  have hidx : ∀ j, j ∈ [0, 1, 2, 3] → pyIdx size j (blen w) = size - j := by
    intro j hj
    have : j ≤ 3 := by
      simp only [List.mem_cons, List.not_mem_nil, or_false] at hj
      rcases hj with h | h | h | h <;> omega
    unfold pyIdx; simp [show j ≤ size by omega]
  obtain ⟨j, hj, r, h1, h2⟩ := splitBytesFrom_spec w size [0, 1, 2, 3] ⟨i, hmem, by rw [hidx i hmem]; exact hsome⟩
  obtain ⟨a, b⟩ := r
  rw [hidx j hj] at h1
  obtain ⟨hab, hlen⟩ := cutAt_spec _ _ _ _ h1
  have hj3 : j ≤ 3 := by
    simp only [List.mem_cons, List.not_mem_nil, or_false] at hj
    rcases hj with h | h | h | h <;> omega
  refine ⟨a, b, ?_, hab, by omega, by omega⟩
  unfold splitBytes; rw [hr]; exact h2

/-! ## byteTextWrap -/

def LinesOk (size : Nat) (lines : List Str) : Prop := ∀ l ∈ lines, blen l ≤ size

theorem addWord_ok {size : Nat} {lines : List Str} {w : Str} (hl : LinesOk size lines) (hw : blen w ≤ size) :
    LinesOk size (addWord size lines w) := by
  unfold addWord
  cases lines with
  | nil => intro l hl'; simp at hl'; subst hl'; exact hw
  | cons l ls =>
    simp only
    split
    · rename_i h
      intro x hx
      rcases List.mem_cons.mp hx with rfl | hx
      · rw [blen_append]; exact h
      · exact hl x (List.mem_cons_of_mem _ hx)
    · intro x hx
      rcases List.mem_cons.mp hx with rfl | hx
      · exact hw
      · exact hl x hx

theorem addWord_flatten (size : Nat) (lines : List Str) (w : Str) :
    (addWord size lines w).reverse.flatten = lines.reverse.flatten ++ w := by
  unfold addWord
  cases lines with
  | nil => simp
  | cons l ls =>
    simp only
    split <;> simp

/-- all lines are non-empty, except that the initial state is the single empty line -/
def LinesNe (lines : List Str) : Prop := lines = [[]] ∨ ∀ l ∈ lines, l ≠ []

theorem addWord_ne {size : Nat} {lines : List Str} {w : Str} (hl : LinesNe lines) (hw : w ≠ [])
    (hws : blen w ≤ size) : ∀ l ∈ addWord size lines w, l ≠ [] := by
  unfold addWord
  rcases hl with rfl | hl
  · simp only
    split
    · intro l hl; simp at hl; subst hl; exact hw
    · rename_i h
      exact absurd (by simp [blen]; omega) h
  · cases lines with
    | nil => intro l hl'; simp at hl'; subst hl'; exact hw
    | cons l ls =>
      simp only
      split
      · intro x hx
        rcases List.mem_cons.mp hx with rfl | hx
        · intro h; exact hl l List.mem_cons_self (List.append_eq_nil_iff.mp h).1
        · exact hl x (List.mem_cons_of_mem _ hx)
      · intro x hx
        rcases List.mem_cons.mp hx with rfl | hx
        · exact hw
        · exact hl x hx

theorem isEmpty_false_of_ne {α : Type} {l : List α} (h : l ≠ []) : l.isEmpty = false := by
  cases l with
  | nil => exact absurd rfl h
  | cons => rfl

/-- the `while words:` loop, for a size of at least 4: it ends, normally; the lines concatenate to what
was there before plus the words; no line exceeds the size. -/
theorem wrapLoop_ok (hc : ConstsOk) (size : Nat) (h4 : 4 ≤ size) :
    ∀ (f : Nat) (ws lines : List Str), fuelFor ws ≤ f → LinesOk size lines →
    ∃ out, wrapLoop size f ws lines = .ok out ∧ out.flatten = lines.reverse.flatten ++ ws.flatten ∧
      LinesOk size out := by
  intro f
  induction f with
  | zero =>
    intro ws lines hf hl
    cases ws with
    | nil => exact ⟨lines.reverse, by simp [wrapLoop], by simp, fun l hl' => hl l (List.mem_reverse.mp hl')⟩
    | cons w ws => simp only [fuelFor] at hf; omega
  | succ f ih =>
    intro ws lines hf hl
    cases ws with
    | nil => exact ⟨lines.reverse, by simp [wrapLoop], by simp, fun l hl' => hl l (List.mem_reverse.mp hl')⟩
    | cons w ws =>
      by_cases hlong : size < blen w
      · obtain ⟨a, b, hs, hab, hle, hgt⟩ := splitBytes_spec' hc w size h4 hlong
        have ha : a ≠ [] := by
          intro h; subst h; simp only [blen] at hgt; omega
        have hab' : blen w = blen a + blen b := by rw [← hab, blen_append]
        have hapos := blen_pos ha
        have hfuel : fuelFor (b :: ws) ≤ f := by
          simp only [fuelFor] at hf ⊢; omega
        obtain ⟨out, h1, h2, h3⟩ := ih (b :: ws) (addWord size lines a) hfuel (addWord_ok hl hle)
        refine ⟨out, ?_, ?_, h3⟩
        · simp only [wrapLoop, hlong, ↓reduceIte, hs, isEmpty_false_of_ne ha, Bool.false_eq_true]
          exact h1
        · rw [h2, addWord_flatten, ← hab]; simp
      · have hw : blen w ≤ size := by omega
        have hfuel : fuelFor ws ≤ f := by simp only [fuelFor] at hf; omega
        obtain ⟨out, h1, h2, h3⟩ := ih ws (addWord size lines w) hfuel (addWord_ok hl hw)
        refine ⟨out, ?_, ?_, h3⟩
        · simp only [wrapLoop, hlong, ↓reduceIte]
          exact h1
        · rw [h2, addWord_flatten]; simp

theorem linesNe_reverse {lines : List Str} (h : LinesNe lines) : LinesNe lines.reverse := by
  rcases h with rfl | h
  · left; rfl
  · right; intro l hl; exact h l (List.mem_reverse.mp hl)

theorem wrapLoop_ne (hc : ConstsOk) (size : Nat) (h4 : 4 ≤ size) :
    ∀ (f : Nat) (ws lines : List Str) (out : List Str), wrapLoop size f ws lines = .ok out →
    (∀ w ∈ ws, w ≠ []) → LinesNe lines → LinesNe out := by
  intro f
  induction f with
  | zero =>
    intro ws lines out h hws hl
    cases ws with
    | nil => simp only [wrapLoop, WrapRes.ok.injEq] at h; subst h; exact linesNe_reverse hl
    | cons w ws => simp [wrapLoop] at h
  | succ f ih =>
    intro ws lines out h hws hl
    cases ws with
    | nil => simp only [wrapLoop, WrapRes.ok.injEq] at h; subst h; exact linesNe_reverse hl
    | cons w ws =>
      have hw := hws w List.mem_cons_self
      have hws' : ∀ x ∈ ws, x ≠ [] := fun x hx => hws x (List.mem_cons_of_mem _ hx)
      by_cases hlong : size < blen w
      · obtain ⟨a, b, hs, hab, hle, hgt⟩ := splitBytes_spec' hc w size h4 hlong
        have ha : a ≠ [] := by
          intro h; subst h; simp only [blen] at hgt; omega
        have hab' : blen w = blen a + blen b := by rw [← hab, blen_append]
        have hb : b ≠ [] := by
          intro h; subst h; simp only [blen] at hab'; omega
        simp only [wrapLoop, hlong, ↓reduceIte, hs, isEmpty_false_of_ne ha, Bool.false_eq_true] at h
        refine ih (b :: ws) _ out h ?_ (Or.inr (addWord_ne hl ha hle))
        intro x hx
        rcases List.mem_cons.mp hx with rfl | hx
        · exact hb
        · exact hws' x hx
      · simp only [wrapLoop, hlong, ↓reduceIte] at h
        exact ih ws _ out h hws' (Or.inr (addWord_ne hl hw (by omega)))

theorem minWrapSize_eq (hc : ConstsOk) : Gen.minWrapSize = 4 := by
  unfold ConstsOk at hc
  exact hc.2.2.2.2.2.2.2.2.2.2.2.2.2.2.2

/-- `byteTextWrap` with a size of at least 4 is the loop on that size -/
theorem byteTextWrap_eq (hc : ConstsOk) (chunks : List Str) (size : Nat) (h4 : 4 ≤ size) :
    byteTextWrap chunks size = wrapLoop size (fuelFor chunks) chunks [[]] := by
  unfold byteTextWrap
  rw [minWrapSize_eq hc, Nat.max_eq_left h4]

/-- `byteTextWrap` with ANY size (0 stands for the negative sizes the callers can produce): the loop
runs with `max size 4` -/
theorem byteTextWrap_clamped (hc : ConstsOk) (chunks : List Str) (size : Nat) :
    byteTextWrap chunks size = byteTextWrap chunks (max size 4) := by
  unfold byteTextWrap
  rw [minWrapSize_eq hc]
  congr 1
  omega

end C12
