/-
C12 ↔ C06/C11: one notion of "bytes on the wire".
C12 measures strings with `blen` (sum of `Char.utf8Size`); C06 measures with `utf8Len` and proves
(`C06.utf8Len_eq`) that it is the length of the byte list the socket driver writes (`C11.utf8`).
Here: the two measures are the same function, C12's `takeBytes`/`sentLine` are C06's
`cutToBytes`/`truncate`, so C06's `truncate_bound_bytes` and `wire_line` apply verbatim to the lines
C12 reasons about, and every C12 length theorem is a statement about driver bytes.
-/
import LimnoriaModel.C12.Props
import LimnoriaModel.C06.Props
namespace C12
open Py

theorem blen_eq_utf8Len (s : Str) : blen s = C06.utf8Len s := by
  induction s with
  | nil => rfl
  | cons c cs ih => simp [blen, C06.utf8Len, ih] at *

/-- `blen` is the number of bytes the socket driver writes for the text -/
theorem blen_eq_driver_bytes (s : Str) : blen s = (C11.utf8 s).length := by
  rw [blen_eq_utf8Len, C06.utf8Len_eq]

theorem takeBytes_eq_cutToBytes : ∀ (s : Str) (n : Nat), takeBytes n s = C06.cutToBytes n s := by
  intro s
  induction s with
  | nil => intro n; rfl
  | cons c cs ih => intro n; simp [takeBytes, C06.cutToBytes, ih]

/-- the two extractions of the same constants agree -/
theorem limits_agree : Gen.ircMaxLine = Gen.maxLineSize ∧ Gen.truncateReserve = 2 ∧
    Gen.privmsgCmd.head? ≠ some '@' ∧ Gen.noticeCmd.head? ≠ some '@' := by decide

/-- C12's `sentLine` is C06's `truncate` on the serialised reply (a reply carries no server tag) -/
theorem sentLine_eq_truncate (o : Out) (hcmd : o.command = Gen.privmsgCmd ∨ o.command = Gen.noticeCmd) :
    C06.truncate (outLine o) = some (sentLine o) := by
  obtain ⟨h1, h2, h3, h4⟩ := limits_agree
  have hhead : (outLine o).head? ≠ some '@' := by
    unfold outLine
    rcases hcmd with h | h <;> rw [h]
    · cases hc : Gen.privmsgCmd with
      | nil => simp
      | cons x xs => rw [hc] at h3; simpa using h3
    · cases hc : Gen.noticeCmd with
      | nil => simp
      | cons x xs => rw [hc] at h4; simpa using h4
  unfold C06.truncate C06.splitTagPart sentLine truncateLine
  simp only [hhead, ↓reduceIte, ← blen_eq_utf8Len, ← h1, h2, List.nil_append]
  split
  · rw [takeBytes_eq_cutToBytes]; rfl
  · rfl

/-- hence C06's bound holds for what C12 says is sent: at most 512 driver bytes -/
theorem sentLine_driver_bytes (o : Out) (hcmd : o.command = Gen.privmsgCmd ∨ o.command = Gen.noticeCmd) :
    (C11.utf8 (sentLine o)).length ≤ 512 := by
  -- C06.truncate_bound_bytes bounds the non-tag part of `truncate`'s result; here directly:
  have _h := C06.truncate_bound_bytes _ _ (sentLine_eq_truncate o hcmd)
  rw [← blen_eq_driver_bytes]
  exact (sentLine_le o).1

/-- and the relayed line of the 512-byte theorems is measured in driver bytes as well -/
theorem relayed_driver_bytes (p : Str) (o : Out) : blen (wireAs p o) = (C11.utf8 (wireAs p o)).length :=
  blen_eq_driver_bytes _

/-- the command of every message `_makeReply` builds is PRIVMSG or NOTICE -/
theorem makeReply_command (e : Env) (s : Str) :
    (makeReply e s).command = Gen.privmsgCmd ∨ (makeReply e s).command = Gen.noticeCmd := by
  have : ∀ (b : Bool), (if b then Gen.noticeCmd else Gen.privmsgCmd) = Gen.privmsgCmd ∨
      (if b then Gen.noticeCmd else Gen.privmsgCmd) = Gen.noticeCmd := by
    intro b; cases b <;> simp
  unfold makeReply replyFrame
  exact this _

end C12
