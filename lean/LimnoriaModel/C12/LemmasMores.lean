/-
C12 — helper lemmas, part G: the shared `_mores` dictionary and two (or more) requesters.
What a requester gets from his own `more` commands depends only on the list bound to his own
`user@host`; nothing another requester does (his own replies, `more`, `more <nick>`) changes that list,
because `more <nick>` works on a COPY and every reply allocates a fresh list.
-/
import LimnoriaModel.C12.LemmasReply
namespace C12
open Py

/-- the list currently bound to a (lowered) `user@host` key -/
def Mores.listOf (m : Mores) (key : Str) : Option (List Out) :=
  (lookupKey key m.byMask).map fun id => m.lists.getD id []

/-- list objects bound to hostmasks exist, and two different hostmasks never share a list object -/
def Mores.WF (m : Mores) : Prop :=
  (∀ k id, lookupKey k m.byMask = some id → id < m.lists.length) ∧
  (∀ k1 k2 id, lookupKey k1 m.byMask = some id → lookupKey k2 m.byMask = some id → k1 = k2)

theorem wf_empty : ({} : Mores).WF := ⟨by intro k id h; simp [lookupKey] at h, by intro k1 k2 id h; simp [lookupKey] at h⟩

theorem lookupKey_cons {β : Type} (k k' : Str) (v : β) (rest : List (Str × β)) :
    lookupKey k ((k', v) :: rest) = if k = k' then some v else lookupKey k rest := rfl

theorem getD_append_left (l : List (List Out)) (x : List Out) (i : Nat) (h : i < l.length) :
    (l ++ [x]).getD i [] = l.getD i [] := by
  simp [List.getD, List.getElem?_append_left h]

theorem getD_append_new (l : List (List Out)) (x : List Out) : (l ++ [x]).getD l.length [] = x := by
  simp [List.getD]

theorem getD_set_ne (l : List (List Out)) (i j : Nat) (x : List Out) (h : i ≠ j) :
    (l.set i x).getD j [] = l.getD j [] := by
  simp [List.getD, List.getElem?_set_ne h]

theorem getD_set_eq (l : List (List Out)) (i : Nat) (x : List Out) (h : i < l.length) :
    (l.set i x).getD i [] = x := by
  simp [List.getD, List.getElem?_set_self h]

/-! ## binding a key to a fresh list object (a reply, or the copy made by `more <nick>`) -/

def Mores.bindFresh (m : Mores) (key : Str) (l : List Out) : Mores :=
  { m with lists := m.lists ++ [l], byMask := (key, m.lists.length) :: m.byMask }

theorem bindFresh_wf {m : Mores} (h : m.WF) (key : Str) (l : List Out) : (m.bindFresh key l).WF := by
  obtain ⟨h1, h2⟩ := h
  constructor
  · intro k id hk
    simp only [Mores.bindFresh, lookupKey_cons] at hk
    simp only [Mores.bindFresh, List.length_append, List.length_singleton]
    split at hk
    · injection hk with hk; omega
    · have := h1 k id hk; omega
  · intro k1 k2 id hk1 hk2
    simp only [Mores.bindFresh, lookupKey_cons] at hk1 hk2
    split at hk1 <;> split at hk2
    · rename_i a b; rw [a, b]
    · injection hk1 with hk1; have := h1 k2 id hk2; omega
    · injection hk2 with hk2; have := h1 k1 id hk1; omega
    · exact h2 k1 k2 id hk1 hk2

theorem bindFresh_listOf_self (m : Mores) (key : Str) (l : List Out) : (m.bindFresh key l).listOf key = some l := by
  simp [Mores.listOf, Mores.bindFresh, lookupKey_cons]

theorem bindFresh_listOf_other {m : Mores} (h : m.WF) (key a : Str) (hne : a ≠ key) (l : List Out) :
    (m.bindFresh key l).listOf a = m.listOf a := by
  simp only [Mores.listOf, Mores.bindFresh, lookupKey_cons, hne, ↓reduceIte]
  cases hl : lookupKey a m.byMask with
  | none => rfl
  | some id => simp only [Option.map_some]; rw [getD_append_left _ _ _ (h.1 a id hl)]

/-- `store` and `adopt` are `bindFresh` as far as the hostmask bindings and the heap are concerned -/
theorem store_eq (m : Mores) (mask nick : Str) (priv : Bool) (msgs : List Out) :
    (m.store mask nick priv msgs).WF = (m.bindFresh (ircLower mask) msgs).WF ∧
    ∀ a, (m.store mask nick priv msgs).listOf a = (m.bindFresh (ircLower mask) msgs).listOf a :=
  ⟨rfl, fun _ => rfl⟩

theorem adopt_eq {m m' : Mores} {mask nick : Str} (h : m.adopt mask nick = .ok m') :
    ∃ l, m'.WF = (m.bindFresh (ircLower mask) l).WF ∧ ∀ a, m'.listOf a = (m.bindFresh (ircLower mask) l).listOf a := by
  unfold Mores.adopt at h
  split at h
  · cases h
  · rename_i priv id _
    split at h
    · cases h
    · injection h with h; subst h
      exact ⟨m.lists.getD id [], rfl, fun _ => rfl⟩

/-! ## popping -/

theorem pop_wf {m : Mores} (h : m.WF) (mask : Str) (n : Nat) : (m.pop mask n).1.WF := by
  unfold Mores.pop
  split
  · exact h
  · exact ⟨by simpa using h.1, by simpa using h.2⟩

theorem pop_listOf_other {m : Mores} (h : m.WF) (mask : Str) (n : Nat) (a : Str) (hne : a ≠ ircLower mask) :
    (m.pop mask n).1.listOf a = m.listOf a := by
  unfold Mores.pop
  split
  · rfl
  · rename_i id hid
    simp only [Mores.listOf]
    cases hl : lookupKey a m.byMask with
    | none => rfl
    | some ida =>
      simp only [Option.map_some]
      have : id ≠ ida := by
        intro heq; subst heq
        exact hne (h.2 a (ircLower mask) id hl hid)
      rw [getD_set_ne _ _ _ _ this]

/-- what a plain `more` answers, and what is left, are functions of the caller's own list only -/
theorem pop_own {m : Mores} (h : m.WF) (mask : Str) (n : Nat) :
    (m.pop mask n).2 = (match m.listOf (ircLower mask) with
      | none => MoreRes.notAsked
      | some l => if (moreStep n l).1.isEmpty then .noMore else .sent (moreStep n l).1) ∧
    (m.pop mask n).1.listOf (ircLower mask) = (m.listOf (ircLower mask)).map fun l => (moreStep n l).2 := by
  unfold Mores.pop Mores.listOf
  cases hl : lookupKey (ircLower mask) m.byMask with
  | none => simp [hl]
  | some id =>
    simp only [Option.map_some, hl]
    exact ⟨trivial, by rw [getD_set_eq _ _ _ (h.1 _ id hl)]⟩

/-! ## traces of actions by several requesters -/

inductive Act where
  | more (mask : Str) (nick : Option Str) (number : Nat)          -- `more [<nick>]` by `…!mask`
  | store (mask nick : Str) (priv : Bool) (msgs : List Out)       -- a chunked reply to `nick!mask`

/-- whose `user@host` an action is made under -/
def Act.key : Act → Str
  | .more mask _ _ => ircLower mask
  | .store mask _ _ _ => ircLower mask

/-- an action that only looks at the caller's own binding -/
def Act.own : Act → Bool
  | .more _ none _ => true
  | .more _ (some _) _ => false
  | .store _ _ _ _ => true

def Mores.act (m : Mores) : Act → Mores × Option MoreRes
  | .more mask nick n => ((m.more mask nick n).1, some (m.more mask nick n).2)
  | .store mask nick priv msgs => (m.store mask nick priv msgs, none)

/-- the answers of the bot along a trace, each tagged with the hostmask it was given to -/
def Mores.run (m : Mores) : List Act → List (Str × Option MoreRes)
  | [] => []
  | a :: as => (a.key, (m.act a).2) :: (m.act a).1.run as

theorem act_other {m : Mores} (h : m.WF) (act : Act) (a : Str) (hne : a ≠ act.key) :
    (m.act act).1.WF ∧ (m.act act).1.listOf a = m.listOf a := by
  cases act with
  | store mask nick priv msgs =>
    simp only [Mores.act, Act.key] at hne ⊢
    exact ⟨bindFresh_wf h _ msgs, bindFresh_listOf_other h _ a hne msgs⟩
  | more mask nick n =>
    simp only [Act.key] at hne
    cases nick with
    | none =>
      simp only [Mores.act, Mores.more]
      exact ⟨pop_wf h mask n, pop_listOf_other h mask n a hne⟩
    | some nk =>
      simp only [Mores.act, Mores.more]
      cases hadopt : m.adopt mask nk with
      | error e => exact ⟨h, rfl⟩
      | ok m' =>
        obtain ⟨l, hw, hl⟩ := adopt_eq hadopt
        have hwf' : m'.WF := by rw [hw]; exact bindFresh_wf h _ l
        simp only
        refine ⟨pop_wf hwf' mask n, ?_⟩
        rw [pop_listOf_other hwf' mask n a hne, hl a, bindFresh_listOf_other h _ a hne l]

theorem act_own {m m' : Mores} (h : m.WF) (h' : m'.WF) (act : Act) (hown : act.own = true)
    (hl : m.listOf act.key = m'.listOf act.key) :
    (m.act act).2 = (m'.act act).2 ∧ (m.act act).1.WF ∧ (m'.act act).1.WF ∧
    (m.act act).1.listOf act.key = (m'.act act).1.listOf act.key := by
  cases act with
  | store mask nick priv msgs =>
    simp only [Mores.act, Act.key]
    refine ⟨trivial, bindFresh_wf h _ msgs, bindFresh_wf h' _ msgs, ?_⟩
    rw [(store_eq m mask nick priv msgs).2, (store_eq m' mask nick priv msgs).2, bindFresh_listOf_self, bindFresh_listOf_self]
  | more mask nick n =>
    cases nick with
    | some nk => simp [Act.own] at hown
    | none =>
      simp only [Act.key] at hl
      simp only [Mores.act, Mores.more, Act.key]
      obtain ⟨a1, a2⟩ := pop_own h mask n
      obtain ⟨b1, b2⟩ := pop_own h' mask n
      refine ⟨by rw [a1, b1, hl], pop_wf h mask n, pop_wf h' mask n, by rw [a2, b2, hl]⟩

/-- non-interference: the answers given to `a` along a trace are the answers he would get if nobody
else did anything -/
theorem run_filter (a : Str) : ∀ (acts : List Act) (m m' : Mores), m.WF → m'.WF → m.listOf a = m'.listOf a →
    (∀ act ∈ acts, act.key = a → act.own = true) →
    (m.run acts).filter (fun r => r.1 = a) = m'.run (acts.filter fun act => act.key = a) := by
  intro acts
  induction acts with
  | nil => intro _ _ _ _ _ _; rfl
  | cons act rest ih =>
    intro m m' h h' hl hown
    have hrest : ∀ x ∈ rest, x.key = a → x.own = true := fun x hx => hown x (List.mem_cons_of_mem _ hx)
    by_cases hk : act.key = a
    · have ho := hown act List.mem_cons_self hk
      obtain ⟨e1, e2, e3, e4⟩ := act_own h h' act ho (by rw [hk]; exact hl)
      rw [hk] at e4
      simp only [Mores.run, List.filter_cons, hk, decide_true, ↓reduceIte]
      rw [e1, ih _ _ e2 e3 e4 hrest]
    · obtain ⟨e1, e2⟩ := act_other h act a (fun heq => hk heq.symm)
      simp only [Mores.run, List.filter_cons, hk, decide_false, Bool.false_eq_true, ↓reduceIte]
      exact ih _ _ e1 h' (by rw [e2]; exact hl) hrest

/-- the batch size of a `more` action -/
def Act.number : Act → Nat
  | .more _ _ k => k
  | .store _ _ _ _ => 0

/-- a plain `more` (no `<nick>` argument) -/
def Act.plain : Act → Bool
  | .more _ none _ => true
  | _ => false

def moreAnswer (b : List Out) : Option MoreRes := some (if b.isEmpty then .noMore else .sent b)

theorem run_plain (a : Str) : ∀ (acts : List Act) (m : Mores) (l : List Out), m.WF → m.listOf a = some l →
    (∀ act ∈ acts, act.key = a ∧ act.plain = true) →
    m.run acts = (runMores (acts.map Act.number) l).1.map fun b => (a, moreAnswer b) := by
  intro acts
  induction acts with
  | nil => intro _ _ _ _ _; rfl
  | cons act rest ih =>
    intro m l h hl hall
    obtain ⟨hk, hp⟩ := hall act List.mem_cons_self
    have hrest : ∀ x ∈ rest, x.key = a ∧ x.plain = true := fun x hx => hall x (List.mem_cons_of_mem _ hx)
    cases act with
    | store _ _ _ _ => simp [Act.plain] at hp
    | more mask nick n =>
      cases nick with
      | some _ => simp [Act.plain] at hp
      | none =>
        simp only [Act.key] at hk
        obtain ⟨a1, a2⟩ := pop_own h mask n
        rw [hk, hl] at a1 a2
        simp only [Option.map_some] at a2
        simp only [Mores.run, Mores.act, Mores.more, Act.key, hk, List.map_cons, Act.number, runMores]
        rw [ih _ _ (pop_wf h mask n) a2 hrest, a1]
        rfl
end C12
