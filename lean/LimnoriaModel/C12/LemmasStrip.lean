/-
C12 — helper lemmas, part F: what a client shows (`stripFormatting`) of lines that start cleanly.
-/
import LimnoriaModel.C12.LemmasColour
namespace C12
open Py

/-- run the colour-stripping machine over a string: (state reached, characters emitted) -/
def scRun : SC → Str → SC × Str
  | st, [] => (st, [])
  | st, c :: cs => ((scRun (scStep st c).1 cs).1, (scStep st c).2 ++ (scRun (scStep st c).1 cs).2)

/-- a comma read after a colour code and not followed by a digit is text -/
def scFlush : SC → Str
  | .comma => [',']
  | _ => []

theorem scGo_eq (s : Str) : ∀ st, scGo st s = (scRun st s).2 ++ scFlush (scRun st s).1 := by
  induction s with
  | nil => intro st; cases st <;> rfl
  | cons c cs ih => intro st; simp only [scGo, scRun, ih, List.append_assoc]

theorem scRun_append (a b : Str) : ∀ st, scRun st (a ++ b) =
    ((scRun (scRun st a).1 b).1, (scRun st a).2 ++ (scRun (scRun st a).1 b).2) := by
  induction a with
  | nil => intro st; simp [scRun]
  | cons c cs ih => intro st; simp only [List.cons_append, scRun, ih, List.append_assoc]

theorem scStep_clean (st : SC) {x : Char} (hx : contChar x = false) :
    scStep st x = ((scPlain x).1, scFlush st ++ (scPlain x).2) := by
  simp only [contChar, Bool.or_eq_false_iff, decide_eq_false_iff_not] at hx
  obtain ⟨hd, hc⟩ := hx
  cases st <;> simp [scStep, scFlush, hd, hc]

theorem scGo_clean (st : SC) {x : Char} (hx : contChar x = false) (b : Str) :
    scGo st (x :: b) = scFlush st ++ scGo .plain (x :: b) := by
  simp only [scGo, scStep_clean st hx, List.append_assoc]
  rfl

theorem stripColor_append_clean (a : Str) {x : Char} (hx : contChar x = false) (b : Str) :
    stripColor (a ++ x :: b) = stripColor a ++ stripColor (x :: b) := by
  unfold stripColor
  rw [scGo_eq (a ++ x :: b), scRun_append, scGo_eq a]
  simp only
  have := scGo_clean (scRun .plain a).1 hx b
  rw [scGo_eq (x :: b) (scRun .plain a).1] at this
  rw [List.append_assoc, this, List.append_assoc]

theorem stripFormatting_append_clean (a : Str) {x : Char} (hx : contChar x = false) (b : Str) :
    stripFormatting (a ++ x :: b) = stripFormatting a ++ stripFormatting (x :: b) := by
  unfold stripFormatting
  rw [stripColor_append_clean a hx b, List.filter_append]

theorem strip_flatten_clean (l : Str) (ls : List Str) (h : ∀ x ∈ ls, CleanHead x) :
    stripFormatting (l :: ls).flatten = ((l :: ls).map stripFormatting).flatten := by
  induction ls generalizing l with
  | nil => simp
  | cons m ms ih =>
    obtain ⟨x, xs, rfl, hx⟩ := h m List.mem_cons_self
    have hrest := ih (x :: xs) (fun y hy => h y (List.mem_cons_of_mem _ hy))
    have : (l :: (x :: xs) :: ms).flatten = l ++ x :: (xs ++ ms.flatten) := by simp
    rw [this, stripFormatting_append_clean l hx]
    have h2 : x :: (xs ++ ms.flatten) = ((x :: xs) :: ms).flatten := by simp
    rw [h2, hrest]
    simp

/-- what `start` emits is invisible, for all 2312 contexts with colours below 16 -/
theorem strip_start_table : ∀ (f b : Fin 17) (bd rv ul : Bool),
    stripFormatting ((mkCtx f b bd rv ul).start []) = [] := by
  decide +kernel

theorem strip_start_nil (c : Ctx) (h16 : CtxB 16 c) : stripFormatting (c.start []) = [] := by
  obtain ⟨f, hf⟩ := optFin_surj c.fg h16.1
  obtain ⟨b, hb⟩ := optFin_surj c.bg h16.2
  have : c = mkCtx f b c.bold c.reverse c.underline := by
    cases c; simp only [mkCtx, hf, hb] at *
  rw [this]
  exact strip_start_table f b _ _ _

theorem strip_end (c : Ctx) (y : Str) : stripFormatting (c.end y) = stripFormatting y := by
  unfold Ctx.end
  split
  · have hr : contChar Gen.resetChar = false := by decide
    rw [stripFormatting_append_clean y hr []]
    have : stripFormatting [Gen.resetChar] = [] := by decide
    rw [this, List.append_nil]
  · rfl

theorem strip_reopen (c c' : Ctx) (h16 : CtxB 16 c) {l : Str} (hl : CleanHead l) :
    stripFormatting (c'.end (c.start l)) = stripFormatting l := by
  obtain ⟨x, xs, rfl, hx⟩ := hl
  rw [strip_end, start_append, stripFormatting_append_clean _ hx, strip_start_nil c h16, List.nil_append]

theorem parse_ctxB16 (hlim : Gen.colorLimit ≤ 16) (s : Str) : CtxB 16 (parse s).ctx :=
  finish_ctxB (foldl_step_okB (by omega) hlim s {} (stB_default 16))

theorem strip_processLines_clean (hlim : Gen.colorLimit ≤ 16) : ∀ (lines : List Str) (c : Ctx), CtxB 16 c →
    (∀ l ∈ lines, CleanHead l) →
    (processLines (some c) lines).map stripFormatting = lines.map stripFormatting := by
  intro lines
  induction lines with
  | nil => intro c _ _; rfl
  | cons l ls ih =>
    intro c hc hcl
    simp only [processLines, List.map_cons]
    rw [strip_reopen c _ hc (hcl l List.mem_cons_self),
      ih _ (parse_ctxB16 hlim _) (fun y hy => hcl y (List.mem_cons_of_mem _ hy))]

theorem cleanHead_of_cleanStarts {l : Str} {ls : List Str} (h : cleanStarts (l :: ls) = true) :
    ∀ x ∈ ls, CleanHead x := by
  intro x hx
  simp only [cleanStarts, List.tail_cons, List.all_eq_true] at h
  have := h x hx
  cases x with
  | nil => simp at this
  | cons y ys => exact ⟨y, ys, rfl, by simpa using this⟩

/-- the visible text of the processed lines is the visible text of their concatenation -/
theorem strip_processLines_all (hlim : Gen.colorLimit ≤ 16) (lines : List Str) (h : cleanStarts lines = true) :
    ((processLines none lines).map stripFormatting).flatten = stripFormatting lines.flatten := by
  cases lines with
  | nil => rfl
  | cons l ls =>
    have hcl := cleanHead_of_cleanStarts h
    simp only [processLines, List.map_cons]
    rw [strip_end, strip_processLines_clean hlim ls _ (parse_ctxB16 hlim _) hcl, strip_flatten_clean l ls hcl]
    simp

end C12
