import LimnoriaModel.C12.Model
import LimnoriaModel.Driver.Core
namespace C12
open Py Wire

def encBool (b : Bool) : String := if b then "1" else "0"
def decBool (f : String) : Option Bool := if f = "1" then some true else if f = "0" then some false else none
def encOptNat : Option Nat → String
  | none => "~"
  | some n => toString n
def decOptBool (f : String) : Option (Option Bool) := if f = "~" then some none else (decBool f).map some

def encRes : WrapRes → String
  | .ok ls => "ok\t" ++ encList ls
  | .assertFail => "assert"
  | .noProgress => "noprogress"
  | .unsupported => "unsupported"

def encCtx (c : Ctx) : String :=
  encOptNat c.fg ++ " " ++ encOptNat c.bg ++ " " ++ encBool c.bold ++ " " ++ encBool c.reverse ++ " " ++ encBool c.underline

def decOptNat (f : String) : Option (Option Nat) := if f = "~" then some none else f.toNat?.map some

def decCtx (fg bg b r u : String) : Option Ctx := do
  let fg ← decOptNat fg
  let bg ← decOptNat bg
  let b ← decBool b
  let r ← decBool r
  let u ← decBool u
  pure { fg := fg, bg := bg, bold := b, reverse := r, underline := u }

def encOut (o : Out) : String := enc o.command ++ ":" ++ enc o.target ++ ":" ++ enc o.payload
def encOuts (os : List Out) : String := if os.isEmpty then "-" else ",".intercalate (os.map encOut)

def decEnv : List String → Option Env
  | [bp, nick, mt, ch, to, pt, pn, pm, no, pr, pf, sc, cn, cp, cf, cw] => do
    let bp ← dec bp
    let nick ← dec nick
    let mt ← dec mt
    let ch ← decBool ch
    let to ← decOpt to
    let pt ← decBool pt
    let pn ← decBool pn
    let pm ← decBool pm
    let no ← decOptBool no
    let pr ← decOptBool pr
    let pf ← decOptBool pf
    let sc ← decBool sc
    let cn ← decBool cn
    let cp ← decBool cp
    let cf ← decBool cf
    let cw ← decBool cw
    pure { botPrefix := bp, nick := nick, msgTarget := mt, msgIsChannel := ch, to := to, pubTo := pt,
           pubNick := pn, pubMsgTarget := pm, notice := no, priv := pr, prefixNick := pf, stripCtcp := sc,
           confWithNotice := cn, confInPrivate := cp, confWithNickPrefix := cf, confNoticeWhenPrivate := cw }
  | _ => none

def decCfg : List String → Option Cfg
  | [l, m, i, on] => do
    let l ← l.toNat?
    let m ← m.toNat?
    let i ← i.toNat?
    let on ← decBool on
    pure { moresLength := l, maximumMores := m, instant := i, mores := on }
  | _ => none

/-- the contexts with which the chunks after the first are re-opened, and the overhead that was reserved -/
def lineContexts : Option Ctx → List Str → List Ctx
  | _, [] => []
  | ctx, l :: ls =>
    let l' := match ctx with
      | none => l
      | some c => c.start l
    let c' := (parse l').ctx
    c' :: lineContexts (some c') ls

/-- the `length` handed to `ircutils.wrap` ("~" when the reply goes out as one message) -/
def wrapLength (e : Env) (cfg : Cfg) (s : Str) : String :=
  match prepare e cfg s with
  | some (allowed, s1, false) => toString (allowed - suffixReserve (blen s1))
  | _ => "~"

/-- state of the driver: the `_mores` dictionary -/
abbrev St := Mores

def encMoreRes : MoreRes → String
  | .sent l => "sent\t" ++ encOuts l
  | .noMore => "nomore"
  | .noPublic => "nopublic"
  | .cantFind => "cantfind"
  | .notAsked => "notasked"

def stepLine (st : St) : List String → St × String
  | ["munge", s] => (st, match dec s with | some s => enc (munge s) | none => "bad-op")
  | ["strip", s] => (st, match dec s with | some s => enc (stripFormatting s) | none => "bad-op")
  | ["blen", s] => (st, match dec s with | some s => toString (blen s) | none => "bad-op")
  | ["nat", n] => (st, match n.toNat? with | some n => enc (natToStr n) ++ "\t" ++ enc (zfill2 n) | none => "bad-op")
  | ["split", size, w] =>
    (st, match size.toNat?, dec w with
      | some size, some w =>
        (match splitBytes w size with
         | none => "assert"
         | some (a, b) => enc a ++ "\t" ++ enc b)
      | _, _ => "bad-op")
  | ["btw", size, chunks] =>
    (st, match size.toNat?, decList chunks with
      | some size, some chunks => encRes (byteTextWrap chunks size)
      | _, _ => "bad-op")
  | ["parse", s] =>
    (st, match dec s with
      | some s => let p := parse s; encCtx p.ctx ++ "\t" ++ toString p.maxSize
      | none => "bad-op")
  | ["ctx", fg, bg, b, r, u, s] =>
    (st, match decCtx fg bg b r u, dec s with
      | some c, some s => enc (c.start s) ++ "\t" ++ enc (c.end s) ++ "\t" ++ toString c.size
      | _, _ => "bad-op")
  | ["wrap", length, s, chunks] =>
    (st, match length.toNat?, dec s, decList chunks with
      | some length, some s, some chunks =>
        if chunks.flatten ≠ munge s then "bad-chunks" else encRes (ircWrap chunks s length)
      | _, _, _ => "bad-op")
  | "mkreply" :: s :: env =>
    (st, match dec s, decEnv env with
      | some s, some e => encOut (makeReply e s)
      | _, _ => "bad-op")
  | "prep" :: s :: l :: m :: i :: on :: env =>
    (st, match dec s, decCfg [l, m, i, on], decEnv env with
      | some s, some cfg, some e =>
        (match prepare e cfg s with
         | none => "unsupported"
         | some (allowed, s1, single) => toString allowed ++ "\t" ++ enc s1 ++ "\t" ++ encBool single)
      | _, _, _ => "bad-op")
  | "reply" :: mask :: s :: chunks :: l :: m :: i :: on :: env =>
    match dec mask, dec s, decList chunks, decCfg [l, m, i, on], decEnv env with
    | some mask, some s, some chunks, some cfg, some e =>
      (match prepare e cfg s with
       | none => (st, "unsupported")
       | some (_, s1, single) =>
         if !single && chunks.flatten ≠ munge s1 then (st, "bad-chunks")
         else match reply e cfg chunks s with
           | .sent now stored =>
             ((match stored with
               | some l => st.store mask e.nick (storedPrivate e) l
               | none => st),
              "sent\t" ++ encOuts now ++ "\t" ++ (match stored with
                | some l => encOuts l
                | none => "~") ++ "\t" ++ wrapLength e cfg s)
           | .wrapFailed r => (st, "wrapfailed\t" ++ encRes r)
           | .unsupported => (st, "unsupported"))
    | _, _, _, _, _ => (st, "bad-op")
  | ["more", n, mask, nick] =>
    match n.toNat?, dec mask, decOpt nick with
    | some n, some mask, some nick => let r := st.more mask nick n; (r.1, encMoreRes r.2)
    | _, _, _ => (st, "bad-op")
  | ["lower", s] => (st, match dec s with | some s => enc (ircLower s) | none => "bad-op")
  | ["clear"] => ({}, "ok")
  | _ => (st, "bad-op")

def handler : Driver.Handler := { σ := St, init := {}, step := stepLine }
end C12
