import LimnoriaModel.C12.Model
import LimnoriaModel.Driver.Core
namespace C12
open Py Wire

def encBool (b : Bool) : String := if b then "1" else "0"
def decBool (f : String) : Option Bool := if f = "1" then some true else if f = "0" then some false else none
def encOptNat : Option Nat → String
  | none => "~"
  | some n => toString n
def decOptBool (f : String) : Option (Option Bool) := if f = "~" then some none else (decBool f).map some

def encRes : WrapRes → String
  | .ok ls => "ok\t" ++ encList ls
  | .assertFail => "assert"
  | .noProgress => "noprogress"
  | .unsupported => "unsupported"

def encCtx (c : Ctx) : String :=
  encOptNat c.fg ++ " " ++ encOptNat c.bg ++ " " ++ encBool c.bold ++ " " ++ encBool c.reverse ++ " " ++ encBool c.underline

def decOptNat (f : String) : Option (Option Nat) := if f = "~" then some none else f.toNat?.map some

def decCtx (fg bg b r u : String) : Option Ctx := do
  let fg ← decOptNat fg
  let bg ← decOptNat bg
  let b ← decBool b
  let r ← decBool r
  let u ← decBool u
  pure { fg := fg, bg := bg, bold := b, reverse := r, underline := u }

/-- command:target:payload:what-is-really-sent (empty when `Irc._truncateMsg` leaves the line alone) -/
def encOut (o : Out) : String :=
  enc o.command ++ ":" ++ enc o.target ++ ":" ++ enc o.payload ++ ":" ++
    (if sentLine o = outLine o then "" else enc (sentLine o))
def encOuts (os : List Out) : String := if os.isEmpty then "-" else ",".intercalate (os.map encOut)

def decEnv : List String → Option Env
  | [bp, nick, mt, ch, to, pt, pn, pm, no, pr, pf, sc, cn, cp, cf, cw] => do
    let bp ← dec bp
    let nick ← dec nick
    let mt ← dec mt
    let ch ← decBool ch
    let to ← decOpt to
    let pt ← decBool pt
    let pn ← decBool pn
    let pm ← decBool pm
    let no ← decOptBool no
    let pr ← decOptBool pr
    let pf ← decOptBool pf
    let sc ← decBool sc
    let cn ← decBool cn
    let cp ← decBool cp
    let cf ← decBool cf
    let cw ← decBool cw
    pure { botPrefix := bp, nick := nick, msgTarget := mt, msgIsChannel := ch, to := to, pubTo := pt,
           pubNick := pn, pubMsgTarget := pm, notice := no, priv := pr, prefixNick := pf, stripCtcp := sc,
           confWithNotice := cn, confInPrivate := cp, confWithNickPrefix := cf, confNoticeWhenPrivate := cw }
  | _ => none

def decCfg : List String → Option Cfg
  | [l, m, i, on] => do
    let l ← l.toNat?
    let m ← m.toNat?
    let i ← i.toNat?
    let on ← decBool on
    pure { moresLength := l, maximumMores := m, instant := i, mores := on }
  | _ => none

def textsOf (lang : Str) : Texts :=
  match Gen.localeTexts.find? (fun r => r.1 == lang) with
  | some r => { moreSingular := r.2.1, morePlural := r.2.2.1, emptyReply := r.2.2.2.1, errorPrefix := r.2.2.2.2 }
  | none => Texts.english

def decConfVals : List String → Option ConfVals
  | [a, b, c, d, e, f, g, h, i] => do
    let a ← decBool a
    let b ← decBool b
    let c ← decBool c
    let d ← decBool d
    let e ← decBool e
    let f ← decBool f
    let g ← g.toNat?
    let h ← h.toNat?
    let i ← i.toNat?
    pure { withNotice := a, inPrivate := b, withNickPrefix := c, errNotice := d, errPrivate := e, mores := f,
           moresLength := g, maximum := h, instant := i }
  | _ => none

def decKw : List String → Option Kw
  | [to, no, pr, pf, ac, nl] => do
    let to ← decOpt to
    let no ← decOptBool no
    let pr ← decOptBool pr
    let pf ← decOptBool pf
    let ac ← decOptBool ac
    let nl ← decOptBool nl
    pure { to := to, notice := no, priv := pr, prefixNick := pf, action := ac, noLengthCheck := nl }
  | _ => none

def decOptConf (name : String) (vals : List String) : Option (Option (Str × ConfVals)) :=
  if name = "~" then some none else do
    let n ← dec name
    let v ← decConfVals vals
    pure (some (n, v))

def decCall (fs : List String) : Option Call :=
  match fs with
  | bp :: mp :: nick :: mt :: mc :: k1 :: k2 :: k3 :: k4 :: k5 :: k6 :: hasInner :: i1 :: i2 :: i3 :: i4 :: i5 :: i6 :: ts :: pt :: pn ::
      pm :: ct :: cm :: tn :: th :: sc :: lang :: nwp :: rest =>
    if rest.length ≠ 9 + 10 + 10 + 10 then none else do
      let bp ← dec bp
      let mp ← dec mp
      let nick ← dec nick
      let mt ← dec mt
      let mc ← decOpt mc
      let kw ← decKw [k1, k2, k3, k4, k5, k6]
      let hasInner ← decBool hasInner
      let ki ← decKw [i1, i2, i3, i4, i5, i6]
      let ts ← decOpt ts
      let pt ← decBool pt
      let pn ← decBool pn
      let pm ← decBool pm
      let ct ← decBool ct
      let cm ← decBool cm
      let tn ← decBool tn
      let th ← decOpt th
      let sc ← decBool sc
      let lang ← dec lang
      let nwp ← decBool nwp
      let g ← decConfVals (rest.take 9)
      let oc ← decOptConf ((rest.drop 9).headD "~") ((rest.drop 10).take 9)
      let netv ← decOptConf ((rest.drop 19).headD "~") ((rest.drop 20).take 9)
      let nc ← decOptConf ((rest.drop 29).headD "~") ((rest.drop 30).take 9)
      pure { botPrefix := bp, msgPrefix := mp, nick := nick, msgTarget := mt, msgChannel := mc, kw := kw,
             inner := if hasInner then some ki else none, toStripped := ts,
             pubTo := pt, pubNick := pn, pubMsgTarget := pm, chanTo := ct, chanMsgTarget := cm, toIsNick := tn,
             toHostmask := th, stripCtcp := sc, texts := textsOf lang, noticeWhenPrivate := nwp, confGlobal := g,
             confChan := oc, confNet := { net := netv.map (·.2), netChan := nc } }
  | _ => none

/-- the text a command hands to `irc.reply`: a nested command's reply is cut to reply.maximumLength -/
def nestedText (nested : String) (s : Str) : Option Str :=
  if nested = "~" then some s else nested.toNat?.map fun n => nestedArg n s

/-- the contexts with which the chunks after the first are re-opened, and the overhead that was reserved -/
def lineContexts : Option Ctx → List Str → List Ctx
  | _, [] => []
  | ctx, l :: ls =>
    let l' := match ctx with
      | none => l
      | some c => c.start l
    let c' := (parse l').ctx
    c' :: lineContexts (some c') ls

/-- the `length` handed to `ircutils.wrap` ("~" when the reply goes out as one message) -/
def wrapLength (e : Env) (cfg : Cfg) (s : Str) : String :=
  match prepare e cfg s with
  | some (allowed, s1, false) => toString (allowed - suffixReserve e.texts (blen s1))
  | _ => "~"

/-- state of the driver: the `_mores` dictionary -/
abbrev St := Mores

def encMoreRes : MoreRes → String
  | .sent l => "sent\t" ++ encOuts l
  | .noMore => "nomore"
  | .noPublic => "nopublic"
  | .cantFind => "cantfind"
  | .notAsked => "notasked"

def stepLine (st : St) : List String → St × String
  | ["munge", s] => (st, match dec s with | some s => enc (munge s) | none => "bad-op")
  | ["strip", s] => (st, match dec s with | some s => enc (stripFormatting s) | none => "bad-op")
  | ["blen", s] => (st, match dec s with | some s => toString (blen s) | none => "bad-op")
  | ["nat", n] => (st, match n.toNat? with | some n => enc (natToStr n) ++ "\t" ++ enc (zfill2 n) | none => "bad-op")
  | ["split", size, w] =>
    (st, match size.toNat?, dec w with
      | some size, some w =>
        (match splitBytes w size with
         | none => "assert"
         | some (a, b) => enc a ++ "\t" ++ enc b)
      | _, _ => "bad-op")
  | ["btw", size, chunks] =>
    (st, match size.toNat?, decList chunks with
      | some size, some chunks => encRes (byteTextWrap chunks size)
      | _, _ => "bad-op")
  | ["parse", s] =>
    (st, match dec s with
      | some s => let p := parse s; encCtx p.ctx ++ "\t" ++ toString p.maxSize
      | none => "bad-op")
  | ["ctx", fg, bg, b, r, u, s] =>
    (st, match decCtx fg bg b r u, dec s with
      | some c, some s => enc (c.start s) ++ "\t" ++ enc (c.end s) ++ "\t" ++ toString c.size
      | _, _ => "bad-op")
  | ["wrap", length, s, chunks] =>
    (st, match length.toNat?, dec s, decList chunks with
      | some length, some s, some chunks =>
        if chunks.flatten ≠ munge s then "bad-chunks" else encRes (ircWrap chunks s length)
      | _, _, _ => "bad-op")
  | "mkreply" :: s :: env =>
    (st, match dec s, decEnv env with
      | some s, some e => encOut (makeReply e s)
      | _, _ => "bad-op")
  | "prep" :: s :: nested :: call =>
    (st, match dec s, decCall call with
      | some s, some c =>
        (match nestedText nested s with
         | none => "bad-op"
         | some s =>
           if c.unchecked then "unchecked"
           else match prepare c.env c.cfg s with
             | none => "unsupported"
             | some (allowed, s1, single) => toString allowed ++ "\t" ++ enc s1 ++ "\t" ++ encBool single)
      | _, _ => "bad-op")
  | "reply" :: s :: chunks :: nested :: call =>
    match dec s, decList chunks, decCall call with
    | some s, some chunks, some c =>
      (match nestedText nested s with
       | none => (st, "bad-op")
       | some s =>
         let e := c.env
         let cfg := c.cfg
         let contractOk : Bool := c.unchecked || (match prepare e cfg s with
           | some (_, s1, false) => chunks.flatten = munge s1
           | _ => true)
         if !contractOk then (st, "bad-chunks")
         else match c.reply chunks s with
           | .sent now stored =>
             ((match stored with
               | some l => st.store c.storeMask e.nick (storedPrivate e) l
               | none => st),
              "sent\t" ++ encOuts now ++ "\t" ++ (match stored with
                | some l => encOuts l
                | none => "~") ++ "\t" ++ (if c.unchecked then "~" else wrapLength e cfg s) ++ "\t" ++ enc c.storeMask)
           | .wrapFailed r => (st, "wrapfailed\t" ++ encRes r)
           | .unsupported => (st, "unsupported"))
    | _, _, _ => (st, "bad-op")
  | "error" :: s :: call =>
    (st, match dec s, decCall call with
      | some s, some c =>
        (if s.isEmpty then "nothing" else encOut (makeReply c.errorEnv s))
      | _, _ => "bad-op")
  | ["texts", lang] =>
    (st, match dec lang with
      | some lang => let t := textsOf lang
        enc t.moreSingular ++ "\t" ++ enc t.morePlural ++ "\t" ++ enc t.emptyReply ++ "\t" ++ enc t.errorPrefix
      | none => "bad-op")
  | ["more", n, mask, nick] =>
    match n.toNat?, dec mask, decOpt nick with
    | some n, some mask, some nick => let r := st.more mask nick n; (r.1, encMoreRes r.2)
    | _, _, _ => (st, "bad-op")
  | ["lower", s] => (st, match dec s with | some s => enc (ircLower s) | none => "bad-op")
  | ["clear"] => ({}, "ok")
  | _ => (st, "bad-op")

def handler : Driver.Handler := { σ := St, init := {}, step := stepLine }
end C12
