/-
C12 — helper lemmas, part C: _makeReply, the reply arithmetic, the more stack.
-/
import LimnoriaModel.C12.LemmasFmt
namespace C12
open Py

/-- table facts about the probe of the reply code -/
def TextsOk : Prop :=
  stripCtcpStr Gen.probePayload = Gen.probePayload ∧ Gen.probePayload.length = 1

instance : Decidable TextsOk := by unfold TextsOk; exact inferInstance

/-- what the suffix reserve needs from the locale: the text picked by `max(…, key=len)` (characters) is
at least as long, in BYTES, as both the singular and the plural text -/
def TextsFine (t : Texts) : Prop :=
  blen t.moreSingular ≤ blen (longerMore t) ∧ blen t.morePlural ≤ blen (longerMore t)

instance (t : Texts) : Decidable (TextsFine t) := by unfold TextsFine; exact inferInstance

/-- an ordinary reply: neither `action=True` nor an error reply -/
def Normal (e : Env) : Prop := e.action = false ∧ e.errorMode = false

instance (e : Env) : Decidable (Normal e) := by unfold Normal; exact inferInstance

/-! ## _makeReply and the wire form -/

theorem blen_wire (e : Env) (o : Out) :
    blen (wire e o) = blen e.botPrefix + blen o.command + blen o.target + blen o.payload + 7 := by
  have h1 : (':' : Char).utf8Size = 1 := by decide
  have h2 : (' ' : Char).utf8Size = 1 := by decide
  have h3 : ('\r' : Char).utf8Size = 1 := by decide
  have h4 : ('\n' : Char).utf8Size = 1 := by decide
  simp only [wire, blen_cons, blen_append, blen_nil, h1, h2, h3, h4]; omega

/-- bytes of a relayed reply around its text: `:prefix CMD target :` + nick prefix + CR LF -/
def frameLen (e : Env) : Nat :=
  blen e.botPrefix + blen (replyFrame e).1 + blen (replyFrame e).2.1 + blen (replyFrame e).2.2 + 7

theorem wire_makeReply (e : Env) (s : Str) :
    blen (wire e (makeReply e s)) = frameLen e + blen (replyBody e s) := by
  rw [blen_wire]; simp only [makeReply, frameLen, blen_append]; omega

theorem blen_stripCtcp_le (s : Str) : blen (stripCtcpStr s) ≤ blen s := by
  unfold stripCtcpStr rstripP lstripP
  rw [blen_reverse]
  calc blen (List.dropWhile isCtcp (List.dropWhile isCtcp s).reverse)
      ≤ blen (List.dropWhile isCtcp s).reverse := blen_dropWhile_le _ _
    _ = blen (List.dropWhile isCtcp s) := blen_reverse _
    _ ≤ blen s := blen_dropWhile_le _ _

theorem replyBody_normal (e : Env) (hn : Normal e) (s : Str) :
    replyBody e s = (if (if e.stripCtcp then stripCtcpStr s else s).isEmpty then e.texts.emptyReply
      else (if e.stripCtcp then stripCtcpStr s else s)) := by
  unfold replyBody
  simp [hn.1, hn.2]

theorem blen_replyBody_le (e : Env) (hn : Normal e) (s : Str) :
    blen (replyBody e s) ≤ max (blen s) (blen e.texts.emptyReply) := by
  rw [replyBody_normal e hn]
  have := blen_stripCtcp_le s
  cases e.stripCtcp <;> simp only [Bool.false_eq_true, ↓reduceIte] <;> split <;> omega

theorem autoLength_eq (ht : TextsOk) (e : Env) (hn : Normal e) :
    autoLength e = if frameLen e < Gen.maxLine then some (Gen.maxLine - frameLen e) else none := by
  obtain ⟨hprobe, hlen⟩ := ht
  unfold autoLength
  have hne : Gen.probePayload.isEmpty = false := by
    cases hp : Gen.probePayload with
    | nil => rw [hp] at hlen; simp at hlen
    | cons _ _ => rfl
  have hbody : replyBody e Gen.probePayload = Gen.probePayload := by
    rw [replyBody_normal e hn]
    cases hsc : e.stripCtcp
    · simp [hne]
    · simp [hprobe, hne]
  have hdrop : (makeReply e Gen.probePayload).payload.dropLast = (replyFrame e).2.2 := by
    simp only [makeReply, hbody]
    cases hp : Gen.probePayload with
    | nil => rw [hp] at hlen; simp at hlen
    | cons c cs =>
      cases cs with
      | nil => simp
      | cons _ _ => rw [hp] at hlen; simp at hlen
  dsimp only
  rw [blen_wire]
  simp only [hdrop]
  simp only [makeReply, frameLen]
  rfl

/-! ## suffixes -/

theorem blen_bold (hk : CharsOk) (s : Str) : blen (bold s) = blen s + 2 := by
  simp only [bold, blen, blen_append, hk.1]; omega

theorem blen_countText (n : Nat) (more : Str) :
    blen (countText n more) = (natToStr n).length + blen more + 3 := by
  have h1 : ('(' : Char).utf8Size = 1 := by decide
  have h2 : (' ' : Char).utf8Size = 1 := by decide
  have h3 : (')' : Char).utf8Size = 1 := by decide
  simp only [countText, blen, blen_append, h1, h2, h3, blen_natToStr]; omega

theorem suffixReserve_eq (hk : CharsOk) (t : Texts) (n : Nat) :
    suffixReserve t n = (natToStr (Gen.tabFactor * n)).length + blen (longerMore t) + 6 := by
  have h2 : (' ' : Char).utf8Size = 1 := by decide
  simp only [suffixReserve, blen, blen_bold hk, blen_countText, h2]; omega

/-- a chunk with its suffix is at most `suffixReserve` bytes longer than the chunk, as long as the count
is at most `8 * s_size` -/
theorem blen_withSuffix_le (hk : CharsOk) (t : Texts) (ht : TextsFine t) (i n : Nat) (chunk : Str)
    (hi : i ≤ Gen.tabFactor * n) :
    blen (withSuffix t i chunk) ≤ blen chunk + suffixReserve t n := by
  unfold withSuffix
  split
  · omega
  · have h2 : (' ' : Char).utf8Size = 1 := by decide
    have hm := natToStr_length_mono _ _ hi
    rw [suffixReserve_eq hk]
    simp only [blen_append, blen, blen_bold hk, blen_countText, h2]
    split
    · have := ht.1; omega
    · have := ht.2; omega

/-! ## the list of messages -/

theorem buildMsgs_eq (e : Env) : ∀ (rs : List Str) (acc : List Out),
    buildMsgs e rs acc = acc ++ rs.mapIdx (fun j c => makeReply e (withSuffix e.texts (acc.length + j) c)) := by
  intro rs
  induction rs with
  | nil => intro acc; simp [buildMsgs]
  | cons c cs ih =>
    intro acc
    simp only [buildMsgs, ih, List.mapIdx_cons, List.length_append, List.length_singleton, Nat.add_zero,
      List.append_assoc, List.singleton_append]
    congr 2
    rw [List.mapIdx_eq_mapIdx_iff]
    intro i _
    congr 2
    omega

/-! ## the stack of stored messages, seen in the order of delivery (`R` = the Python list reversed) -/

theorem popLast_reverse (r : List Out) :
    popLast r.reverse = match r with
      | [] => none
      | x :: xs => some (x, xs.reverse) := by
  cases r with
  | nil => rfl
  | cons x xs => simp [popLast, List.getLast?_reverse]

theorem instantLoop_reverse : ∀ (n : Nat) (r sent : List Out),
    instantLoop n r.reverse sent = (sent ++ r.take (n - 1), (r.drop (n - 1)).reverse) := by
  intro n
  induction n using Nat.strongRecOn with
  | _ n ih =>
    intro r sent
    match n with
    | 0 => simp [instantLoop]
    | 1 => simp [instantLoop]
    | n + 2 =>
      cases r with
      | nil => simp [instantLoop, popLast]
      | cons x xs =>
        have hp := popLast_reverse (x :: xs)
        simp only at hp
        simp only [instantLoop, hp]
        rw [ih (n + 1) (by omega) xs (sent ++ [x])]
        simp

theorem moreStep_reverse (k : Nat) (hk : 1 ≤ k) (r : List Out) :
    moreStep k r.reverse = (r.take k, (r.drop k).reverse) := by
  unfold moreStep
  have hk0 : ¬ (k = 0) := by omega
  simp only [hk0, ↓reduceIte, List.length_reverse]
  have h1 : r.length - (r.length - min k r.length) = min k r.length := by omega
  rw [List.drop_reverse, List.take_reverse, h1]
  simp only [List.reverse_reverse]
  have ht : List.take (min k r.length) r = List.take k r := by
    rw [List.take_eq_take_iff]; omega
  have hd : List.drop (min k r.length) r = List.drop k r := by
    by_cases h : k ≤ r.length
    · rw [Nat.min_eq_left h]
    · rw [Nat.min_eq_right (by omega), List.drop_of_length_le (Nat.le_refl _), List.drop_of_length_le (by omega)]
  rw [ht, hd]

/-- successive `more` commands with batch sizes `ks` on the stored list `l`:
(the batches of messages queued, the list left in `_mores`) -/
def runMores : List Nat → List Out → List (List Out) × List Out
  | [], l => ([], l)
  | k :: ks, l =>
    let r := moreStep k l
    let rs := runMores ks r.2
    (r.1 :: rs.1, rs.2)

theorem runMores_reverse : ∀ (ks : List Nat), (∀ k ∈ ks, 1 ≤ k) → ∀ (r : List Out),
    (runMores ks r.reverse).1.flatten = r.take ks.sum ∧ (runMores ks r.reverse).2 = (r.drop ks.sum).reverse := by
  intro ks
  induction ks with
  | nil => intro _ r; simp [runMores]
  | cons k ks ih =>
    intro hks r
    have hk := hks k List.mem_cons_self
    have := ih (fun x hx => hks x (List.mem_cons_of_mem _ hx)) (r.drop k)
    simp only [runMores, moreStep_reverse k hk r, List.flatten_cons, List.sum_cons, this.1, this.2,
      List.take_add, List.drop_drop, and_self]

theorem take_drop_cons {α : Type} : ∀ (n : Nat) (l : List α) (x : α) (xs : List α), l.drop n = x :: xs →
    l.take (n + 1) = l.take n ++ [x] ∧ l.drop (n + 1) = xs ∧ n < l.length := by
  intro n
  induction n with
  | zero => intro l x xs h; simp at h; subst h; simp
  | succ n ih =>
    intro l x xs h
    cases l with
    | nil => simp at h
    | cons a l' =>
      simp only [List.drop_succ_cons] at h
      obtain ⟨h1, h2, h3⟩ := ih l' x xs h
      simp only [List.take_succ_cons, List.drop_succ_cons, List.length_cons]
      exact ⟨by rw [h1]; simp, h2, by omega⟩

/-- the messages of a chunked reply in the order in which they are delivered -/
def deliveryOrder (e : Env) (lines : List Str) : List Out := (buildMsgs e lines.reverse []).reverse

theorem deliver_eq (e : Env) (cfg : Cfg) (lines : List Str) :
    deliver e cfg lines = .sent ((deliveryOrder e lines).take (max cfg.instant 1))
      (if (deliveryOrder e lines).length < max cfg.instant 1 then none
       else some ((deliveryOrder e lines).drop (max cfg.instant 1)).reverse) := by
  unfold deliver
  have hm : buildMsgs e lines.reverse [] = (deliveryOrder e lines).reverse := by simp [deliveryOrder]
  simp only
  rw [hm, instantLoop_reverse]
  simp only [List.nil_append]
  rw [popLast_reverse]
  cases hd : List.drop (cfg.instant - 1) (deliveryOrder e lines) with
  | nil =>
    have hlen : (deliveryOrder e lines).length ≤ cfg.instant - 1 := List.drop_eq_nil_iff.mp hd
    simp only
    have h1 : (deliveryOrder e lines).length < max cfg.instant 1 := by omega
    simp only [h1, ↓reduceIte]
    congr 1
    rw [List.take_of_length_le hlen, List.take_of_length_le (by omega)]
  | cons x xs =>
    obtain ⟨h1, h2, h3⟩ := take_drop_cons _ _ _ _ hd
    have hmax : max cfg.instant 1 = cfg.instant - 1 + 1 := by omega
    simp only
    rw [hmax, h1, h2]
    simp only [show ¬ ((deliveryOrder e lines).length < cfg.instant - 1 + 1) by omega, ↓reduceIte]

theorem reply_chunked (e : Env) (cfg : Cfg) (chunks : List Str) (s : Str) (allowed : Nat) (s1 : Str)
    (hprep : prepare e cfg s = some (allowed, s1, false))
    (hres : suffixReserve e.texts (blen s1) ≤ allowed)
    (lines : List Str) (hwrap : ircWrap chunks s1 (allowed - suffixReserve e.texts (blen s1)) = .ok lines) :
    reply e cfg chunks s = .sent ((deliveryOrder e (lines.take cfg.maximumMores)).take (max cfg.instant 1))
      (if (deliveryOrder e (lines.take cfg.maximumMores)).length < max cfg.instant 1 then none
       else some ((deliveryOrder e (lines.take cfg.maximumMores)).drop (max cfg.instant 1)).reverse) := by
  unfold reply
  rw [hprep]
  simp only [Bool.false_eq_true, ↓reduceIte, show ¬ (allowed < suffixReserve e.texts (blen s1)) by omega, hwrap]
  exact deliver_eq e cfg _

theorem mem_deliveryOrder (e : Env) (lines : List Str) (o : Out) (h : o ∈ deliveryOrder e lines) :
    ∃ j l, j < lines.length ∧ l ∈ lines ∧ o = makeReply e (withSuffix e.texts j l) := by
  unfold deliveryOrder at h
  rw [List.mem_reverse, buildMsgs_eq, List.nil_append, List.mem_mapIdx] at h
  obtain ⟨i, hi, rfl⟩ := h
  simp only [List.length_nil, Nat.zero_add]
  rw [List.length_reverse] at hi
  exact ⟨i, lines.reverse[i], hi, List.mem_reverse.mp (List.getElem_mem _), rfl⟩

theorem deliveryOrder_length (e : Env) (lines : List Str) : (deliveryOrder e lines).length = lines.length := by
  simp [deliveryOrder, buildMsgs_eq]

/-- the `k`-th message delivered (0-based) carries the `k`-th line and the count `n - 1 - k` -/
theorem deliveryOrder_getElem? (e : Env) (lines : List Str) (k : Nat) :
    (deliveryOrder e lines)[k]? =
      (lines[k]?).map (fun l => makeReply e (withSuffix e.texts (lines.length - 1 - k) l)) := by
  unfold deliveryOrder
  rw [buildMsgs_eq, List.nil_append]
  by_cases hk : k < lines.length
  · rw [List.getElem?_reverse (by simpa using hk)]
    simp only [List.length_mapIdx, List.length_reverse, List.getElem?_mapIdx, List.length_nil, Nat.zero_add]
    rw [List.getElem?_reverse (by omega)]
    have : lines.length - 1 - (lines.length - 1 - k) = k := by omega
    rw [this]
  · rw [List.getElem?_eq_none (by simpa using Nat.le_of_not_lt hk), List.getElem?_eq_none (Nat.le_of_not_lt hk)]
    rfl

theorem prepare_auto (ht : TextsOk) (hc : ConstsOk) (e : Env) (hn : Normal e) (cfg : Cfg) (s : Str) (allowed : Nat)
    (s1 : Str) (b : Bool) (hauto : cfg.moresLength = 0) (hprep : prepare e cfg s = some (allowed, s1, b)) :
    frameLen e + allowed = 512 ∧ s1 = truncate allowed cfg s ∧ b = (decide (blen s1 ≤ allowed) || !cfg.mores) := by
  unfold prepare allowedLength at hprep
  simp only [hauto, ne_eq, not_true_eq_false, ↓reduceIte] at hprep
  rw [autoLength_eq ht e hn] at hprep
  have hmax : Gen.maxLine = 512 := hc.2.2.2.2.2.2.1
  split at hprep
  · cases hprep
  · rename_i a heq
    split at heq
    · rename_i hlt
      injection heq with heq
      simp only [Option.some.injEq, Prod.mk.injEq] at hprep
      obtain ⟨h1, h2, h3⟩ := hprep
      subst h1
      refine ⟨by omega, h2.symm, ?_⟩
      rw [← h3, ← h2]
    · cases heq

theorem blen_le_four_length (s : Str) : blen s ≤ 4 * s.length := by
  induction s with
  | nil => simp [blen]
  | cons c cs ih => have := Char.utf8Size_le_four c; simp [blen]; omega

theorem truncate_length (allowed : Nat) (cfg : Cfg) (s : Str) : (truncate allowed cfg s).length ≤ allowed * cfg.maximumMores := by
  unfold truncate
  split
  · simp; omega
  · omega

theorem prepare_s1 (e : Env) (cfg : Cfg) (s : Str) (allowed : Nat) (s1 : Str) (b : Bool)
    (hprep : prepare e cfg s = some (allowed, s1, b)) :
    s1 = truncate allowed cfg s ∧ b = (decide (blen s1 ≤ allowed) || !cfg.mores) := by
  unfold prepare at hprep
  split at hprep
  · cases hprep
  · simp only [Option.some.injEq, Prod.mk.injEq] at hprep
    obtain ⟨h1, h2, h3⟩ := hprep
    subst h1
    exact ⟨h2.symm, by rw [← h3, ← h2]⟩

end C12
