/-
C03 — line-protocol driver: a `Db` and a clock, edited and queried by the same operation
sequence the harness applies to real `UsersDictionary` / `ChannelsDictionary` / `conf` objects.
-/
import LimnoriaModel.C03.Spec
import LimnoriaModel.Driver.Core
namespace C03
open Py Wire

structure DState where
  db : Db := {}
  now : Int := 0

def encErr : Err → String
  | .assertion => "err\tassertion"
  | .key => "err\tkey"
  | .value => "err\tvalue"

def encRB : R Bool → String
  | .ok true => "ok\t1"
  | .ok false => "ok\t0"
  | .error e => encErr e

def encRS : R Str → String
  | .ok s => "ok\t" ++ enc s
  | .error e => encErr e

def decBool (f : String) : Option Bool :=
  if f = "1" then some true else if f = "0" then some false else none

def encB (b : Bool) : String := if b then "1" else "0"

/-- canonical rendering of a set: sorted hex items -/
def encSet (s : List Str) : String :=
  let xs := (s.map enc).mergeSort (fun a b => decide (a ≤ b))
  if xs.isEmpty then "-" else ",".intercalate xs

def dumpUser (u : User) : String :=
  toString u.id ++ ":" ++ enc u.name ++ ":" ++ encB u.ignore ++ ":" ++ encB u.secure ++ ":" ++
    encSet u.caps ++ ":" ++ encSet u.hostmasks

def dumpChan (p : Str × Channel) : String :=
  enc p.1 ++ ":" ++ encB p.2.defaultAllow ++ ":" ++ encSet p.2.caps

def sortStrs (xs : List String) : List String := xs.mergeSort (fun a b => decide (a ≤ b))

def dump (db : Db) : String :=
  "U=" ++ ";".intercalate (sortStrs (db.users.map dumpUser)) ++
  "|C=" ++ ";".intercalate (sortStrs ((db.channels.filter (fun p => p.2.defaultAllow != Channel.default.defaultAllow || encSet p.2.caps != encSet Channel.default.caps)).map dumpChan)) ++
  "|D=" ++ encSet db.defaults ++ "|R=" ++ encSet db.registered ++ "|F=" ++ encB db.defaultFlag

def withUser (st : DState) (id : Nat) (f : User → R User) : DState × String :=
  match st.db.getUserById id with
  | none => (st, "bad-op")
  | some u =>
    match f u with
    | .ok u' => ({ st with db := st.db.putUser u' }, "ok")
    | .error e => (st, encErr e)

def withChan (st : DState) (ch : Str) (f : Channel → R Channel) : DState × String :=
  -- `channels.getChannel(ch)` stores a fresh record when there is none, whatever happens next
  let db := st.db.touchChannel ch
  match f (db.getChannel ch) with
  | .ok c' => ({ st with db := db.setChannel ch c' }, "ok")
  | .error e => ({ st with db := db }, encErr e)

def decFlags (f : String) : Option Flags :=
  match f.toList with
  | [a, b, c] => do
    let a ← decBool (String.singleton a)
    let b ← decBool (String.singleton b)
    let c ← decBool (String.singleton c)
    pure { ignoreOwner := a, ignoreChannelOp := b, ignoreDefaultAllow := c }
  | _ => none

def step (st : DState) : List String → DState × String
  | ["reset"] => ({}, "ok")
  | ["initial"] => ({ db := Db.initial, now := 0 }, "ok")
  | ["defaults", l] =>
    match decList l with
    | some v => (match st.db.setDefaults v with
        | .ok db => ({ st with db := db }, "ok")
        | .error e => (st, encErr e))
    | none => (st, "bad-op")
  | ["registered", l] =>
    match decList l with
    | some v => (match st.db.setRegistered v with
        | .ok db => ({ st with db := db }, "ok")
        | .error e => (st, encErr e))
    | none => (st, "bad-op")
  | ["flag", b] =>
    match decBool b with
    | some b => ({ st with db := { st.db with defaultFlag := b } }, "ok")
    | none => (st, "bad-op")
  | ["timeout", t] =>
    match t.toInt? with
    | some t => ({ st with db := { st.db with timeout := t } }, "ok")
    | none => (st, "bad-op")
  | ["now", t] =>
    match t.toInt? with
    | some t => ({ st with now := t }, "ok")
    | none => (st, "bad-op")
  | ["newuser", id, name, ign, sec] =>
    match id.toNat?, dec name, decBool ign, decBool sec with
    | some id, some name, some ign, some sec =>
      ({ st with db := st.db.putUser { id := id, name := name, ignore := ign, secure := sec } }, "ok")
    | _, _, _, _ => (st, "bad-op")
  | ["uflags", id, ign, sec] =>
    match id.toNat?, decBool ign, decBool sec with
    | some id, some ign, some sec => withUser st id (fun u => .ok { u with ignore := ign, secure := sec })
    | _, _, _ => (st, "bad-op")
  | ["ucap_add", id, cap] =>
    match id.toNat?, dec cap with
    | some id, some cap => withUser st id (fun u => u.addCapability cap)
    | _, _ => (st, "bad-op")
  | ["ucap_rm", id, cap] =>
    match id.toNat?, dec cap with
    | some id, some cap => withUser st id (fun u => u.removeCapability cap)
    | _, _ => (st, "bad-op")
  | ["uhost", id, m] =>
    match id.toNat?, dec m with
    | some id, some m =>
      -- IrcSet: elements are IrcStrings, equal when their `toLower` forms are equal
      withUser st id (fun u => .ok { u with hostmasks :=
        if (u.hostmasks.any (fun x => toLower x == toLower m)) then u.hostmasks else u.hostmasks ++ [m] })
    | _, _ => (st, "bad-op")
  | ["uhosts", id, ms] =>
    -- resynchronise a user's hostmask set (effects of the stateful lookup are modelled in C04)
    match id.toNat?, decList ms with
    | some id, some ms => withUser st id (fun u => .ok { u with hostmasks := ms })
    | _, _ => (st, "bad-op")
  | ["uauth", id, t, m] =>
    match id.toNat?, t.toInt?, dec m with
    | some id, some t, some m => withUser st id (fun u => .ok { u with auth := u.auth ++ [(t, m)] })
    | _, _, _ => (st, "bad-op")
  | ["creload"] => ({ st with db := st.db.reloadChannels }, "ok")
  | ["ccap_add", ch, cap] =>
    match dec ch, dec cap with
    | some ch, some cap => withChan st ch (fun c => c.addCapability cap)
    | _, _ => (st, "bad-op")
  | ["ccap_rm", ch, cap] =>
    match dec ch, dec cap with
    | some ch, some cap => withChan st ch (fun c => c.removeCapability cap)
    | _, _ => (st, "bad-op")
  | ["cdefault", ch, b] =>
    match dec ch, decBool b with
    | some ch, some b => withChan st ch (fun c => .ok (c.setDefaultCapability b))
    | _, _ => (st, "bad-op")
  | ["check", h, cap, fl] =>
    match dec h, dec cap, decFlags fl with
    | some h, some cap, some fl => (st, encRB (st.db.checkCapability st.now h cap fl))
    | _, _, _ => (st, "bad-op")
  | ["checks", h, caps, ra] =>
    match dec h, decList caps, decBool ra with
    | some h, some caps, some ra => (st, encRB (st.db.checkCapabilities st.now h caps ra))
    | _, _, _ => (st, "bad-op")
  | ["spec", h, cap, fl] =>
    -- the decision list the theorems are about (only meaningful for valid capabilities)
    match dec h, dec cap, decFlags fl with
    | some h, some cap, some fl =>
      (st, if validCap cap then encRB (.ok (Spec.decide st.db st.now h cap fl)) else "invalid")
    | _, _, _ => (st, "bad-op")
  | ["wf"] => (st, encB st.db.wfB)
  | ["validCap", c] => (st, match dec c with | some c => encB (validCap c) | none => "bad-op")
  | ["dump"] => (st, dump st.db)
  -- pure string algebra
  | ["isCapability", c] => (st, match dec c with | some c => encB (isCapability c) | none => "bad-op")
  | ["isChannel", c] => (st, match dec c with | some c => encB (isChannel c) | none => "bad-op")
  | ["isChannelCapability", c] => (st, match dec c with | some c => encB (isChannelCapability c) | none => "bad-op")
  | ["isAnti", c] => (st, match dec c with | some c => encB (isAntiCapability c) | none => "bad-op")
  | ["invert", c] => (st, match dec c with | some c => encRS (invertCapability c) | none => "bad-op")
  | ["makeAnti", c] => (st, match dec c with | some c => encRS (makeAntiCapability c) | none => "bad-op")
  | ["unAnti", c] => (st, match dec c with | some c => encRS (unAntiCapability c) | none => "bad-op")
  | ["makeChannel", ch, c] =>
    (st, match dec ch, dec c with | some ch, some c => encRS (makeChannelCapability ch c) | _, _ => "bad-op")
  | ["fromChannel", c] =>
    (st, match dec c with
      | some c => (match fromChannelCapability c with
          | .ok (a, b) => "ok\t" ++ enc a ++ "\t" ++ enc b
          | .error e => encErr e)
      | none => "bad-op")
  | ["toLower", c] => (st, match dec c with | some c => enc (toLower c) | none => "bad-op")
  | ["isUserHostmask", c] => (st, match dec c with | some c => encB (isUserHostmask c) | none => "bad-op")
  | ["glob", p, h] =>
    (st, match dec p, dec h with | some p, some h => encB (glob p h) | _, _ => "bad-op")
  | _ => (st, "bad-op")

def handler : Driver.Handler := { σ := DState, init := {}, step := step }
end C03
