/-
C03 — the *specification* side of the capability theorems: the domain of capability strings the
theorems speak about, and the documented precedence as a short decision list.
(Mathlib-free: the driver evaluates `Spec.decide` so that the harness can compare its own
oracle, written from the property statement, with the statement the theorems are about.)
-/
import LimnoriaModel.C03.Model
namespace C03
open Py

/-! ### domain -/

/-- the name part of a capability: a single word that does not start with `-` and is not
itself of the form `#channel,word` -/
def validBase (b : Str) : Bool :=
  isCapability b && b.head? != some '-' && !isChannelCapability b

/-- `base` or `-base` -/
def validPlain (c : Str) : Bool :=
  match c with
  | [] => false
  | x :: rest => if x = '-' then validBase rest else validBase c

/-- `[#channel,][-]base` with a blank-free channel name -/
def validCap (cap : Str) : Bool :=
  match chanSplit cap with
  | some (ch, c) => ch.all (fun x => !isSpace x) && validPlain c
  | none => validPlain cap

/-- a capability string taken apart: polarity, channel, name -/
structure Parsed where
  anti : Bool
  chan : Option Str
  base : Str
deriving DecidableEq, Repr

def parsePlain (c : Str) : Bool × Str :=
  match c with
  | [] => (false, [])
  | x :: rest => if x = '-' then (true, rest) else (false, c)

def parseCap (cap : Str) : Parsed :=
  match chanSplit cap with
  | some (ch, c) => ⟨(parsePlain c).1, some ch, (parsePlain c).2⟩
  | none => ⟨(parsePlain cap).1, none, (parsePlain cap).2⟩

/-- the capability `[#channel,]base` -/
def keyPos (ch : Option Str) (b : Str) : Str :=
  match ch with
  | none => b
  | some c => c ++ ',' :: b

/-- the anti-capability `[#channel,]-base` -/
def keyNeg (ch : Option Str) (b : Str) : Str :=
  match ch with
  | none => '-' :: b
  | some c => c ++ ',' :: '-' :: b

def render (anti : Bool) (ch : Option Str) (b : Str) : Str :=
  if anti then keyNeg ch b else keyPos ch b

/-! ### well-formed databases -/

/-- no capability together with its inverse -/
def consistentB (s : CapSet) : Bool :=
  s.all fun c =>
    match invertCapability c with
    | .ok c' => !(decide (c' ∈ s))
    | .error _ => true

def wfUserB (u : User) : Bool := consistentB u.caps && !(decide (antiOwnerS ∈ u.caps))

/-- what every reachable database satisfies (see `edits_preserve_wf`) -/
def Db.wfB (db : Db) : Bool :=
  db.users.all wfUserB && db.channels.all (fun p => consistentB p.2.caps) &&
    consistentB db.defaults && consistentB db.registered

/-! ### edit histories -/

/-- the edits of the capability-relevant state (what the Admin/Channel/User/Config commands and
the `users.conf`/`channels.conf` loaders do to it) -/
inductive Edit
  | newUser (id : Nat) (name : Str)
  | delUser (id : Nat)
  | userAdd (id : Nat) (cap : Str)
  | userRemove (id : Nat) (cap : Str)
  | userFlags (id : Nat) (ignore secure : Bool)
  | userHostmasks (id : Nat) (masks : List Str)
  | userAuth (id : Nat) (auth : List (Int × Str))
  | chanAdd (ch cap : Str)
  | chanRemove (ch cap : Str)
  | chanDefault (ch : Str) (b : Bool)
  | setDefaults (v : List Str)
  | setRegistered (v : List Str)
  | setFlag (b : Bool)
  | setTimeout (t : Int)
deriving Repr

/-- capability strings carried by an edit -/
def Edit.caps : Edit → List Str
  | .userAdd _ c => [c]
  | .userRemove _ c => [c]
  | .chanAdd _ c => [c]
  | .chanRemove _ c => [c]
  | .setDefaults v => v
  | .setRegistered v => v
  | _ => []

def Db.modifyUser (db : Db) (id : Nat) (f : User → R User) : R Db :=
  match db.getUserById id with
  | none => .error .key
  | some u =>
    match f u with
    | .error e => .error e
    | .ok u' => .ok (db.putUser { u' with id := u.id })

def Db.modifyChannel (db : Db) (ch : Str) (f : Channel → R Channel) : R Db :=
  match f (db.getChannel ch) with
  | .error e => .error e
  | .ok c => .ok (db.setChannel ch c)

def Db.applyEdit (db : Db) : Edit → R Db
  | .newUser id name => .ok (db.putUser { id := id, name := name })
  | .delUser id => .ok { db with users := db.users.filter (fun u => u.id != id) }
  | .userAdd id cap => db.modifyUser id (fun u => u.addCapability cap)
  | .userRemove id cap => db.modifyUser id (fun u => u.removeCapability cap)
  | .userFlags id ig se => db.modifyUser id (fun u => .ok { u with ignore := ig, secure := se })
  | .userHostmasks id ms => db.modifyUser id (fun u => .ok { u with hostmasks := ms })
  | .userAuth id a => db.modifyUser id (fun u => .ok { u with auth := a })
  | .chanAdd ch cap => db.modifyChannel ch (fun c => c.addCapability cap)
  | .chanRemove ch cap => db.modifyChannel ch (fun c => c.removeCapability cap)
  | .chanDefault ch b => db.modifyChannel ch (fun c => .ok (c.setDefaultCapability b))
  | .setDefaults v => db.setDefaults v
  | .setRegistered v => db.setRegistered v
  | .setFlag b => .ok { db with defaultFlag := b }
  | .setTimeout t => .ok { db with timeout := t }

/-- a history: an edit that raises leaves the state as it was -/
def Db.applyEdits (db : Db) (es : List Edit) : Db :=
  es.foldl (fun d e => match d.applyEdit e with | .ok d' => d' | .error _ => d) db

/-! ### the decision list -/

namespace Spec

/-- explicit setting of `[#channel,]base` in a set: `some true` = the capability is there,
`some false` = the anti-capability is there -/
def look (s : CapSet) (pos neg : Str) : Option Bool :=
  if pos ∈ s then some true else if neg ∈ s then some false else none

/-- level 1 — the user's own record.  Consulted only when the record mentions the capability
(or the user is an owner, or `owner` itself is asked): an ignored user then holds nothing, `owner`
is answered by the owner bit, an owner holds everything (unless `ignoreOwner`), otherwise the
explicit (anti)capability decides. -/
def userLevel (u : User) (ch : Option Str) (b : Str) (fl : Flags) : Option Bool :=
  let owner := decide (ownerS ∈ u.caps)
  let asksOwner := ch.isNone && b == ownerS
  let ex := look u.caps (keyPos ch b) (keyNeg ch b)
  if asksOwner || owner || ex.isSome then
    if u.ignore then some false
    else if asksOwner then some owner
    else if owner && !fl.ignoreOwner then some true
    else ex
  else none

/-- level 2 — channel capabilities: channel op (or owner) unless `ignoreChannelOp`, then the
channel's explicit setting, then the channel default (nothing with `ignoreDefaultAllow`) -/
def channelLevel (db : Db) (u : Option User) (c b : Str) (fl : Flags) : Bool :=
  let chanop :=
    match u with
    | some u => !fl.ignoreChannelOp && !u.ignore &&
        (decide (ownerS ∈ u.caps) || look u.caps (c ++ ',' :: opS) (c ++ ',' :: '-' :: opS) == some true)
    | none => false
  if chanop then true
  else
    let chan := db.getChannel c
    (look chan.caps b ('-' :: b)).getD (!fl.ignoreDefaultAllow && chan.defaultAllow)

/-- level 3 — global default set, registered-users set (recognised users only), default flag -/
def globalLevel (db : Db) (known : Bool) (b : Str) (fl : Flags) : Bool :=
  (look db.defaults b ('-' :: b)).getD <|
    (if known then look db.registered b ('-' :: b) else none).getD <|
      !fl.ignoreDefaultAllow && db.defaultFlag

/-- does the sender (recognised as `u`, or unrecognised) hold the capability `[#ch,]b`? -/
def holds (db : Db) (u : Option User) (ch : Option Str) (b : Str) (fl : Flags) : Bool :=
  (u.bind (fun u => userLevel u ch b fl)).getD <|
    match ch with
    | some c => channelLevel db u c b fl
    | none => globalLevel db u.isSome b fl

/-- the answer to `checkCapability(hostmask, cap, flags)`: the sender holds the positive form,
exclusive-or the polarity of the question -/
def decide (db : Db) (now : Int) (h cap : Str) (fl : Flags) : Bool :=
  let p := parseCap (toLower cap)
  xor (holds db (db.recognise now h) p.chan p.base fl) p.anti

end Spec
end C03
