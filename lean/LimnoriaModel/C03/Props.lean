/-
C03 — property theorems: capability decisions follow the documented precedence.
(Helper lemmas live in `Lemmas.lean`; the decision list `Spec.decide`, the domain `validCap`
and the database invariant `Db.wfB` are defined in `Spec.lean`.)
-/
import LimnoriaModel.C03.Lemmas
namespace C03
open Py

/-! ## Obligations on the extracted tables
`rfc1459_table_ok` (the case table never touches a blank or a structural character, its images
are fixed points and absorb ASCII lowering), `chanTypes_no_dash`, `chanTypes_no_o`,
`channel_default_ok` are proved by `decide` in `Lemmas.lean` against what `/repo` says now. -/

theorem lookup_found_mem {db : Db} {now : Int} {h : Str} {u : User}
    (hl : db.lookup now h = .found u) : u ∈ db.users := by
  unfold Db.lookup at hl
  by_cases hh : isUserHostmask h = true
  · simp only [hh, if_true] at hl
    generalize hf : db.users.filter (fun u => u.checkHostmask db.timeout now h true) = l at hl
    match l, hl with
    | [v], hl =>
      injection hl with hl; subst hl
      have : v ∈ db.users.filter (fun u => u.checkHostmask db.timeout now h true) := by
        rw [hf]; exact List.mem_singleton.2 rfl
      exact (List.mem_filter.1 this).1
  · simp only [hh, Bool.false_eq_true, if_false] at hl
    cases hf : db.users.find? (fun u => asciiLower u.name == asciiLower h) with
    | none => rw [hf] at hl; cases hl
    | some v =>
      rw [hf] at hl
      injection hl with hl; subst hl
      exact List.mem_of_find?_eq_some hf

theorem recognise_mem {db : Db} {now : Int} {h : Str} {u : User}
    (hr : db.recognise now h = some u) : u ∈ db.users := by
  unfold Db.recognise at hr
  split at hr
  · cases hr
  · cases hl : db.lookup now h with
    | found v =>
      rw [hl] at hr
      simp only at hr
      split at hr
      · cases hr
      · injection hr with hr; subst hr; exact lookup_found_mem hl
    | missing => rw [hl] at hr; cases hr
    | duplicate => rw [hl] at hr; cases hr

/-- a sender whose prefix is not `nick!user@host` (a server, a service, a bare nick) is nobody,
whatever accounts exist -/
theorem recognise_needs_hostmask (db : Db) (now : Int) (h : Str) (hh : isUserHostmask h = false) :
    db.recognise now h = none := by
  unfold Db.recognise; simp [hh]

/-- lowering a valid capability gives `render` of lowered, well-formed parts -/
theorem valid_lower {cap : Str} (hv : validCap cap = true) :
    ∃ (a : Bool) (ch : Option Str) (b : Str), LCap ch b ∧ toLower cap = render a ch b ∧
      isAntiCapability cap = a := by
  obtain ⟨a, ch, b, hch, hb, e⟩ := validCap_shape hv
  refine ⟨a, ch.map toLower, toLower b, ⟨chanOK_toLower hch, baseOK_toLower hb, ?_, toLower_idem b⟩, ?_, ?_⟩
  · cases ch with
    | none => rfl
    | some c => simp only [Option.map_some, toLower_idem]
  · rw [e, toLower_render]
  · rw [e, isAnti_render hch hb]

/-- **Refinement.**  For every well-formed database, time, sender, valid capability string and
flag combination, `checkCapability` returns — without raising — the answer of the documented
decision list: the sender holds the positive form (owner / explicit user setting / channel op /
channel setting / channel default / global default set / registered-users set / default flag,
in this order; unrecognised senders only the channel and global defaults), exclusive-or the
polarity of the question. -/
theorem check_eq_spec (db : Db) (hdb : db.wfB = true) (now : Int) (h cap : Str) (fl : Flags)
    (hv : validCap cap = true) :
    db.checkCapability now h cap fl = .ok (Spec.decide db now h cap fl) := by
  obtain ⟨a, ch, b, hl, e, _⟩ := valid_lower hv
  rw [← checkCapability_lower, e]
  unfold Spec.decide
  simp only [e, parseCap_render hl.chOK hl.bOK]
  unfold Db.checkCapability
  cases hr : db.recognise now h with
  | none => exact checkUnknown_spec hl a hdb fl
  | some u => exact checkKnown_spec hl a hdb ((wfB_spec hdb).1 u (recognise_mem hr)) fl

example : validCap ['#', 'c', ',', '-', 'o', 'p'] = true := by decide

/-- **A capability and its anti-capability get opposite answers** — for every state, sender,
valid capability and all eight flag combinations (after the repair of the
`ignoreDefaultAllow` branch). -/
theorem anti_symm (db : Db) (hdb : db.wfB = true) (now : Int) (h cap : Str) (fl : Flags)
    (hv : validCap cap = true) :
    ∃ inv r, invertCapability cap = .ok inv ∧ validCap inv = true ∧
      db.checkCapability now h cap fl = .ok r ∧ db.checkCapability now h inv fl = .ok (!r) := by
  obtain ⟨a, ch, b, hch, hb, e⟩ := validCap_shape hv
  have hvi : validCap (render (!a) ch b) = true := validCap_render hch hb
  refine ⟨render (!a) ch b, Spec.decide db now h cap fl, ?_, hvi, check_eq_spec db hdb now h cap fl hv, ?_⟩
  · rw [e]; exact invert_render hch hb
  · rw [check_eq_spec db hdb now h _ fl hvi]
    have hl : LCap (ch.map toLower) (toLower b) :=
      ⟨chanOK_toLower hch, baseOK_toLower hb, by cases ch <;> simp [toLower_idem], toLower_idem b⟩
    unfold Spec.decide
    simp only [e, toLower_render, parseCap_render hl.chOK hl.bOK]
    cases a <;> cases Spec.holds db (db.recognise now h) (ch.map toLower) (toLower b) fl <;> rfl

/-- **An owner holds every capability and no anti-capability**: a recognised, non-ignored
owner is granted every valid capability and refused every anti-capability (default
`ignoreOwner`; any `ignoreChannelOp`/`ignoreDefaultAllow`). -/
theorem owner_all (db : Db) (hdb : db.wfB = true) (now : Int) (h cap : Str) (fl : Flags)
    (hv : validCap cap = true) (u : User) (hr : db.recognise now h = some u)
    (hi : u.ignore = false) (ho : ownerS ∈ u.caps) (hio : fl.ignoreOwner = false) :
    db.checkCapability now h cap fl = .ok (!isAntiCapability cap) := by
  obtain ⟨a, ch, b, hl, e, ha⟩ := valid_lower hv
  rw [check_eq_spec db hdb now h cap fl hv, ha]
  unfold Spec.decide
  simp only [e, parseCap_render hl.chOK hl.bOK, hr]
  have : Spec.holds db (some u) ch b fl = true := by
    unfold Spec.holds Spec.userLevel
    simp only [Option.bind_some, ho, decide_true, Bool.or_true, Bool.true_or, if_true, hi,
      Bool.false_eq_true, if_false, hio, Bool.not_false, Bool.and_self]
    split <;> rfl
  rw [this]; cases a <;> rfl

/-- **The answer does not depend on the case of names**: two capability strings that are equal
under IRC case folding (ASCII letters and the pairs `[]\~` / `{}|^`, in the capability name and
in the channel name) get the same outcome — for *every* string, errors included. -/
theorem case_insens (db : Db) (now : Int) (h cap cap' : Str) (fl : Flags)
    (hc : toLower cap = toLower cap') :
    db.checkCapability now h cap fl = db.checkCapability now h cap' fl := by
  rw [← checkCapability_lower db now h cap, ← checkCapability_lower db now h cap', hc]

example : toLower ['#', 'C', '[', ',', 'F', 'o', '~'] = toLower ['#', 'c', '{', ',', 'f', 'O', '^'] := by decide

/-- stored capabilities are case-folded on the way in -/
theorem add_case_insens (s : CapSet) (cap cap' : Str) (hc : toLower cap = toLower cap') :
    CapSet.add s cap = CapSet.add s cap' := by
  unfold CapSet.add; rw [hc]

/-- **Unrecognised senders get only the defaults**: when the sender is not recognised, the
outcome is a function of the channel table, the global default set and the default flag — user
records, the registered-users set, the clock and the hostmask itself are irrelevant. -/
theorem unknown_only_defaults (db db' : Db) (now now' : Int) (h h' cap : Str) (fl : Flags)
    (hu : db.recognise now h = none) (hu' : db'.recognise now' h' = none)
    (hc : db.channels = db'.channels) (hd : db.defaults = db'.defaults)
    (hf : db.defaultFlag = db'.defaultFlag) :
    db.checkCapability now h cap fl = db'.checkCapability now' h' cap fl := by
  unfold Db.checkCapability
  rw [hu, hu']
  unfold Db.checkUnknown Db.globalsUnknown Db.getChannel
  simp only [hc, hd, hf]

/-! ## algebra of capability strings -/

/-- inverting twice gives the capability back -/
theorem invert_invert (cap : Str) (hv : validCap cap = true) :
    ∃ inv, invertCapability cap = .ok inv ∧ invertCapability inv = .ok cap := by
  obtain ⟨a, ch, b, hch, hb, e⟩ := validCap_shape hv
  refine ⟨render (!a) ch b, by rw [e]; exact invert_render hch hb, ?_⟩
  rw [invert_render hch hb, e, Bool.not_not]

/-- inversion flips the polarity -/
theorem isAnti_invert (cap inv : Str) (hv : validCap cap = true) (hi : invertCapability cap = .ok inv) :
    isAntiCapability inv = !isAntiCapability cap := by
  obtain ⟨a, ch, b, hch, hb, e⟩ := validCap_shape hv
  rw [e, invert_render hch hb] at hi
  injection hi with hi
  rw [← hi, e, isAnti_render hch hb, isAnti_render hch hb]

/-- `fromChannelCapability (makeChannelCapability ch c) = (ch, c)` -/
theorem fromChannel_makeChannel (ch c : Str) (hch : isChannel ch = true) (hc : isCapability c = true) :
    ∃ x, makeChannelCapability ch c = .ok x ∧ fromChannelCapability x = .ok (ch, c) := by
  refine ⟨ch ++ ',' :: c, ?_, ?_⟩
  · unfold makeChannelCapability; simp [hch, hc]
  · unfold fromChannelCapability; rw [chanSplit_chan hch hc]

example : isChannel ['#', 'c'] = true ∧ isCapability ['o', 'p'] = true := by decide

/-! ## histories of edits -/

/-- obligation on the extracted default capability lists: every shipped default is a valid
capability string -/
theorem default_caps_valid :
    (Gen.defaultCapabilities ++ Gen.defaultCapabilitiesRegistered).all validCap = true := by decide

theorem validCap_antiOwner : validCap antiOwnerS = true := by decide

theorem setDefaults_strong {db db' : Db} {v : List Str} (h : db.Strong)
    (hv : ∀ c ∈ v, validCap c = true) (he : db.setDefaults v = .ok db') : db'.Strong := by
  unfold Db.setDefaults at he
  split at he
  · cases he
  · rename_i s hs
    have hss := ofList_strong hv hs
    split at he
    · injection he with he; subst he
      exact ⟨h.users, h.channels, hss, h.registered⟩
    · split at he
      · cases he
      · rename_i s' hs'
        injection he with he; subst he
        exact ⟨h.users, h.channels, add_strong hss validCap_antiOwner hs', h.registered⟩

/-- **Every edit keeps the database well-formed**: starting from a database whose capability
sets hold valid strings and never a capability next to its inverse (and no user set holds
`-owner`), any edit carrying valid capability strings — add/remove a user or channel capability,
flags, hostmasks, logins, default sets, default flag, new/deleted user — leads to such a
database again.  (`Db.Strong.wf` turns this into the hypothesis of `check_eq_spec`.) -/
theorem edits_preserve_wf (db : Db) (h : db.Strong) (e : Edit)
    (hv : ∀ c ∈ e.caps, validCap c = true) (db' : Db) (he : db.applyEdit e = .ok db') :
    db'.Strong := by
  unfold Db.applyEdit at he
  cases e with
  | newUser id name =>
    simp only at he; injection he with he; subst he
    refine ⟨?_, h.channels, h.defaults, h.registered⟩
    intro v hvm
    rcases mem_putUser hvm with e | e
    · subst e; exact ⟨strongSet_nil, by simp⟩
    · exact h.users v e
  | delUser id =>
    simp only at he; injection he with he; subst he
    exact ⟨fun u hu => h.users u (List.mem_filter.1 hu).1, h.channels, h.defaults, h.registered⟩
  | userAdd id cap =>
    refine modifyUser_strong h ?_ he
    intro u u' hu hf
    unfold User.addCapability at hf
    split at hf
    · cases hf
    · rename_i s hs
      injection hf with hf; subst hf
      exact uadd_strong (h.users u hu).1 (h.users u hu).2 (hv cap (by simp [Edit.caps])) hs
  | userRemove id cap =>
    refine modifyUser_strong h ?_ he
    intro u u' hu hf
    unfold User.removeCapability at hf
    split at hf
    · cases hf
    · rename_i s hs
      injection hf with hf; subst hf
      refine ⟨remove_strong (h.users u hu).1 hs, ?_⟩
      unfold CapSet.remove at hs
      simp only at hs
      split at hs
      · injection hs with hs; subst hs
        intro hm; exact (h.users u hu).2 (mem_erase.1 hm).1
      · cases hs
  | userFlags id ig se =>
    refine modifyUser_strong h ?_ he
    intro u u' hu hf; injection hf with hf; subst hf; exact h.users u hu
  | userHostmasks id ms =>
    refine modifyUser_strong h ?_ he
    intro u u' hu hf; injection hf with hf; subst hf; exact h.users u hu
  | userAuth id a =>
    refine modifyUser_strong h ?_ he
    intro u u' hu hf; injection hf with hf; subst hf; exact h.users u hu
  | chanAdd ch cap =>
    refine modifyChannel_strong h ?_ he
    intro c c' hc hf
    unfold Channel.addCapability at hf
    split at hf
    · cases hf
    · split at hf
      · cases hf
      · rename_i s hs
        injection hf with hf; subst hf
        exact add_strong hc (hv cap (by simp [Edit.caps])) hs
  | chanRemove ch cap =>
    refine modifyChannel_strong h ?_ he
    intro c c' hc hf
    unfold Channel.removeCapability at hf
    split at hf
    · cases hf
    · split at hf
      · cases hf
      · rename_i s hs
        injection hf with hf; subst hf
        exact remove_strong hc hs
  | chanDefault ch b =>
    refine modifyChannel_strong h ?_ he
    intro c c' hc hf; injection hf with hf; subst hf; exact hc
  | setDefaults v => exact setDefaults_strong h hv he
  | setRegistered v =>
    have he : db.setRegistered v = .ok db' := he
    unfold Db.setRegistered at he
    split at he
    · cases he
    · rename_i s hs
      injection he with he; subst he
      exact ⟨h.users, h.channels, h.defaults, ofList_strong hv hs⟩
  | setFlag b =>
    simp only at he; injection he with he; subst he
    exact ⟨h.users, h.channels, h.defaults, h.registered⟩
  | setTimeout t =>
    simp only at he; injection he with he; subst he
    exact ⟨h.users, h.channels, h.defaults, h.registered⟩

/-- the freshly configured bot's database is well-formed -/
theorem initial_strong : Db.initial.Strong := by
  have hv := default_caps_valid
  rw [List.all_append, Bool.and_eq_true, List.all_eq_true, List.all_eq_true] at hv
  refine ⟨?_, ?_, ?_, ?_⟩
  · intro u hu; cases hu
  · intro p hp; cases hp
  · show StrongSet (match CapSet.ofList Gen.defaultCapabilities with | .ok s => s | .error _ => [])
    cases hs : CapSet.ofList Gen.defaultCapabilities with
    | ok s => exact ofList_strong hv.1 hs
    | error e => exact strongSet_nil
  · show StrongSet (match CapSet.ofList Gen.defaultCapabilitiesRegistered with | .ok s => s | .error _ => [])
    cases hs : CapSet.ofList Gen.defaultCapabilitiesRegistered with
    | ok s => exact ofList_strong hv.2 hs
    | error e => exact strongSet_nil

/-- **After any history of edits** (with valid capability strings; an edit that raises changes
nothing) the database reached from the shipped configuration satisfies the hypothesis of
`check_eq_spec`, `anti_symm`, `owner_all`. -/
theorem history_wf (es : List Edit) (hv : ∀ e ∈ es, ∀ c ∈ e.caps, validCap c = true) :
    (Db.initial.applyEdits es).wfB = true := by
  suffices ∀ db : Db, db.Strong → (db.applyEdits es).Strong from (this _ initial_strong).wf
  induction es with
  | nil => intro db h; exact h
  | cons e es ih =>
    intro db h
    unfold Db.applyEdits
    simp only [List.foldl_cons]
    have ih' := ih (fun e' he' => hv e' (List.mem_cons_of_mem _ he'))
    cases he : db.applyEdit e with
    | ok db' => exact ih' db' (edits_preserve_wf db h e (hv e List.mem_cons_self) db' he)
    | error err => exact ih' db h

example : ∀ c ∈ (Edit.userAdd 1 ['#', 'c', ',', 'o', 'p']).caps, validCap c = true := by decide

/-! ## the default-owner guard -/

/-- **`supybot.capabilities` always denies `owner`**: whatever list the default capabilities
are set to (valid strings or not), afterwards the set contains `-owner` and not `owner`
(the `--allow-default-owner` guard, after its repair). -/
theorem setDefaults_keeps_antiowner (db db' : Db) (v : List Str) (he : db.setDefaults v = .ok db') :
    antiOwnerS ∈ db'.defaults ∧ ownerS ∉ db'.defaults := by
  unfold Db.setDefaults at he
  split at he
  · cases he
  · rename_i s hs
    have hex : ¬ (ownerS ∈ s ∧ antiOwnerS ∈ s) :=
      owner_pair_excl_fold v [] s hs (by simp)
    split at he
    · rename_i hm
      injection he with he; subst he
      exact ⟨hm, fun ho => hex ⟨ho, hm⟩⟩
    · split at he
      · cases he
      · rename_i s' hs'
        injection he with he; subst he
        have hinv : invertCapability (toLower antiOwnerS) = .ok ownerS :=
          invert_keyNeg chanOK_none baseOK_owner
        have hm : antiOwnerS ∈ s' := (add_mem_iff hinv hs' antiOwnerS).2 (Or.inl (by decide))
        refine ⟨hm, fun ho => ?_⟩
        rcases (add_mem_iff hinv hs' ownerS).1 ho with e | e
        · exact absurd e (by decide)
        · exact e.2 rfl

/-- **Unrecognised senders are never owners**: in any database whose default set went through
`setDefaults`, an unrecognised sender is refused `owner`, under every flag combination. -/
theorem unknown_never_owner (db : Db) (hd : antiOwnerS ∈ db.defaults ∧ ownerS ∉ db.defaults)
    (now : Int) (h : Str) (fl : Flags) (hu : db.recognise now h = none) :
    db.checkCapability now h ownerS fl = .ok false := by
  unfold Db.checkCapability
  rw [hu]
  unfold Db.checkUnknown
  have e1 : chanSplit ownerS = none := by decide
  rw [e1]
  unfold Db.globalsUnknown CapSet.contains CapSet.check
  have e2 : toLower ownerS = ownerS := by decide
  have e3 : invertCapability ownerS = .ok antiOwnerS := invert_keyPos chanOK_none baseOK_owner
  simp only [e2, e3, hd.1, hd.2, if_false, if_true, decide_true]

example : ∃ db' : Db, Db.initial.setDefaults [ownerS] = .ok db' := ⟨_, rfl⟩

/-! ## side effects and lists -/

/-- `channels.getChannel` stores a fresh record for an unknown channel: no decision can tell -/
theorem touch_invisible (db : Db) (ch ch' : Str) :
    (db.touchChannel ch).getChannel ch' = db.getChannel ch' := by
  unfold Db.touchChannel
  cases hl : db.channels.lookup (chanKey ch) with
  | some c => rfl
  | none =>
    unfold Db.getChannel
    simp only
    have : ∀ (l : List (Str × Channel)) (k : Str), l.lookup k = none →
        ∀ k', (l ++ [(k, Channel.default)]).lookup k' =
          (match l.lookup k' with | some c => some c | none => if k' == k then some Channel.default else none) := by
      intro l k hk k'
      induction l with
      | nil => simp [List.lookup]; split <;> simp_all
      | cons p ps ih =>
        obtain ⟨a, b⟩ := p
        simp only [List.cons_append, List.lookup] at hk ⊢
        split
        · rfl
        · split at hk
          · cases hk
          · exact ih hk
    rw [this _ _ hl]
    cases hl' : db.channels.lookup (chanKey ch') with
    | some c => rfl
    | none =>
      by_cases hk : (chanKey ch' == chanKey ch) = true
      · simp only [hk, if_true]
      · simp only [hk, Bool.false_eq_true, if_false]

theorem touch_invisible_check (db : Db) (ch : Str) (now : Int) (h cap : Str) (fl : Flags) :
    (db.touchChannel ch).checkCapability now h cap fl = db.checkCapability now h cap fl := by
  have hg : ∀ c, (db.touchChannel ch).getChannel c = db.getChannel c := touch_invisible db ch
  have hrest : (db.touchChannel ch).users = db.users ∧ (db.touchChannel ch).defaults = db.defaults ∧
      (db.touchChannel ch).registered = db.registered ∧ (db.touchChannel ch).defaultFlag = db.defaultFlag ∧
      (db.touchChannel ch).timeout = db.timeout := by
    unfold Db.touchChannel; split <;> simp
  obtain ⟨h1, h2, h3, h4, h5⟩ := hrest
  unfold Db.checkCapability Db.recognise Db.lookup Db.checkUnknown Db.checkKnown Db.channelStage
    Db.globalsUnknown Db.globalsKnown
  simp only [hg, h1, h2, h3, h4, h5]

/-- **`checkCapabilities`** is the conjunction / disjunction of the single decisions -/
theorem checkCapabilities_spec (db : Db) (hdb : db.wfB = true) (now : Int) (h : Str)
    (caps : List Str) (requireAll : Bool) (hv : ∀ c ∈ caps, validCap c = true) :
    db.checkCapabilities now h caps requireAll =
      .ok (if requireAll then caps.all (fun c => Spec.decide db now h c {})
           else caps.any (fun c => Spec.decide db now h c {})) := by
  induction caps with
  | nil => cases requireAll <;> rfl
  | cons c cs ih =>
    have ih' := ih (fun c' hc' => hv c' (List.mem_cons_of_mem _ hc'))
    unfold Db.checkCapabilities
    rw [check_eq_spec db hdb now h c {} (hv c List.mem_cons_self)]
    simp only [ih']
    cases requireAll
    · simp only [Bool.false_eq_true, if_false, List.any_cons]
      cases hd : Spec.decide db now h c {} <;> simp
    · simp only [if_true, List.all_cons]
      cases hd : Spec.decide db now h c {} <;> simp

/-! ## outside the domain: capability names that start with `-`
For a name such as `-foo` the strings `--foo` / `-foo` / `foo` collapse: `invert "--foo" = "-foo"`
and `invert "-foo" = "foo"`, so inversion is not an involution there and the two polarities are
not answered oppositely.  (Such names are not in the property's quantifier; kept as a fact.) -/
def witnessDb : Db := { Db.initial with
  users := [{ id := 1, name := ['a'], caps := [['f', 'o', 'o']], hostmasks := [['a', '!', '*', '@', '*']] }] }

theorem anti_symm_needs_valid :
    witnessDb.checkCapability 0 ['a', '!', 'b', '@', 'c'] ['-', '-', 'f', 'o', 'o'] = .ok false ∧
    invertCapability ['-', '-', 'f', 'o', 'o'] = .ok ['-', 'f', 'o', 'o'] ∧
    witnessDb.checkCapability 0 ['a', '!', 'b', '@', 'c'] ['-', 'f', 'o', 'o'] = .ok false := by
  refine ⟨by rfl, by rfl, by rfl⟩

/-- non-vacuity of the hypotheses of `check_eq_spec` / `anti_symm` / `owner_all`: a concrete
well-formed database with a recognised user, on which the decision is not the default -/
example : witnessDb.wfB = true ∧ validCap ['-', 'f', 'o', 'o'] = true ∧
    (∃ u, witnessDb.recognise 0 ['a', '!', 'b', '@', 'c'] = some u) ∧
    Spec.decide witnessDb 0 ['a', '!', 'b', '@', 'c'] ['-', 'f', 'o', 'o'] {} = false := by
  refine ⟨by decide, by decide, ⟨_, rfl⟩, by rfl⟩

/-! ## channels.conf written and read back (`Db.reloadChannels`) -/

/-- one `add` of a valid capability keeps a pair `b` / `nb` of mutual inverses decided: whichever
of the two was in the set stays, unless it is the inverse of what is added — and then what is
added is the other one -/
theorem add_keeps_decided {s s' : CapSet} {x b nb : Str} (hx : validCap x = true)
    (hb : invertCapability b = .ok nb) (hnb : invertCapability nb = .ok b)
    (h : CapSet.add s x = .ok s') (hd : b ∈ s ∨ nb ∈ s) : b ∈ s' ∨ nb ∈ s' := by
  have hvc := validCap_toLower hx
  obtain ⟨inv, hinv⟩ := invert_ok_of_valid hvc
  obtain ⟨_, hii, _⟩ := invert_involutive hvc hinv
  have hm := add_mem_iff hinv h
  rcases hd with hd | hd
  · by_cases e : b = inv
    · right
      rw [hm]; left
      rw [← e, hb] at hii
      injection hii
    · left; rw [hm]; exact Or.inr ⟨hd, e⟩
  · by_cases e : nb = inv
    · left
      rw [hm]; left
      rw [← e, hnb] at hii
      injection hii
    · right; rw [hm]; exact Or.inr ⟨hd, e⟩

theorem reload_fold_decided (l : List Str) (hl : ∀ x ∈ l, validCap x = true) {b nb : Str}
    (hb : invertCapability b = .ok nb) (hnb : invertCapability nb = .ok b) (s : CapSet) (hd : b ∈ s ∨ nb ∈ s) :
    b ∈ l.foldl (fun s x => match CapSet.add s x with | .ok s' => s' | .error _ => s) s ∨
    nb ∈ l.foldl (fun s x => match CapSet.add s x with | .ok s' => s' | .error _ => s) s := by
  induction l generalizing s with
  | nil => exact hd
  | cons x rest ih =>
    simp only [List.foldl_cons]
    apply ih (fun y hy => hl y (List.mem_cons_of_mem _ hy))
    cases ha : CapSet.add s x with
    | error e => exact hd
    | ok s' => exact add_keeps_decided (hl x List.mem_cons_self) hb hnb ha hd

/-- table obligation on the extracted `defaultOff` list: each entry and its anti-capability are
mutual inverses, and a fresh channel carries the anti-capability -/
def offOK (b : Str) : Bool :=
  (match invertCapability b with | .ok y => y == ('-' :: b) | .error _ => false) &&
  (match invertCapability ('-' :: b) with | .ok y => y == b | .error _ => false) &&
  List.elem ('-' :: b) Channel.default.caps

/-- **After channels.conf is written and read back, no channel leaves `op`, `halfop`, `voice` or
`protected` to its default**: every channel record holds each of them or its anti-capability
(the constructor of `IrcChannel` puts the anti-capabilities in, the `capability` lines of the file
can only turn one into the other).  So `#chan,op` is never answered by `defaultAllow` after a
restart. -/
theorem reload_decides_defaultOff (db : Db) (hdb : ∀ p ∈ db.channels, ∀ x ∈ p.2.caps, validCap x = true)
    (p : Str × Channel) (hp : p ∈ db.reloadChannels.channels) (b : Str) (hb : b ∈ Gen.channelDefaultOff) :
    b ∈ p.2.caps ∨ ('-' :: b) ∈ p.2.caps := by
  unfold Db.reloadChannels at hp
  simp only [List.mem_map] at hp
  obtain ⟨q, hq, e⟩ := hp
  subst e
  simp only [Channel.reloaded]
  have hall : Gen.channelDefaultOff.all offOK = true := by decide
  have hob := List.all_eq_true.1 hall b hb
  unfold offOK at hob
  simp only [Bool.and_eq_true] at hob
  obtain ⟨⟨h1, h2⟩, h3⟩ := hob
  have e1 : invertCapability b = .ok ('-' :: b) := by
    cases hi : invertCapability b with
    | ok y => rw [hi] at h1; simp only [beq_iff_eq] at h1; rw [h1]
    | error e => rw [hi] at h1; cases h1
  have e2 : invertCapability ('-' :: b) = .ok b := by
    cases hi : invertCapability ('-' :: b) with
    | ok y => rw [hi] at h2; simp only [beq_iff_eq] at h2; rw [h2]
    | error e => rw [hi] at h2; cases h2
  exact reload_fold_decided q.2.caps (hdb q hq) e1 e2 _ (Or.inr (List.mem_of_elem_eq_true h3))

/-- a fresh channel survives the round trip unchanged -/
theorem reload_default : Channel.default.reloaded = Channel.default := by decide

end C03
