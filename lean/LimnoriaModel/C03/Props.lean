/-
C03 — property theorems: capability decisions follow the documented precedence.
(Helper lemmas live in `Lemmas.lean`; the decision list `Spec.decide`, the domain `validCap`
and the database invariant `Db.wfB` are defined in `Spec.lean`.)
-/
import LimnoriaModel.C03.Lemmas
namespace C03
open Py

/-! ## Obligations on the extracted tables
`rfc1459_table_ok` (the case table never touches a blank or a structural character, its images
are fixed points and absorb ASCII lowering), `chanTypes_no_dash`, `chanTypes_no_o`,
`channel_default_ok` are proved by `decide` in `Lemmas.lean` against what `/repo` says now. -/

theorem lookup_found_mem {db : Db} {now : Int} {h : Str} {u : User}
    (hl : db.lookup now h = .found u) : u ∈ db.users := by
  unfold Db.lookup at hl
  by_cases hh : isUserHostmask h = true
  · simp only [hh, if_true] at hl
    generalize hf : db.users.filter (fun u => u.checkHostmask db.timeout now h true) = l at hl
    match l, hl with
    | [v], hl =>
      injection hl with hl; subst hl
      have : v ∈ db.users.filter (fun u => u.checkHostmask db.timeout now h true) := by
        rw [hf]; exact List.mem_singleton.2 rfl
      exact (List.mem_filter.1 this).1
  · simp only [hh, Bool.false_eq_true, if_false] at hl
    cases hf : db.users.find? (fun u => asciiLower u.name == asciiLower h) with
    | none => rw [hf] at hl; cases hl
    | some v =>
      rw [hf] at hl
      injection hl with hl; subst hl
      exact List.mem_of_find?_eq_some hf

theorem recognise_mem {db : Db} {now : Int} {h : Str} {u : User}
    (hr : db.recognise now h = some u) : u ∈ db.users := by
  unfold Db.recognise at hr
  cases hl : db.lookup now h with
  | found v =>
    rw [hl] at hr
    simp only at hr
    split at hr
    · cases hr
    · injection hr with hr; subst hr; exact lookup_found_mem hl
  | missing => rw [hl] at hr; cases hr
  | duplicate => rw [hl] at hr; cases hr

/-- lowering a valid capability gives `render` of lowered, well-formed parts -/
theorem valid_lower {cap : Str} (hv : validCap cap = true) :
    ∃ (a : Bool) (ch : Option Str) (b : Str), LCap ch b ∧ toLower cap = render a ch b ∧
      isAntiCapability cap = a := by
  obtain ⟨a, ch, b, hch, hb, e⟩ := validCap_shape hv
  refine ⟨a, ch.map toLower, toLower b, ⟨chanOK_toLower hch, baseOK_toLower hb, ?_, toLower_idem b⟩, ?_, ?_⟩
  · cases ch with
    | none => rfl
    | some c => simp only [Option.map_some, toLower_idem]
  · rw [e, toLower_render]
  · rw [e, isAnti_render hch hb]

/-- **Refinement.**  For every well-formed database, time, sender, valid capability string and
flag combination, `checkCapability` returns — without raising — the answer of the documented
decision list: the sender holds the positive form (owner / explicit user setting / channel op /
channel setting / channel default / global default set / registered-users set / default flag,
in this order; unrecognised senders only the channel and global defaults), exclusive-or the
polarity of the question. -/
theorem check_eq_spec (db : Db) (hdb : db.wfB = true) (now : Int) (h cap : Str) (fl : Flags)
    (hv : validCap cap = true) :
    db.checkCapability now h cap fl = .ok (Spec.decide db now h cap fl) := by
  obtain ⟨a, ch, b, hl, e, _⟩ := valid_lower hv
  rw [← checkCapability_lower, e]
  unfold Spec.decide
  simp only [e, parseCap_render hl.chOK hl.bOK]
  unfold Db.checkCapability
  cases hr : db.recognise now h with
  | none => exact checkUnknown_spec hl a hdb fl
  | some u => exact checkKnown_spec hl a hdb ((wfB_spec hdb).1 u (recognise_mem hr)) fl

example : validCap ['#', 'c', ',', '-', 'o', 'p'] = true := by decide

/-- **A capability and its anti-capability get opposite answers** — for every state, sender,
valid capability and all eight flag combinations (after the repair of the
`ignoreDefaultAllow` branch). -/
theorem anti_symm (db : Db) (hdb : db.wfB = true) (now : Int) (h cap : Str) (fl : Flags)
    (hv : validCap cap = true) :
    ∃ inv r, invertCapability cap = .ok inv ∧ validCap inv = true ∧
      db.checkCapability now h cap fl = .ok r ∧ db.checkCapability now h inv fl = .ok (!r) := by
  obtain ⟨a, ch, b, hch, hb, e⟩ := validCap_shape hv
  have hvi : validCap (render (!a) ch b) = true := validCap_render hch hb
  refine ⟨render (!a) ch b, Spec.decide db now h cap fl, ?_, hvi, check_eq_spec db hdb now h cap fl hv, ?_⟩
  · rw [e]; exact invert_render hch hb
  · rw [check_eq_spec db hdb now h _ fl hvi]
    have hl : LCap (ch.map toLower) (toLower b) :=
      ⟨chanOK_toLower hch, baseOK_toLower hb, by cases ch <;> simp [toLower_idem], toLower_idem b⟩
    unfold Spec.decide
    simp only [e, toLower_render, parseCap_render hl.chOK hl.bOK]
    cases a <;> cases Spec.holds db (db.recognise now h) (ch.map toLower) (toLower b) fl <;> rfl

/-- **An owner holds every capability and no anti-capability**: a recognised, non-ignored
owner is granted every valid capability and refused every anti-capability (default
`ignoreOwner`; any `ignoreChannelOp`/`ignoreDefaultAllow`). -/
theorem owner_all (db : Db) (hdb : db.wfB = true) (now : Int) (h cap : Str) (fl : Flags)
    (hv : validCap cap = true) (u : User) (hr : db.recognise now h = some u)
    (hi : u.ignore = false) (ho : ownerS ∈ u.caps) (hio : fl.ignoreOwner = false) :
    db.checkCapability now h cap fl = .ok (!isAntiCapability cap) := by
  obtain ⟨a, ch, b, hl, e, ha⟩ := valid_lower hv
  rw [check_eq_spec db hdb now h cap fl hv, ha]
  unfold Spec.decide
  simp only [e, parseCap_render hl.chOK hl.bOK, hr]
  have : Spec.holds db (some u) ch b fl = true := by
    unfold Spec.holds Spec.userLevel
    simp only [Option.bind_some, ho, decide_true, Bool.or_true, Bool.true_or, if_true, hi,
      Bool.false_eq_true, if_false, hio, Bool.not_false, Bool.and_self]
    split <;> rfl
  rw [this]; cases a <;> rfl

/-- **The answer does not depend on the case of names**: two capability strings that are equal
under IRC case folding (ASCII letters and the pairs `[]\~` / `{}|^`, in the capability name and
in the channel name) get the same outcome — for *every* string, errors included. -/
theorem case_insens (db : Db) (now : Int) (h cap cap' : Str) (fl : Flags)
    (hc : toLower cap = toLower cap') :
    db.checkCapability now h cap fl = db.checkCapability now h cap' fl := by
  rw [← checkCapability_lower db now h cap, ← checkCapability_lower db now h cap', hc]

example : toLower ['#', 'C', '[', ',', 'F', 'o', '~'] = toLower ['#', 'c', '{', ',', 'f', 'O', '^'] := by decide

/-- stored capabilities are case-folded on the way in -/
theorem add_case_insens (s : CapSet) (cap cap' : Str) (hc : toLower cap = toLower cap') :
    CapSet.add s cap = CapSet.add s cap' := by
  unfold CapSet.add; rw [hc]

/-- **Unrecognised senders get only the defaults**: when the sender is not recognised, the
outcome is a function of the channel table, the global default set and the default flag — user
records, the registered-users set, the clock and the hostmask itself are irrelevant. -/
theorem unknown_only_defaults (db db' : Db) (now now' : Int) (h h' cap : Str) (fl : Flags)
    (hu : db.recognise now h = none) (hu' : db'.recognise now' h' = none)
    (hc : db.channels = db'.channels) (hd : db.defaults = db'.defaults)
    (hf : db.defaultFlag = db'.defaultFlag) :
    db.checkCapability now h cap fl = db'.checkCapability now' h' cap fl := by
  unfold Db.checkCapability
  rw [hu, hu']
  unfold Db.checkUnknown Db.globalsUnknown Db.getChannel
  simp only [hc, hd, hf]

/-! ## algebra of capability strings -/

/-- inverting twice gives the capability back -/
theorem invert_invert (cap : Str) (hv : validCap cap = true) :
    ∃ inv, invertCapability cap = .ok inv ∧ invertCapability inv = .ok cap := by
  obtain ⟨a, ch, b, hch, hb, e⟩ := validCap_shape hv
  refine ⟨render (!a) ch b, by rw [e]; exact invert_render hch hb, ?_⟩
  rw [invert_render hch hb, e, Bool.not_not]

/-- inversion flips the polarity -/
theorem isAnti_invert (cap inv : Str) (hv : validCap cap = true) (hi : invertCapability cap = .ok inv) :
    isAntiCapability inv = !isAntiCapability cap := by
  obtain ⟨a, ch, b, hch, hb, e⟩ := validCap_shape hv
  rw [e, invert_render hch hb] at hi
  injection hi with hi
  rw [← hi, e, isAnti_render hch hb, isAnti_render hch hb]

/-- `fromChannelCapability (makeChannelCapability ch c) = (ch, c)` -/
theorem fromChannel_makeChannel (ch c : Str) (hch : isChannel ch = true) (hc : isCapability c = true) :
    ∃ x, makeChannelCapability ch c = .ok x ∧ fromChannelCapability x = .ok (ch, c) := by
  refine ⟨ch ++ ',' :: c, ?_, ?_⟩
  · unfold makeChannelCapability; simp [hch, hc]
  · unfold fromChannelCapability; rw [chanSplit_chan hch hc]

example : isChannel ['#', 'c'] = true ∧ isCapability ['o', 'p'] = true := by decide

end C03
