/-
C03 — model of Limnoria's capability layer (src/ircdb.py, src/ircutils.py).

This file is the shared API for C01, C02, C03 and C04.  Everything is a small total function
over `Py.Str = List Char`; Python exceptions are the `Err` constructors of `R = Except Err`.

Sections
  1. `toLower` (rfc1459, table extracted from the source), `isCapability`, `isChannel`
  2. capability string algebra                     ircdb.py:39-102
  3. `CapSet` (CapabilitySet) and the `u…` functions (UserCapabilitySet)   ircdb.py:109-197
  4. hostmasks: `isUserHostmask`, `glob` (= ircutils.hostmaskPatternEqual)  ircutils.py:62-65,171-208
  5. `User`, `Channel`, `Db`; cache-free, effect-free user lookup `Db.lookup` / `Db.recognise`
  6. `Db.checkCapability` (+ `_checkCapabilityForUnknownUser`, `checkCapabilities`)  ircdb.py:1203-1311
  7. edits (add/remove capability, flags, defaults)

What is NOT here: the stateful lookup with `_hostmaskCache`/`_nameCache`, lazy auth expiry and
duplicate-hostmask removal (C04 models those and proves they answer what `Db.lookup` answers);
`world.testing` short-cut of `checkCapability` (the harness runs with `world.testing = False`);
Unicode behaviour of `str.lower()` / `re.I` outside ASCII (generators stay in the modelled
alphabet; stated in the trusted base).
-/
import LimnoriaModel.Py.Basic
import LimnoriaModel.Gen.IrcDbCaps
namespace C03
open Py

/-- Python exceptions that the capability layer raises -/
inductive Err
  | assertion   -- AssertionError
  | key         -- KeyError
  | value       -- ValueError (incl. DuplicateHostmask)
deriving DecidableEq, Repr

abbrev R := Except Err

/-! ## 1. case folding and basic syntactic classes -/

/-- one character of `ircutils._rfc1459trans` (a `MultipleReplacer` whose keys are single
characters, so the replacement is character by character) -/
def toLowerChar (c : Char) : Char :=
  match Gen.rfc1459Table.lookup c with
  | some l => l
  | none => c

/-- `ircutils.toLower(s)` with the default (rfc1459) casemapping -/
def toLower (s : Str) : Str := s.map toLowerChar

/-- `ircutils.strEqual` -/
def strEqual (a b : Str) : Bool := toLower a == toLower b

/-- `ircdb.isCapability`: `capability.split() == [capability]` — a single word: not empty and
no blank anywhere (`C03.isCapability_eq_splitWs` in Lemmas ties this to `Py.splitWs`). -/
def isCapability (s : Str) : Bool := !s.isEmpty && s.all (fun c => !isSpace c)

/-- `ircutils.isChannel(s)` with the default `chantypes`/`channellen` -/
def isChannel (s : Str) : Bool :=
  match s with
  | [] => false
  | c :: _ =>
    !s.contains ',' && !s.contains '\x07' && Gen.chanTypes.contains c &&
      decide (s.length ≤ Gen.channelLen) && s.all (fun x => !isSpace x)      -- `s.split() == [s]`

/-! ## 2. capability string algebra -/

/-- `(channel, capability)` when `isChannelCapability`, i.e. the guarded
`fromChannelCapability`: the text before the first `,` is a channel and the rest a capability -/
def chanSplit (cap : Str) : Option (Str × Str) :=
  match split1 ',' cap with
  | some (ch, c) => if isChannel ch && isCapability c then some (ch, c) else none
  | none => none

/-- `ircdb.isChannelCapability` -/
def isChannelCapability (cap : Str) : Bool := (chanSplit cap).isSome

/-- `ircdb.fromChannelCapability` (asserts `isChannelCapability`) -/
def fromChannelCapability (cap : Str) : R (Str × Str) :=
  match chanSplit cap with
  | some p => .ok p
  | none => .error .assertion

/-- the part of a capability that carries the polarity: the text after `#channel,` for a
channel capability, the whole string otherwise -/
def capPart (cap : Str) : Str :=
  match chanSplit cap with
  | some (_, c) => c
  | none => cap

/-- `ircdb.isAntiCapability` -/
def isAntiCapability (cap : Str) : Bool :=
  isCapability (capPart cap) && (capPart cap).head? == some '-'

/-- `ircdb.makeChannelCapability` -/
def makeChannelCapability (ch c : Str) : R Str :=
  if !isCapability c then .error .assertion
  else if !isChannel ch then .error .assertion
  else .ok (ch ++ ',' :: c)

/-- `ircdb.makeAntiCapability` -/
def makeAntiCapability (cap : Str) : R Str :=
  if !isCapability cap then .error .assertion
  else if isAntiCapability cap then .error .assertion
  else match chanSplit cap with
    | some (ch, c) => makeChannelCapability ch ('-' :: c)
    | none => .ok ('-' :: cap)

/-- `ircdb.unAntiCapability` -/
def unAntiCapability (cap : Str) : R Str :=
  if !isCapability cap then .error .assertion
  else if !isAntiCapability cap then .error .value
  else match chanSplit cap with
    | some (ch, c) => .ok (ch ++ ',' :: c.drop 1)
    | none => .ok (cap.drop 1)

/-- `ircdb.invertCapability` -/
def invertCapability (cap : Str) : R Str :=
  if !isCapability cap then .error .assertion
  else if isAntiCapability cap then unAntiCapability cap
  else makeAntiCapability cap

/-- `ircdb._x(capability, ret)` -/
def applyAnti (cap : Str) (ret : Bool) : Bool :=
  if isAntiCapability cap then !ret else ret

def ownerS : Str := ['o', 'w', 'n', 'e', 'r']
def antiOwnerS : Str := '-' :: ownerS          -- ircdb.antiOwner = makeAntiCapability('owner')
def opS : Str := ['o', 'p']

/-! ## 3. capability sets

A Python `set` of strings is a duplicate-free `List Str`; only membership is ever observed. -/

abbrev CapSet := List Str

namespace CapSet

/-- `set.add` -/
def insert (s : CapSet) (c : Str) : CapSet := if c ∈ s then s else s ++ [c]

/-- `set.remove` of an element known to be present / `discard` -/
def erase (s : CapSet) (c : Str) : CapSet := s.filter (fun x => decide (x ≠ c))

/-- `CapabilitySet.add`: lower, drop the inverse if present, insert -/
def add (s : CapSet) (cap : Str) : R CapSet :=
  let c := toLower cap
  match invertCapability c with
  | .error e => .error e
  | .ok inv => .ok (insert (erase s inv) c)

/-- `CapabilitySet.remove` (KeyError when absent) -/
def remove (s : CapSet) (cap : Str) : R CapSet :=
  let c := toLower cap
  if c ∈ s then .ok (erase s c) else .error .key

/-- `CapabilitySet.__contains__`: the capability or its inverse is in the set.  The inverse
is only computed (and its assertion only evaluated) when the capability itself is absent. -/
def contains (s : CapSet) (cap : Str) : R Bool :=
  let c := toLower cap
  if c ∈ s then .ok true
  else match invertCapability c with
    | .error e => .error e
    | .ok inv => .ok (decide (inv ∈ s))

/-- `CapabilitySet.check` -/
def check (s : CapSet) (cap : Str) : R Bool :=
  let c := toLower cap
  if c ∈ s then .ok true
  else match invertCapability c with
    | .error e => .error e
    | .ok inv => if inv ∈ s then .ok false else .error .key

/-- `CapabilitySet(capabilities)`: add one by one -/
def ofList : List Str → R CapSet
  | caps => caps.foldlM add []

end CapSet

/-- `UserCapabilitySet.__contains__(capability, ignoreOwner)`.
Python precedence: `(not ignoreOwner and c == 'owner') or c == antiOwner`. -/
def ucontains (s : CapSet) (cap : Str) (ignoreOwner : Bool := false) : R Bool :=
  let c := toLower cap
  if (!ignoreOwner && c == ownerS) || c == antiOwnerS then .ok true
  else if ignoreOwner then CapSet.contains s c
  else match CapSet.contains s ownerS with
    | .error e => .error e
    | .ok true => .ok true
    | .ok false => CapSet.contains s c

/-- `UserCapabilitySet.check(capability, ignoreOwner)` -/
def ucheck (s : CapSet) (cap : Str) (ignoreOwner : Bool := false) : R Bool :=
  let c := toLower cap
  if c == ownerS || c == antiOwnerS then
    match CapSet.contains s ownerS with
    | .error e => .error e
    | .ok true => .ok (!isAntiCapability c)
    | .ok false => .ok (isAntiCapability c)
  else if ignoreOwner then CapSet.check s c
  else match CapSet.contains s ownerS with
    | .error e => .error e
    | .ok true => .ok (!isAntiCapability c)
    | .ok false => CapSet.check s c

/-- `UserCapabilitySet.add`: `-owner` is refused by an assertion -/
def uadd (s : CapSet) (cap : Str) : R CapSet :=
  let c := toLower cap
  if c == antiOwnerS then .error .assertion else CapSet.add s c

/-! ## 4. hostmasks -/

/-- `\S+@\S+` on a blank-free string: some `@` that is neither the first nor the last character -/
def hasMidAt : Str → Bool
  | [] => false
  | [_] => false
  | _ :: c :: rest => (c == '@' && !rest.isEmpty) || hasMidAt (c :: rest)

/-- `\S+!\S+@\S+` on a blank-free string -/
def userHostBody : Str → Bool
  | [] => false
  | [_] => false
  | _ :: c :: rest => (c == '!' && hasMidAt rest) || userHostBody (c :: rest)

/-- `ircutils.isUserHostmask`: `re.match(r'^\S+!\S+@\S+$', s)`.  `$` also matches just before a
final newline, so one trailing LF is tolerated (a quirk of the code, kept). -/
def isUserHostmask (s : Str) : Bool :=
  let body := if s.getLast? == some '\n' then s.dropLast else s
  body.all (fun c => !isSpace c) && userHostBody body

/-- one pattern character against one hostmask character in the regexp that
`_hostmaskPatternEqual` builds (compiled with `re.I`): the four rfc1459 pairs are classes, any
other character is `re.escape`d and compared case-insensitively for ASCII letters only (the
regexp is compiled with `re.I | re.A`) -/
def patCharMatch (p c : Char) : Bool :=
  if p == '[' || p == '{' then c == '[' || c == '{'
  else if p == '}' || p == ']' then c == '}' || c == ']'
  else if p == '|' || p == '\\' then c == '|' || c == '\\'
  else if p == '^' || p == '~' then c == '~' || c == '^'
  else asciiLowerChar p == asciiLowerChar c

/-- `ircutils._hostmaskPatternClass`: a canonical representative of the characters a non-wildcard
pattern character matches (`patCharMatch p c ↔ patClass p = patClass c`, `C04.patCharMatch_eq_cls`) -/
def patClass (c : Char) : Char :=
  if c == '[' || c == '{' then '{'
  else if c == '}' || c == ']' then '}'
  else if c == '|' || c == '\\' then '|'
  else if c == '^' || c == '~' then '^'
  else asciiLowerChar c

/-- `.*` followed by the continuation `k`: `.` does not match LF -/
def starAux (k : Str → Bool) : Str → Bool
  | [] => k []
  | c :: cs => k (c :: cs) || (c != '\n' && starAux k cs)

/-- `ircutils.hostmaskPatternEqual(pattern, hostmask)` (the two module-level memo tables only
cache this pure function).  `*` → `.*`, `?` → `.`, anchored by `match` and a final `$`
(which also accepts one trailing LF). -/
def glob : Str → Str → Bool
  | [], h => h == [] || h == ['\n']
  | p :: ps, h =>
    if p == '*' then starAux (glob ps) h
    else match h with
      | [] => false
      | c :: cs =>
        if p == '?' then c != '\n' && glob ps cs
        else patCharMatch p c && glob ps cs

/-- last row of the table of `hostmaskPatternsIntersect`: the empty pattern against `q[j:]` -/
def interRowNil : Str → Bool
  | [] => true
  | b :: q => b == '*' && interRowNil q

/-- one row of the table from the row below: `a :: p` against every suffix of `q` -/
def interRow (a : Char) (below : Str → Bool) : Str → Bool
  | [] => a == '*' && below []
  | b :: q =>
    if a == '*' then below (b :: q) || interRow a below q || below q
    else if b == '*' then interRow a below q || below (b :: q) || below q
    else if a == '?' || b == '?' then below q
    else below q && patClass a == patClass b

/-- `ircutils.hostmaskPatternsIntersect(p, q)`: some string is matched by both patterns
(dynamic programming over the suffixes; `C04.intersect_complete` / `C04.intersect_sound`) -/
def intersect : Str → Str → Bool
  | [] => interRowNil
  | a :: p => interRow a (intersect p)

/-! ## 5. users, channels, database -/

structure User where
  id : Nat
  name : Str := []
  /-- `IrcUser.capabilities` (a UserCapabilitySet) -/
  caps : CapSet := []
  ignore : Bool := false
  secure : Bool := false
  /-- `IrcUser.hostmasks` (an IrcSet) in some enumeration order -/
  hostmasks : List Str := []
  /-- `IrcUser.auth`: `(time, hostmask)` logins, oldest first -/
  auth : List (Int × Str) := []
deriving DecidableEq, Repr

structure Channel where
  defaultAllow : Bool := true
  caps : CapSet := []
deriving DecidableEq, Repr

/-- the loop of `IrcChannel.__init__`: every `defaultOff` capability not mentioned gets its
anti-capability -/
def Channel.initCaps (caps : CapSet) : R CapSet :=
  Gen.channelDefaultOff.foldlM (fun s c =>
    match CapSet.contains s c with
    | .error e => .error e
    | .ok true => .ok s
    | .ok false =>
      match makeAntiCapability c with
      | .error e => .error e
      | .ok a => CapSet.add s a) caps

/-- `IrcChannel()` -/
def Channel.default : Channel :=
  { defaultAllow := true,
    caps := match Channel.initCaps [] with
      | .ok s => s
      | .error _ => [] }

structure Db where
  /-- `UsersDictionary.users` in dict (insertion) order; ids are distinct -/
  users : List User := []
  /-- `ChannelsDictionary.channels`, keyed by `chanKey` -/
  channels : List (Str × Channel) := []
  /-- `conf.supybot.capabilities()` -/
  defaults : CapSet := []
  /-- `conf.supybot.capabilities.registeredUsers()` -/
  registered : CapSet := []
  /-- `conf.supybot.capabilities.default()` -/
  defaultFlag : Bool := true
  /-- `conf.supybot.databases.users.timeoutIdentification()` (0 = never; a negative value is
  truthy in the code and expires every login at once) -/
  timeout : Int := 0
deriving Repr

/-- key under which `ChannelsDictionary` stores a channel: `channel.lower()` then the IrcDict
key function `toLower` -/
def chanKey (ch : Str) : Str := toLower (asciiLower ch)

/-- `channels.getChannel(ch)`: the stored record, or a fresh `IrcChannel()` (which the code
also stores; see `Db.touchChannel`) -/
def Db.getChannel (db : Db) (ch : Str) : Channel :=
  match db.channels.lookup (chanKey ch) with
  | some c => c
  | none => Channel.default

/-- the side effect of `getChannel` on the channel table -/
def Db.touchChannel (db : Db) (ch : Str) : Db :=
  match db.channels.lookup (chanKey ch) with
  | some _ => db
  | none => { db with channels := db.channels ++ [(chanKey ch, Channel.default)] }

/-- a login entry that `checkHostmask` does not expire at time `now` -/
def authLive (timeout now : Int) (e : Int × Str) : Bool :=
  !(timeout != 0 && decide (e.1 + timeout < now))

/-- the auth loop of `IrcUser.checkHostmask`: an unexpired login from exactly this hostmask -/
def User.authMatch (u : User) (timeout now : Int) (h : Str) : Bool :=
  u.auth.any (fun e => authLive timeout now e && e.2 == h)

/-- the pattern loop of `IrcUser.checkHostmask`: the first registered pattern matching `h` -/
def User.patMatch (u : User) (h : Str) : Option Str :=
  u.hostmasks.find? (fun p => glob p h)

/-- truth value of `IrcUser.checkHostmask(h, useAuth)` (it returns `True`, the matching
pattern, or `False`) -/
def User.checkHostmask (u : User) (timeout now : Int) (h : Str) (useAuth : Bool) : Bool :=
  (useAuth && u.authMatch timeout now h) ||
    (match u.patMatch h with
     | some p => !p.isEmpty
     | none => false)

/-- outcome of `users.getUser(s)` -/
inductive Lookup
  | found (u : User)
  | missing            -- KeyError
  | duplicate          -- DuplicateHostmask (a ValueError), or the KeyError raised while removing
deriving Repr

/-- `UsersDictionary.getUser(s)` for a string, computed without caches and without effects:
a user hostmask resolves to the unique user whose `checkHostmask` accepts it; anything else is
a user name compared with `str.lower()` (ASCII part modelled). -/
def Db.lookup (db : Db) (now : Int) (s : Str) : Lookup :=
  if isUserHostmask s then
    match db.users.filter (fun u => u.checkHostmask db.timeout now s true) with
    | [] => .missing
    | [u] => .found u
    | _ => .duplicate
  else
    match db.users.find? (fun u => asciiLower u.name == asciiLower s) with
    | some u => .found u
    | none => .missing

/-- the `try:` block of `checkCapability`: a string that is not a user hostmask is unknown; else the
recognised user, with the `secure` re-check
(`u.secure and not u.checkHostmask(hostmask, useAuth=False)` ⇒ unknown) -/
def Db.recognise (db : Db) (now : Int) (h : Str) : Option User :=
  -- a prefix that is not nick!user@host (server, service, bare nick) is nobody: not an account *name*
  if !isUserHostmask h then none else
  match db.lookup now h with
  | .found u => if u.secure && !u.checkHostmask db.timeout now h false then none else some u
  | .missing => none
  | .duplicate => none

/-! ## 6. the decision procedure -/

structure Flags where
  ignoreOwner : Bool := false
  ignoreChannelOp : Bool := false
  ignoreDefaultAllow : Bool := false
deriving DecidableEq, Repr

/-- `IrcUser._checkCapability(capability, ignoreOwner)` -/
def User.checkCapability (u : User) (cap : Str) (ignoreOwner : Bool := false) : R Bool :=
  if u.ignore then .ok (isAntiCapability cap) else ucheck u.caps cap ignoreOwner

/-- `IrcChannel._checkCapability(capability)` -/
def Channel.checkCapability (c : Channel) (cap : Str) : R Bool :=
  if !isCapability cap then .error .assertion
  else match CapSet.contains c.caps cap with
    | .error e => .error e
    | .ok true => CapSet.check c.caps cap
    | .ok false => .ok (if isAntiCapability cap then !c.defaultAllow else c.defaultAllow)

/-- the channel record's say on `c` (the part of the capability after `#channel,`):
`if c in chan.capabilities: return chan._checkCapability(c)`, otherwise `_x(c, dflt)` -/
def Channel.decide (chan : Channel) (c : Str) (dflt : Bool) : R Bool :=
  match CapSet.contains chan.caps c with
  | .error e => .error e
  | .ok true => chan.checkCapability c
  | .ok false => .ok (applyAnti c dflt)

/-- global part of `_checkCapabilityForUnknownUser` -/
def Db.globalsUnknown (db : Db) (cap : Str) (ignoreDefaultAllow : Bool) : R Bool :=
  match CapSet.contains db.defaults cap with
  | .error e => .error e
  | .ok true => CapSet.check db.defaults cap
  | .ok false => .ok (applyAnti cap (if ignoreDefaultAllow then false else db.defaultFlag))

/-- `_checkCapabilityForUnknownUser` -/
def Db.checkUnknown (db : Db) (cap : Str) (ignoreDefaultAllow : Bool) : R Bool :=
  match chanSplit cap with
  | some (ch, c) =>
    let chan := db.getChannel ch
    match chan.decide c (!ignoreDefaultAllow && chan.defaultAllow) with
    | .error .key => db.globalsUnknown c ignoreDefaultAllow     -- `except KeyError: pass`
    | r => r
  | none => db.globalsUnknown cap ignoreDefaultAllow

/-- first stage for a recognised user:
`if capability in u.capabilities: try: return u._checkCapability(capability, ignoreOwner) except KeyError: pass`.
`none` = fall through. -/
def userStage (u : User) (cap : Str) (fl : Flags) : R (Option Bool) :=
  match ucontains u.caps cap with
  | .error e => .error e
  | .ok false => .ok none
  | .ok true =>
    match u.checkCapability cap fl.ignoreOwner with
    | .error .key => .ok none
    | .error e => .error e
    | .ok b => .ok (some b)

/-- `u._checkCapability('#channel,op')` guarded by `ignoreChannelOp` and `except KeyError` -/
def chanOpStage (u : User) (ch : Str) (fl : Flags) : R Bool :=
  if fl.ignoreChannelOp then .ok false
  else match makeChannelCapability ch opS with
    | .error e => .error e
    | .ok chanop =>
      match u.checkCapability chanop with
      | .error .key => .ok false
      | r => r

/-- channel stage for a recognised user (`capability` already split into `ch`, `c`) -/
def Db.channelStage (db : Db) (u : User) (ch c : Str) (fl : Flags) : R Bool :=
  match chanOpStage u ch fl with
  | .error e => .error e
  | .ok true => .ok (applyAnti c true)
  | .ok false =>
    let chan := db.getChannel ch
    -- `elif not ignoreDefaultAllow: return _x(c, chan.defaultAllow)  else: return _x(c, False)`
    chan.decide c (if !fl.ignoreDefaultAllow then chan.defaultAllow else false)

/-- global stage for a recognised user -/
def Db.globalsKnown (db : Db) (cap : Str) (ignoreDefaultAllow : Bool) : R Bool :=
  match CapSet.contains db.defaults cap with
  | .error e => .error e
  | .ok true => CapSet.check db.defaults cap
  | .ok false =>
    match CapSet.contains db.registered cap with
    | .error e => .error e
    | .ok true => CapSet.check db.registered cap
    | .ok false => .ok (applyAnti cap (if ignoreDefaultAllow then false else db.defaultFlag))

/-- `checkCapability` once the user is recognised -/
def Db.checkKnown (db : Db) (u : User) (cap : Str) (fl : Flags) : R Bool :=
  match userStage u cap fl with
  | .error e => .error e
  | .ok (some b) => .ok b
  | .ok none =>
    match chanSplit cap with
    | some (ch, c) => db.channelStage u ch c fl
    | none => db.globalsKnown cap fl.ignoreDefaultAllow

/-- `ircdb.checkCapability(hostmask, capability, ignoreOwner, ignoreChannelOp, ignoreDefaultAllow)`
with `world.testing = False`, at time `now` -/
def Db.checkCapability (db : Db) (now : Int) (h cap : Str) (fl : Flags := {}) : R Bool :=
  match db.recognise now h with
  | none => db.checkUnknown cap fl.ignoreDefaultAllow
  | some u => db.checkKnown u cap fl

/-- `ircdb.checkCapabilities(hostmask, capabilities, requireAll)` -/
def Db.checkCapabilities (db : Db) (now : Int) (h : Str) (caps : List Str) (requireAll : Bool := false) : R Bool :=
  match caps with
  | [] => .ok requireAll
  | c :: rest =>
    match db.checkCapability now h c with
    | .error e => .error e
    | .ok b =>
      if requireAll then (if !b then .ok false else db.checkCapabilities now h rest requireAll)
      else (if b then .ok true else db.checkCapabilities now h rest requireAll)

/-! ## 7. edits -/

/-- `IrcUser.addCapability` -/
def User.addCapability (u : User) (cap : Str) : R User :=
  match uadd u.caps cap with
  | .error e => .error e
  | .ok s => .ok { u with caps := s }

/-- `IrcUser.removeCapability` -/
def User.removeCapability (u : User) (cap : Str) : R User :=
  match CapSet.remove u.caps cap with
  | .error e => .error e
  | .ok s => .ok { u with caps := s }

/-- `IrcChannel.addCapability` -/
def Channel.addCapability (c : Channel) (cap : Str) : R Channel :=
  if !isCapability cap then .error .assertion
  else match CapSet.add c.caps cap with
    | .error e => .error e
    | .ok s => .ok { c with caps := s }

/-- `IrcChannel.removeCapability` -/
def Channel.removeCapability (c : Channel) (cap : Str) : R Channel :=
  if !isCapability cap then .error .assertion
  else match CapSet.remove c.caps cap with
    | .error e => .error e
    | .ok s => .ok { c with caps := s }

/-- `IrcChannel.setDefaultCapability` -/
def Channel.setDefaultCapability (c : Channel) (b : Bool) : Channel := { c with defaultAllow := b }

/-- replace / append the record of user `u.id` (dict assignment `users[id] = u`) -/
def putUser : List User → User → List User
  | [], u => [u]
  | v :: vs, u => if v.id = u.id then u :: vs else v :: putUser vs u

def Db.putUser (db : Db) (u : User) : Db := { db with users := C03.putUser db.users u }

def Db.getUserById (db : Db) (id : Nat) : Option User := db.users.find? (fun u => u.id == id)

/-- dict assignment `channels[key] = c` -/
def putChannel : List (Str × Channel) → Str → Channel → List (Str × Channel)
  | [], k, c => [(k, c)]
  | (k', c') :: rest, k, c => if k' == k then (k, c) :: rest else (k', c') :: putChannel rest k c

/-- `channels.setChannel(ch, c)` -/
def Db.setChannel (db : Db) (ch : Str) (c : Channel) : Db :=
  { db with channels := putChannel db.channels (chanKey ch) c }

/-- `conf.supybot.capabilities.setValue(v)` (`DefaultCapabilities.setValue` without
`--allow-default-owner`): build the CapabilitySet, then add `-owner` unless it is literally an
element (plain set membership).  An assertion while building leaves the value unchanged. -/
def Db.setDefaults (db : Db) (v : List Str) : R Db :=
  match CapSet.ofList v with
  | .error e => .error e
  | .ok s =>
    if antiOwnerS ∈ s then .ok { db with defaults := s }
    else match CapSet.add s antiOwnerS with
      | .error e => .error e
      | .ok s' => .ok { db with defaults := s' }

/-- `conf.supybot.capabilities.registeredUsers.setValue(v)` -/
def Db.setRegistered (db : Db) (v : List Str) : R Db :=
  match CapSet.ofList v with
  | .error e => .error e
  | .ok s => .ok { db with registered := s }

/-- the database of a freshly configured bot: no users, no channels, the shipped defaults -/
def Db.initial : Db :=
  { defaults := match CapSet.ofList Gen.defaultCapabilities with
      | .ok s => s
      | .error _ => [],
    registered := match CapSet.ofList Gen.defaultCapabilitiesRegistered with
      | .ok s => s
      | .error _ => [],
    defaultFlag := Gen.defaultCapabilityFlag }

/-! ## channels.conf written and read back

`IrcChannel.preserve` writes `defaultAllow` and one `capability` line per element of the set;
`IrcChannelCreator` starts from `IrcChannel()` — whose constructor puts in the anti-capability of
every `defaultOff` capability — and `add`s every `capability` line to it.  So a channel comes
back with its explicit settings, and with `-op`, `-halfop`, `-voice`, `-protected` wherever the
file says nothing about them (also when somebody had removed one of those on purpose). -/

/-- one channel record after `flush` + `reload` -/
def Channel.reloaded (c : Channel) : Channel :=
  { c with caps := c.caps.foldl (fun s x =>
      match CapSet.add s x with
      | .ok s' => s'
      | .error _ => s) Channel.default.caps }

/-- `ChannelsDictionary.flush()` then `.reload()` -/
def Db.reloadChannels (db : Db) : Db :=
  { db with channels := db.channels.map (fun p => (p.1, p.2.reloaded)) }

end C03
