/-
C03 — helper lemmas: the rfc1459 table, `toLower` commuting with the string algebra, the shape of
valid capability strings, capability sets.
-/
import LimnoriaModel.C03.Spec
namespace C03
open Py

/-! ### the extracted case table -/

/-- characters whose identity the capability layer inspects -/
def specialChars : List Char := [',', '-', '\x07', '!', '@', '*', '?', '\n'] ++ Gen.chanTypes

/-- what the proofs need from `ircutils._rfc1459trans`: it never touches a blank or one of the
structural characters, its images are fixed points, and it absorbs ASCII lowering -/
def tableOkB (t : List (Char × Char)) : Bool :=
  t.all fun p =>
    !isSpace p.1 && !isSpace p.2 &&
    specialChars.all (fun k => p.1 != k && p.2 != k) &&
    (t.lookup p.2).isNone &&
    ((match t.lookup (asciiLowerChar p.2) with | some l => l | none => asciiLowerChar p.2) ==
     (match t.lookup (asciiLowerChar p.1) with | some l => l | none => asciiLowerChar p.1))

theorem lookup_mem {α β} [BEq α] [LawfulBEq α] {l : List (α × β)} {a : α} {b : β}
    (h : l.lookup a = some b) : (a, b) ∈ l := by
  induction l with
  | nil => simp [List.lookup] at h
  | cons p ps ih =>
    obtain ⟨k, v⟩ := p
    simp only [List.lookup] at h
    split at h
    · rename_i heq
      have : a = k := by simpa using heq
      subst this
      injection h with h; subst h
      exact List.mem_cons_self
    · exact List.mem_cons_of_mem _ (ih h)

theorem lookup_none_of_forall {α β} [BEq α] [LawfulBEq α] {l : List (α × β)} {a : α}
    (h : ∀ p ∈ l, p.1 ≠ a) : l.lookup a = none := by
  induction l with
  | nil => rfl
  | cons p ps ih =>
    obtain ⟨k, v⟩ := p
    simp only [List.lookup]
    have hk : k ≠ a := h (k, v) List.mem_cons_self
    have : (a == k) = false := by simp [Ne.symm hk]
    rw [this]
    exact ih (fun p hp => h p (List.mem_cons_of_mem _ hp))

theorem toLowerChar_cases (c : Char) :
    toLowerChar c = c ∨ (c, toLowerChar c) ∈ Gen.rfc1459Table := by
  unfold toLowerChar
  split
  · rename_i l h; right; exact lookup_mem h
  · left; rfl

/-- the obligation on the extracted table (re-checked against the source on every run) -/
theorem rfc1459_table_ok : tableOkB Gen.rfc1459Table = true := by decide

theorem table_entry {p : Char × Char} (hp : p ∈ Gen.rfc1459Table) :
    isSpace p.1 = false ∧ isSpace p.2 = false ∧
    (∀ k ∈ specialChars, p.1 ≠ k ∧ p.2 ≠ k) ∧
    Gen.rfc1459Table.lookup p.2 = none ∧
    toLowerChar (asciiLowerChar p.2) = toLowerChar (asciiLowerChar p.1) := by
  have h := rfc1459_table_ok
  unfold tableOkB at h
  rw [List.all_eq_true] at h
  have := h p hp
  simp only [Bool.and_eq_true, Bool.not_eq_true', List.all_eq_true, bne_iff_ne, ne_eq,
    Option.isNone_iff_eq_none, beq_iff_eq] at this
  obtain ⟨⟨⟨⟨h1, h2⟩, h3⟩, h4⟩, h5⟩ := this
  exact ⟨h1, h2, h3, h4, h5⟩

/-! ### `toLowerChar` -/

theorem isSpace_toLowerChar (c : Char) : isSpace (toLowerChar c) = isSpace c := by
  rcases toLowerChar_cases c with h | h
  · rw [h]
  · have := table_entry h
    simp only at this
    rw [this.1, this.2.1]

theorem toLowerChar_special {k : Char} (hk : k ∈ specialChars) : toLowerChar k = k := by
  unfold toLowerChar
  have : Gen.rfc1459Table.lookup k = none :=
    lookup_none_of_forall (fun p hp => ((table_entry hp).2.2.1 k hk).1)
  rw [this]

theorem toLowerChar_eq_special {c k : Char} (hk : k ∈ specialChars) :
    toLowerChar c = k ↔ c = k := by
  constructor
  · intro h
    rcases toLowerChar_cases c with h' | h'
    · rw [← h', h]
    · exact absurd h ((table_entry h').2.2.1 k hk).2
  · intro h; subst h; exact toLowerChar_special hk

theorem toLowerChar_idem (c : Char) : toLowerChar (toLowerChar c) = toLowerChar c := by
  rcases toLowerChar_cases c with h | h
  · rw [h, h]
  · have := (table_entry h).2.2.2.1
    simp only at this
    generalize toLowerChar c = d at this ⊢
    unfold toLowerChar
    rw [this]

theorem toLowerChar_ascii (c : Char) :
    toLowerChar (asciiLowerChar (toLowerChar c)) = toLowerChar (asciiLowerChar c) := by
  rcases toLowerChar_cases c with h | h
  · rw [h]
  · exact (table_entry h).2.2.2.2

theorem mem_special_comma : ',' ∈ specialChars := by decide
theorem mem_special_dash : '-' ∈ specialChars := by decide
theorem mem_special_bell : '\x07' ∈ specialChars := by decide
theorem mem_special_chanType {k : Char} (h : k ∈ Gen.chanTypes) : k ∈ specialChars :=
  List.mem_append_right _ h

/-! ### `toLower` and the syntactic classes -/

theorem toLower_nil : toLower [] = [] := rfl
theorem toLower_cons (c : Char) (s : Str) : toLower (c :: s) = toLowerChar c :: toLower s := rfl
theorem toLower_append (a b : Str) : toLower (a ++ b) = toLower a ++ toLower b := by
  simp [toLower]
theorem toLower_length (s : Str) : (toLower s).length = s.length := by simp [toLower]
theorem toLower_eq_nil {s : Str} : toLower s = [] ↔ s = [] := by simp [toLower]

theorem toLower_idem (s : Str) : toLower (toLower s) = toLower s := by
  induction s with
  | nil => rfl
  | cons c cs ih => simp only [toLower_cons, toLowerChar_idem, ih]

theorem all_noSpace_toLower (s : Str) :
    (toLower s).all (fun c => !isSpace c) = s.all (fun c => !isSpace c) := by
  induction s with
  | nil => rfl
  | cons c cs ih => simp only [toLower_cons, List.all_cons, isSpace_toLowerChar, ih]

theorem isCapability_toLower (s : Str) : isCapability (toLower s) = isCapability s := by
  unfold isCapability
  rw [all_noSpace_toLower]
  cases s <;> rfl

theorem split1_toLower {k : Char} (hk : k ∈ specialChars) (s : Str) :
    split1 k (toLower s) = (split1 k s).map (fun p => (toLower p.1, toLower p.2)) := by
  induction s with
  | nil => rfl
  | cons c cs ih =>
    simp only [toLower_cons, split1]
    by_cases h : c = k
    · subst h
      simp [toLowerChar_special hk, toLower_nil]
    · have : toLowerChar c ≠ k := fun e => h ((toLowerChar_eq_special hk).1 e)
      simp only [this, h, if_false, ih]
      cases split1 k cs with
      | none => rfl
      | some p => rfl

theorem contains_toLower {k : Char} (hk : k ∈ specialChars) (s : Str) :
    (toLower s).contains k = s.contains k := by
  induction s with
  | nil => rfl
  | cons c cs ih =>
    simp only [toLower_cons, List.contains_cons, ih]
    congr 1
    by_cases h : c = k
    · subst h
      rw [toLowerChar_special hk]
    · have : toLowerChar c ≠ k := fun e => h ((toLowerChar_eq_special hk).1 e)
      have e1 : (k == toLowerChar c) = false := by simp [Ne.symm this]
      have e2 : (k == c) = false := by simp [Ne.symm h]
      rw [e1, e2]

theorem dropWhile_isSpace_toLower (s : Str) :
    (toLower s).dropWhile isSpace = toLower (s.dropWhile isSpace) := by
  induction s with
  | nil => rfl
  | cons c cs ih =>
    simp only [toLower_cons, List.dropWhile_cons, isSpace_toLowerChar]
    split
    · exact ih
    · rfl

theorem dropWhile_notSpace_toLower (s : Str) :
    (toLower s).dropWhile (fun c => !isSpace c) = toLower (s.dropWhile (fun c => !isSpace c)) := by
  induction s with
  | nil => rfl
  | cons c cs ih =>
    simp only [toLower_cons, List.dropWhile_cons, isSpace_toLowerChar]
    split
    · exact ih
    · rfl

theorem splitNone1_length_toLower (s : Str) :
    (splitNone1 (toLower s)).length = (splitNone1 s).length := by
  unfold splitNone1 lstripP
  simp only [dropWhile_isSpace_toLower, dropWhile_notSpace_toLower]
  have e1 : (toLower (List.dropWhile isSpace s)).isEmpty = (List.dropWhile isSpace s).isEmpty := by
    cases List.dropWhile isSpace s <;> rfl
  have e2 : (toLower (List.dropWhile isSpace (List.dropWhile (fun c => !isSpace c) (List.dropWhile isSpace s)))).isEmpty
      = (List.dropWhile isSpace (List.dropWhile (fun c => !isSpace c) (List.dropWhile isSpace s))).isEmpty := by
    cases (List.dropWhile isSpace (List.dropWhile (fun c => !isSpace c) (List.dropWhile isSpace s))) <;> rfl
  rw [e1, e2]
  split
  · rfl
  · split <;> rfl

theorem chanTypes_contains_toLowerChar (c : Char) :
    Gen.chanTypes.contains (toLowerChar c) = Gen.chanTypes.contains c := by
  by_cases h : c ∈ Gen.chanTypes
  · rw [toLowerChar_special (mem_special_chanType h)]
  · have h' : toLowerChar c ∉ Gen.chanTypes := by
      intro hm
      have := (toLowerChar_eq_special (mem_special_chanType hm)).1 rfl
      exact h (this ▸ hm)
    simp [h, h']

theorem isChannel_toLower (s : Str) : isChannel (toLower s) = isChannel s := by
  cases s with
  | nil => rfl
  | cons c cs =>
    have hl := all_noSpace_toLower (c :: cs)
    have h1 := contains_toLower mem_special_comma (c :: cs)
    have h2 := contains_toLower mem_special_bell (c :: cs)
    have h3 := toLower_length (c :: cs)
    simp only [toLower_cons] at hl h1 h2 h3 ⊢
    unfold isChannel
    simp only [hl, h1, h2, h3, chanTypes_contains_toLowerChar]

/-! ### `toLower` commutes with the capability algebra -/

theorem chanSplit_toLower (s : Str) :
    chanSplit (toLower s) = (chanSplit s).map (fun p => (toLower p.1, toLower p.2)) := by
  unfold chanSplit
  rw [split1_toLower mem_special_comma]
  cases split1 ',' s with
  | none => rfl
  | some p =>
    obtain ⟨ch, c⟩ := p
    simp only [Option.map_some, isChannel_toLower, isCapability_toLower]
    split <;> rfl

theorem isChannelCapability_toLower (s : Str) :
    isChannelCapability (toLower s) = isChannelCapability s := by
  unfold isChannelCapability
  rw [chanSplit_toLower]
  cases chanSplit s <;> rfl

theorem capPart_toLower (s : Str) : capPart (toLower s) = toLower (capPart s) := by
  unfold capPart
  rw [chanSplit_toLower]
  cases chanSplit s with
  | none => rfl
  | some p => rfl

theorem head_dash_toLower (s : Str) :
    ((toLower s).head? == some '-') = (s.head? == some '-') := by
  cases s with
  | nil => rfl
  | cons c cs =>
    simp only [toLower_cons, List.head?_cons]
    by_cases h : c = '-'
    · subst h; rw [toLowerChar_special mem_special_dash]
    · have : toLowerChar c ≠ '-' := fun e => h ((toLowerChar_eq_special mem_special_dash).1 e)
      have e1 : (toLowerChar c == '-') = false := by simp [this]
      have e2 : (c == '-') = false := by simp [h]
      simp [e1, e2]

theorem isAntiCapability_toLower (s : Str) :
    isAntiCapability (toLower s) = isAntiCapability s := by
  unfold isAntiCapability
  rw [capPart_toLower, isCapability_toLower, head_dash_toLower]

theorem applyAnti_toLower (s : Str) (b : Bool) : applyAnti (toLower s) b = applyAnti s b := by
  unfold applyAnti; rw [isAntiCapability_toLower]

theorem makeChannelCapability_toLower (ch c : Str) :
    makeChannelCapability (toLower ch) (toLower c) = (makeChannelCapability ch c).map toLower := by
  unfold makeChannelCapability
  rw [isCapability_toLower, isChannel_toLower]
  split
  · rfl
  · split
    · rfl
    · simp only [Except.map, toLower_append, toLower_cons, toLowerChar_special mem_special_comma]

theorem makeAntiCapability_toLower (s : Str) :
    makeAntiCapability (toLower s) = (makeAntiCapability s).map toLower := by
  unfold makeAntiCapability
  rw [isCapability_toLower, isAntiCapability_toLower, chanSplit_toLower]
  split
  · rfl
  · split
    · rfl
    · cases chanSplit s with
      | none => simp only [Option.map_none, Except.map, toLower_cons, toLowerChar_special mem_special_dash]
      | some p =>
        obtain ⟨ch, c⟩ := p
        simp only [Option.map_some]
        have := makeChannelCapability_toLower ch ('-' :: c)
        simp only [toLower_cons, toLowerChar_special mem_special_dash] at this
        exact this

theorem toLower_drop (n : Nat) (s : Str) : toLower (s.drop n) = (toLower s).drop n := by
  simp [toLower, List.map_drop]

theorem unAntiCapability_toLower (s : Str) :
    unAntiCapability (toLower s) = (unAntiCapability s).map toLower := by
  unfold unAntiCapability
  rw [isCapability_toLower, isAntiCapability_toLower, chanSplit_toLower]
  split
  · rfl
  · split
    · rfl
    · cases chanSplit s with
      | none => simp only [Option.map_none, Except.map, toLower_drop]
      | some p =>
        obtain ⟨ch, c⟩ := p
        simp only [Option.map_some, Except.map, toLower_append, toLower_cons, toLower_drop,
          toLowerChar_special mem_special_comma]

/-- lowering commutes with inversion, for every string (errors included) -/
theorem invertCapability_toLower (s : Str) :
    invertCapability (toLower s) = (invertCapability s).map toLower := by
  unfold invertCapability
  rw [isCapability_toLower, isAntiCapability_toLower]
  split
  · rfl
  · split
    · exact unAntiCapability_toLower s
    · exact makeAntiCapability_toLower s

/-! ### every stage of the decision is invariant under lowering the capability -/

theorem chanKey_toLower (ch : Str) : chanKey (toLower ch) = chanKey ch := by
  unfold chanKey asciiLower
  induction ch with
  | nil => rfl
  | cons c cs ih =>
    simp only [toLower_cons, List.map_cons, toLowerChar_ascii]
    rw [ih]

theorem getChannel_toLower (db : Db) (ch : Str) : db.getChannel (toLower ch) = db.getChannel ch := by
  unfold Db.getChannel; rw [chanKey_toLower]

theorem contains_lower (s : CapSet) (cap : Str) :
    CapSet.contains s (toLower cap) = CapSet.contains s cap := by
  unfold CapSet.contains; rw [toLower_idem]

theorem check_lower (s : CapSet) (cap : Str) :
    CapSet.check s (toLower cap) = CapSet.check s cap := by
  unfold CapSet.check; rw [toLower_idem]

theorem ucontains_lower (s : CapSet) (cap : Str) (io : Bool) :
    ucontains s (toLower cap) io = ucontains s cap io := by
  unfold ucontains; rw [toLower_idem]

theorem ucheck_lower (s : CapSet) (cap : Str) (io : Bool) :
    ucheck s (toLower cap) io = ucheck s cap io := by
  unfold ucheck; rw [toLower_idem]

theorem userCheck_lower (u : User) (cap : Str) (io : Bool) :
    u.checkCapability (toLower cap) io = u.checkCapability cap io := by
  unfold User.checkCapability; rw [isAntiCapability_toLower, ucheck_lower]

theorem chanCheck_lower (c : Channel) (cap : Str) :
    c.checkCapability (toLower cap) = c.checkCapability cap := by
  unfold Channel.checkCapability
  rw [isCapability_toLower, contains_lower, check_lower, isAntiCapability_toLower]

theorem chanDecide_lower (c : Channel) (cap : Str) (d : Bool) :
    c.decide (toLower cap) d = c.decide cap d := by
  unfold Channel.decide
  rw [contains_lower, chanCheck_lower, applyAnti_toLower]

theorem globalsUnknown_lower (db : Db) (cap : Str) (ida : Bool) :
    db.globalsUnknown (toLower cap) ida = db.globalsUnknown cap ida := by
  unfold Db.globalsUnknown; rw [contains_lower, check_lower, applyAnti_toLower]

theorem globalsKnown_lower (db : Db) (cap : Str) (ida : Bool) :
    db.globalsKnown (toLower cap) ida = db.globalsKnown cap ida := by
  unfold Db.globalsKnown; simp only [contains_lower, check_lower, applyAnti_toLower]

theorem checkUnknown_lower (db : Db) (cap : Str) (ida : Bool) :
    db.checkUnknown (toLower cap) ida = db.checkUnknown cap ida := by
  unfold Db.checkUnknown
  rw [chanSplit_toLower]
  cases chanSplit cap with
  | none => simp only [Option.map_none, globalsUnknown_lower]
  | some p =>
    obtain ⟨ch, c⟩ := p
    simp only [Option.map_some, getChannel_toLower, chanDecide_lower, globalsUnknown_lower]

theorem userStage_lower (u : User) (cap : Str) (fl : Flags) :
    userStage u (toLower cap) fl = userStage u cap fl := by
  unfold userStage; simp only [ucontains_lower, userCheck_lower]

theorem toLower_opS : toLower opS = opS := by decide

theorem chanOpStage_lower (u : User) (ch : Str) (fl : Flags) :
    chanOpStage u (toLower ch) fl = chanOpStage u ch fl := by
  unfold chanOpStage
  have := makeChannelCapability_toLower ch opS
  rw [toLower_opS] at this
  rw [this]
  cases makeChannelCapability ch opS with
  | error e => rfl
  | ok v => simp only [Except.map, userCheck_lower]

theorem channelStage_lower (db : Db) (u : User) (ch c : Str) (fl : Flags) :
    db.channelStage u (toLower ch) (toLower c) fl = db.channelStage u ch c fl := by
  unfold Db.channelStage
  simp only [chanOpStage_lower, getChannel_toLower, chanDecide_lower, applyAnti_toLower]

theorem checkKnown_lower (db : Db) (u : User) (cap : Str) (fl : Flags) :
    db.checkKnown u (toLower cap) fl = db.checkKnown u cap fl := by
  unfold Db.checkKnown
  rw [userStage_lower, chanSplit_toLower]
  cases chanSplit cap with
  | none => simp only [Option.map_none, globalsKnown_lower]
  | some p =>
    obtain ⟨ch, c⟩ := p
    simp only [Option.map_some, channelStage_lower]

theorem checkCapability_lower (db : Db) (now : Int) (h cap : Str) (fl : Flags) :
    db.checkCapability now h (toLower cap) fl = db.checkCapability now h cap fl := by
  unfold Db.checkCapability
  simp only [checkUnknown_lower, checkKnown_lower]

/-! ### the shape of valid capability strings -/

/-- obligation on the extracted `chantypes`: `-` is not a channel prefix -/
theorem chanTypes_no_dash : Gen.chanTypes.contains '-' = false := by decide

theorem split1_append {k : Char} {a : Str} (b : Str) (h : a.contains k = false) :
    split1 k (a ++ k :: b) = some (a, b) := by
  induction a with
  | nil => simp [split1]
  | cons x xs ih =>
    simp only [List.contains_cons, Bool.or_eq_false_iff] at h
    have hx : x ≠ k := by
      intro e; subst e; simp at h
    simp only [List.cons_append, split1, hx, if_false, ih h.2]

theorem isChannel_facts {c : Str} (h : isChannel c = true) :
    c ≠ [] ∧ c.contains ',' = false ∧ (∃ x xs, c = x :: xs ∧ Gen.chanTypes.contains x = true) := by
  cases c with
  | nil => simp [isChannel] at h
  | cons x xs =>
    unfold isChannel at h
    simp only [Bool.and_eq_true, Bool.not_eq_true'] at h
    exact ⟨by simp, h.1.1.1.1, x, xs, rfl, h.1.1.2⟩

theorem isChannel_dash (a : Str) : isChannel ('-' :: a) = false := by
  unfold isChannel
  simp only [chanTypes_no_dash, Bool.and_false, Bool.false_and]

theorem chanSplit_dash (b : Str) : chanSplit ('-' :: b) = none := by
  unfold chanSplit
  have : split1 ',' ('-' :: b) = (split1 ',' b).map (fun p => ('-' :: p.1, p.2)) := by
    simp only [split1]
    have : ('-' : Char) ≠ ',' := by decide
    simp only [this, if_false]
    cases split1 ',' b with
    | none => rfl
    | some p => rfl
  rw [this]
  cases split1 ',' b with
  | none => rfl
  | some p => simp [isChannel_dash]

theorem chanSplit_chan {c x : Str} (hc : isChannel c = true) (hx : isCapability x = true) :
    chanSplit (c ++ ',' :: x) = some (c, x) := by
  unfold chanSplit
  rw [split1_append x (isChannel_facts hc).2.1]
  simp [hc, hx]

structure BaseOK (b : Str) : Prop where
  cap : isCapability b = true
  nodash : (b.head? == some '-') = false
  plain : chanSplit b = none

theorem baseOK_of_valid {b : Str} (h : validBase b = true) : BaseOK b := by
  unfold validBase at h
  simp only [Bool.and_eq_true, Bool.not_eq_true', bne_iff_ne, ne_eq] at h
  refine ⟨h.1.1, ?_, ?_⟩
  · cases hb : (b.head? == some '-') with
    | false => rfl
    | true => exact absurd (by simpa using hb) h.1.2
  · have := h.2
    unfold isChannelCapability at this
    cases hs : chanSplit b with
    | none => rfl
    | some p => rw [hs] at this; simp at this

theorem validBase_of_ok {b : Str} (h : BaseOK b) : validBase b = true := by
  unfold validBase isChannelCapability
  rw [h.cap, h.plain]
  have := h.nodash
  simp only [beq_eq_false_iff_ne, ne_eq] at this
  simp [this]

def ChanOK (ch : Option Str) : Prop :=
  ∀ c, ch = some c → isChannel c = true ∧ c.all (fun x => !isSpace x) = true

theorem isCapability_dash {b : Str} (h : isCapability b = true) : isCapability ('-' :: b) = true := by
  unfold isCapability at h ⊢
  simp only [Bool.and_eq_true, Bool.not_eq_true', List.all_eq_true] at h ⊢
  refine ⟨rfl, ?_⟩
  intro x hx
  rcases List.mem_cons.1 hx with e | e
  · subst e; decide
  · exact h.2 x e

theorem isCapability_chan {c x : Str} (hc : c.all (fun x => !isSpace x) = true)
    (hx : isCapability x = true) : isCapability (c ++ ',' :: x) = true := by
  unfold isCapability at hx ⊢
  simp only [Bool.and_eq_true, Bool.not_eq_true', List.all_eq_true] at hx hc ⊢
  refine ⟨by cases c <;> rfl, ?_⟩
  intro y hy
  rcases List.mem_append.1 hy with e | e
  · exact hc y e
  · rcases List.mem_cons.1 e with e | e
    · subst e; decide
    · exact hx.2 y e

theorem chanSplit_keyPos {ch : Option Str} {b : Str} (hch : ChanOK ch) (hb : BaseOK b) :
    chanSplit (keyPos ch b) = ch.map (fun c => (c, b)) := by
  cases ch with
  | none => exact hb.plain
  | some c => exact chanSplit_chan (hch c rfl).1 hb.cap

theorem chanSplit_keyNeg {ch : Option Str} {b : Str} (hch : ChanOK ch) (hb : BaseOK b) :
    chanSplit (keyNeg ch b) = ch.map (fun c => (c, '-' :: b)) := by
  cases ch with
  | none => exact chanSplit_dash b
  | some c => exact chanSplit_chan (hch c rfl).1 (isCapability_dash hb.cap)

theorem isCapability_keyPos {ch : Option Str} {b : Str} (hch : ChanOK ch) (hb : BaseOK b) :
    isCapability (keyPos ch b) = true := by
  cases ch with
  | none => exact hb.cap
  | some c => exact isCapability_chan (hch c rfl).2 hb.cap

theorem isCapability_keyNeg {ch : Option Str} {b : Str} (hch : ChanOK ch) (hb : BaseOK b) :
    isCapability (keyNeg ch b) = true := by
  cases ch with
  | none => exact isCapability_dash hb.cap
  | some c => exact isCapability_chan (hch c rfl).2 (isCapability_dash hb.cap)

theorem capPart_keyPos {ch : Option Str} {b : Str} (hch : ChanOK ch) (hb : BaseOK b) :
    capPart (keyPos ch b) = b := by
  unfold capPart; rw [chanSplit_keyPos hch hb]
  cases ch <;> rfl

theorem capPart_keyNeg {ch : Option Str} {b : Str} (hch : ChanOK ch) (hb : BaseOK b) :
    capPart (keyNeg ch b) = '-' :: b := by
  unfold capPart; rw [chanSplit_keyNeg hch hb]
  cases ch <;> rfl

theorem isAnti_keyPos {ch : Option Str} {b : Str} (hch : ChanOK ch) (hb : BaseOK b) :
    isAntiCapability (keyPos ch b) = false := by
  unfold isAntiCapability; rw [capPart_keyPos hch hb, hb.nodash, Bool.and_false]

theorem isAnti_keyNeg {ch : Option Str} {b : Str} (hch : ChanOK ch) (hb : BaseOK b) :
    isAntiCapability (keyNeg ch b) = true := by
  unfold isAntiCapability; rw [capPart_keyNeg hch hb, isCapability_dash hb.cap]; rfl

theorem invert_keyPos {ch : Option Str} {b : Str} (hch : ChanOK ch) (hb : BaseOK b) :
    invertCapability (keyPos ch b) = .ok (keyNeg ch b) := by
  unfold invertCapability makeAntiCapability
  rw [isCapability_keyPos hch hb, isAnti_keyPos hch hb, chanSplit_keyPos hch hb]
  cases ch with
  | none => rfl
  | some c =>
    simp only [Option.map_some, Bool.not_true, Bool.false_eq_true, if_false]
    unfold makeChannelCapability
    rw [isCapability_dash hb.cap, (hch c rfl).1]
    rfl

theorem invert_keyNeg {ch : Option Str} {b : Str} (hch : ChanOK ch) (hb : BaseOK b) :
    invertCapability (keyNeg ch b) = .ok (keyPos ch b) := by
  unfold invertCapability unAntiCapability
  rw [isCapability_keyNeg hch hb, isAnti_keyNeg hch hb, chanSplit_keyNeg hch hb]
  cases ch with
  | none => rfl
  | some c => rfl

theorem keyPos_ne_keyNeg (ch : Option Str) (b : Str) : keyPos ch b ≠ keyNeg ch b := by
  intro h
  have := congrArg List.length h
  cases ch <;> simp [keyPos, keyNeg] at this

theorem split1_some {k : Char} {s a b : Str} (h : split1 k s = some (a, b)) : s = a ++ k :: b := by
  induction s generalizing a with
  | nil => simp [split1] at h
  | cons x xs ih =>
    simp only [split1] at h
    split at h
    · rename_i hx
      injection h with h; injection h with h1 h2
      subst hx h1 h2; rfl
    · split at h
      · cases h
      · rename_i a' b' hs
        injection h with h; injection h with h1 h2
        subst h1 h2
        rw [ih hs]; rfl

theorem chanSplit_some {cap ch c : Str} (h : chanSplit cap = some (ch, c)) :
    cap = ch ++ ',' :: c ∧ isChannel ch = true ∧ isCapability c = true := by
  unfold chanSplit at h
  split at h
  · rename_i ch' c' hs
    split at h
    · rename_i hcond
      injection h with h; injection h with h1 h2
      subst h1 h2
      simp only [Bool.and_eq_true] at hcond
      exact ⟨split1_some hs, hcond.1, hcond.2⟩
    · cases h
  · cases h

theorem toLower_keyPos (ch : Option Str) (b : Str) :
    toLower (keyPos ch b) = keyPos (ch.map toLower) (toLower b) := by
  cases ch with
  | none => rfl
  | some c => simp only [keyPos, Option.map_some, toLower_append, toLower_cons,
      toLowerChar_special mem_special_comma]

theorem toLower_keyNeg (ch : Option Str) (b : Str) :
    toLower (keyNeg ch b) = keyNeg (ch.map toLower) (toLower b) := by
  cases ch with
  | none => simp only [keyNeg, Option.map_none, toLower_cons, toLowerChar_special mem_special_dash]
  | some c => simp only [keyNeg, Option.map_some, toLower_append, toLower_cons,
      toLowerChar_special mem_special_comma, toLowerChar_special mem_special_dash]

theorem toLower_render (a : Bool) (ch : Option Str) (b : Str) :
    toLower (render a ch b) = render a (ch.map toLower) (toLower b) := by
  unfold render; cases a
  · simp only [Bool.false_eq_true, if_false, toLower_keyPos]
  · simp only [if_true, toLower_keyNeg]

theorem baseOK_toLower {b : Str} (h : BaseOK b) : BaseOK (toLower b) := by
  refine ⟨by rw [isCapability_toLower]; exact h.cap, by rw [head_dash_toLower]; exact h.nodash, ?_⟩
  rw [chanSplit_toLower, h.plain]; rfl

theorem chanOK_toLower {ch : Option Str} (h : ChanOK ch) : ChanOK (ch.map toLower) := by
  intro c hc
  cases ch with
  | none => cases hc
  | some c' =>
    simp only [Option.map_some, Option.some.injEq] at hc
    subst hc
    exact ⟨by rw [isChannel_toLower]; exact (h c' rfl).1, by rw [all_noSpace_toLower]; exact (h c' rfl).2⟩

theorem parsePlain_dash (b : Str) : parsePlain ('-' :: b) = (true, b) := by
  simp [parsePlain]

theorem parsePlain_base {b : Str} (hb : BaseOK b) : parsePlain b = (false, b) := by
  cases b with
  | nil => rfl
  | cons x xs =>
    have := hb.nodash
    simp only [List.head?_cons, beq_eq_false_iff_ne, ne_eq, Option.some.injEq] at this
    simp [parsePlain, this]

theorem parseCap_render {a : Bool} {ch : Option Str} {b : Str} (hch : ChanOK ch) (hb : BaseOK b) :
    parseCap (render a ch b) = ⟨a, ch, b⟩ := by
  unfold parseCap render
  cases a
  · simp only [Bool.false_eq_true, if_false]
    rw [chanSplit_keyPos hch hb]
    cases ch with
    | none => simp only [Option.map_none, keyPos, parsePlain_base hb]
    | some c => simp only [Option.map_some, parsePlain_base hb]
  · simp only [if_true]
    rw [chanSplit_keyNeg hch hb]
    cases ch with
    | none => simp only [Option.map_none, keyNeg, parsePlain_dash]
    | some c => simp only [Option.map_some, parsePlain_dash]

theorem validPlain_shape {c : Str} (h : validPlain c = true) :
    ∃ (a : Bool) (b : Str), BaseOK b ∧ c = (if a = true then '-' :: b else b) := by
  cases c with
  | nil => simp [validPlain] at h
  | cons x rest =>
    simp only [validPlain] at h
    split at h
    · rename_i hx; subst hx
      exact ⟨true, rest, baseOK_of_valid h, rfl⟩
    · exact ⟨false, x :: rest, baseOK_of_valid h, rfl⟩

/-- a valid capability is `render anti chan base` with well-formed parts -/
theorem validCap_shape {cap : Str} (h : validCap cap = true) :
    ∃ (a : Bool) (ch : Option Str) (b : Str), ChanOK ch ∧ BaseOK b ∧ cap = render a ch b := by
  unfold validCap at h
  split at h
  · rename_i ch c hs
    simp only [Bool.and_eq_true] at h
    obtain ⟨a, b, hb, hc⟩ := validPlain_shape h.2
    obtain ⟨e, hch, _⟩ := chanSplit_some hs
    refine ⟨a, some ch, b, ?_, hb, ?_⟩
    · intro c' hc'; injection hc' with hc'; subst hc'; exact ⟨hch, h.1⟩
    · rw [e, hc]; cases a <;> rfl
  · obtain ⟨a, b, hb, hc⟩ := validPlain_shape h
    have hnone : ChanOK none := by intro c' hc'; cases hc'
    refine ⟨a, none, b, hnone, hb, ?_⟩
    rw [hc]; cases a <;> rfl

theorem validCap_render {a : Bool} {ch : Option Str} {b : Str} (hch : ChanOK ch) (hb : BaseOK b) :
    validCap (render a ch b) = true := by
  have hvb := validBase_of_ok hb
  have hne : b ≠ [] := by
    intro e; have := hb.cap; rw [e] at this; simp [isCapability] at this
  have hpos : validPlain b = true := by
    cases b with
    | nil => exact absurd rfl hne
    | cons x xs =>
      have := hb.nodash
      simp only [List.head?_cons, beq_eq_false_iff_ne, ne_eq, Option.some.injEq] at this
      simp only [validPlain, this, if_false]; exact hvb
  have hneg : validPlain ('-' :: b) = true := by simp only [validPlain, if_true]; exact hvb
  unfold validCap render
  cases a
  · simp only [Bool.false_eq_true, if_false]
    rw [chanSplit_keyPos hch hb]
    cases ch with
    | none => exact hpos
    | some c => simp only [Option.map_some, (hch c rfl).2, hpos, Bool.and_self]
  · simp only [if_true]
    rw [chanSplit_keyNeg hch hb]
    cases ch with
    | none => exact hneg
    | some c => simp only [Option.map_some, (hch c rfl).2, hneg, Bool.and_self]

/-! ### inversion on valid capabilities -/

theorem invert_render {a : Bool} {ch : Option Str} {b : Str} (hch : ChanOK ch) (hb : BaseOK b) :
    invertCapability (render a ch b) = .ok (render (!a) ch b) := by
  cases a
  · simp only [render, Bool.false_eq_true, if_false, Bool.not_false, if_true]; exact invert_keyPos hch hb
  · simp only [render, if_true, Bool.not_true, Bool.false_eq_true, if_false]; exact invert_keyNeg hch hb

theorem isAnti_render {a : Bool} {ch : Option Str} {b : Str} (hch : ChanOK ch) (hb : BaseOK b) :
    isAntiCapability (render a ch b) = a := by
  cases a
  · simp only [render, Bool.false_eq_true, if_false]; exact isAnti_keyPos hch hb
  · simp only [render, if_true]; exact isAnti_keyNeg hch hb

theorem isCapability_render {a : Bool} {ch : Option Str} {b : Str} (hch : ChanOK ch) (hb : BaseOK b) :
    isCapability (render a ch b) = true := by
  cases a
  · simp only [render, Bool.false_eq_true, if_false]; exact isCapability_keyPos hch hb
  · simp only [render, if_true]; exact isCapability_keyNeg hch hb

theorem chanSplit_render {a : Bool} {ch : Option Str} {b : Str} (hch : ChanOK ch) (hb : BaseOK b) :
    chanSplit (render a ch b) = ch.map (fun c => (c, render a none b)) := by
  cases a
  · simp only [render, Bool.false_eq_true, if_false]; exact chanSplit_keyPos hch hb
  · simp only [render, if_true]; exact chanSplit_keyNeg hch hb

/-! ### capability sets -/

theorem consistent_spec {s : CapSet} (h : consistentB s = true) {c c' : Str} (hc : c ∈ s)
    (hi : invertCapability c = .ok c') : c' ∉ s := by
  unfold consistentB at h
  rw [List.all_eq_true] at h
  have := h c hc
  rw [hi] at this
  simpa using this

/-- a lowered valid capability -/
structure LCap (ch : Option Str) (b : Str) : Prop where
  chOK : ChanOK ch
  bOK : BaseOK b
  lowCh : ch.map toLower = ch
  lowB : toLower b = b

theorem LCap.lower_render {ch : Option Str} {b : Str} (h : LCap ch b) (a : Bool) :
    toLower (render a ch b) = render a ch b := by
  rw [toLower_render, h.lowCh, h.lowB]

theorem LCap.pos_neg_excl {ch : Option Str} {b : Str} (h : LCap ch b) {s : CapSet}
    (hs : consistentB s = true) : ¬ (keyPos ch b ∈ s ∧ keyNeg ch b ∈ s) := by
  intro ⟨h1, h2⟩
  exact consistent_spec hs h1 (invert_keyPos h.chOK h.bOK) h2

theorem contains_render {ch : Option Str} {b : Str} (h : LCap ch b) (a : Bool) (s : CapSet) :
    CapSet.contains s (render a ch b) = .ok (Spec.look s (keyPos ch b) (keyNeg ch b)).isSome := by
  unfold CapSet.contains
  simp only [h.lower_render, invert_render h.chOK h.bOK]
  unfold Spec.look
  cases a
  · simp only [render, Bool.false_eq_true, if_false, Bool.not_false, if_true]
    by_cases h1 : keyPos ch b ∈ s
    · simp [h1]
    · by_cases h2 : keyNeg ch b ∈ s <;> simp [h1, h2]
  · simp only [render, if_true, Bool.not_true, Bool.false_eq_true, if_false]
    by_cases h2 : keyNeg ch b ∈ s
    · by_cases h1 : keyPos ch b ∈ s <;> simp [h1, h2]
    · by_cases h1 : keyPos ch b ∈ s <;> simp [h1, h2]

theorem check_render {ch : Option Str} {b : Str} (h : LCap ch b) (a : Bool) {s : CapSet}
    (hs : consistentB s = true) :
    CapSet.check s (render a ch b) =
      (match Spec.look s (keyPos ch b) (keyNeg ch b) with
       | some v => .ok (xor v a)
       | none => .error .key) := by
  unfold CapSet.check
  simp only [h.lower_render, invert_render h.chOK h.bOK]
  unfold Spec.look
  have hex := h.pos_neg_excl hs
  cases a
  · simp only [render, Bool.false_eq_true, if_false, Bool.not_false, if_true]
    by_cases h1 : keyPos ch b ∈ s
    · simp [h1]
    · by_cases h2 : keyNeg ch b ∈ s <;> simp [h1, h2]
  · simp only [render, if_true, Bool.not_true, Bool.false_eq_true, if_false]
    by_cases h2 : keyNeg ch b ∈ s
    · have h1 : keyPos ch b ∉ s := fun h1 => hex ⟨h1, h2⟩
      simp [h1, h2]
    · by_cases h1 : keyPos ch b ∈ s <;> simp [h1, h2]

/-! ### the owner capability -/

/-- obligation on the extracted `chantypes`: `o` is not a channel prefix -/
theorem chanTypes_no_o : Gen.chanTypes.contains 'o' = false := by decide

theorem baseOK_owner : BaseOK ownerS := ⟨by decide, by decide, by decide⟩
theorem baseOK_op : BaseOK opS := ⟨by decide, by decide, by decide⟩
theorem chanOK_none : ChanOK none := by intro c hc; cases hc
theorem lcap_owner : LCap none ownerS := ⟨chanOK_none, baseOK_owner, rfl, by decide⟩

theorem hasOwner_eq {s : CapSet} (h : antiOwnerS ∉ s) :
    CapSet.contains s ownerS = .ok (decide (ownerS ∈ s)) := by
  have := contains_render lcap_owner false s
  simp only [render, Bool.false_eq_true, if_false, keyPos, keyNeg] at this
  rw [this]
  unfold Spec.look
  have h' : ('-' :: ownerS) ∉ s := h
  by_cases h1 : ownerS ∈ s <;> simp [h1, h']

/-- does the question concern `owner` / `-owner` itself? -/
def asksOwner (ch : Option Str) (b : Str) : Bool := ch.isNone && b == ownerS

theorem render_chan_head {a : Bool} {c b : Str} (hc : isChannel c = true) :
    ∃ x xs, render a (some c) b = x :: xs ∧ Gen.chanTypes.contains x = true := by
  obtain ⟨_, _, x, xs, e, hx⟩ := isChannel_facts hc
  subst e
  cases a
  · exact ⟨x, _, rfl, hx⟩
  · exact ⟨x, _, rfl, hx⟩

theorem render_eq_owner {a : Bool} {ch : Option Str} {b : Str} (hch : ChanOK ch) (_hb : BaseOK b) :
    (render a ch b == ownerS) = (!a && asksOwner ch b) := by
  cases ch with
  | some c =>
    obtain ⟨x, xs, e, hx⟩ := render_chan_head (a := a) (b := b) (hch c rfl).1
    rw [e]
    have : x ≠ 'o' := by intro h; subst h; rw [chanTypes_no_o] at hx; cases hx
    simp [asksOwner, ownerS, this]
  | none =>
    cases a
    · simp [render, keyPos, asksOwner]
    · simp [render, keyNeg, asksOwner, ownerS]

theorem render_eq_antiOwner {a : Bool} {ch : Option Str} {b : Str} (hch : ChanOK ch) (hb : BaseOK b) :
    (render a ch b == antiOwnerS) = (a && asksOwner ch b) := by
  cases ch with
  | some c =>
    obtain ⟨x, xs, e, hx⟩ := render_chan_head (a := a) (b := b) (hch c rfl).1
    rw [e]
    have : x ≠ '-' := by intro h; subst h; rw [chanTypes_no_dash] at hx; cases hx
    simp [asksOwner, antiOwnerS, this]
  | none =>
    cases a
    · simp only [render, Bool.false_eq_true, if_false, keyPos, Bool.false_and]
      cases b with
      | nil => rfl
      | cons x xs =>
        have := hb.nodash
        simp only [List.head?_cons, beq_eq_false_iff_ne, ne_eq, Option.some.injEq] at this
        simp [antiOwnerS, this]
    · simp [render, keyNeg, asksOwner, antiOwnerS]

theorem applyAnti_render {a : Bool} {ch : Option Str} {b : Str} (hch : ChanOK ch) (hb : BaseOK b)
    (r : Bool) : applyAnti (render a ch b) r = xor r a := by
  unfold applyAnti
  rw [isAnti_render hch hb]
  cases a <;> cases r <;> rfl

/-! ### stage 1: the user's own record -/

theorem wfUser_spec {u : User} (h : wfUserB u = true) :
    consistentB u.caps = true ∧ antiOwnerS ∉ u.caps := by
  unfold wfUserB at h
  simp only [Bool.and_eq_true, Bool.not_eq_true', decide_eq_false_iff_not] at h
  exact h

theorem ucontains_render {ch : Option Str} {b : Str} (h : LCap ch b) (a : Bool) {s : CapSet}
    (hs : antiOwnerS ∉ s) :
    ucontains s (render a ch b) false =
      .ok (asksOwner ch b || decide (ownerS ∈ s) || (Spec.look s (keyPos ch b) (keyNeg ch b)).isSome) := by
  unfold ucontains
  simp only [h.lower_render, render_eq_owner h.chOK h.bOK, render_eq_antiOwner h.chOK h.bOK,
    hasOwner_eq hs, contains_render h]
  cases hq : asksOwner ch b
  · cases ho : decide (ownerS ∈ s) <;> simp
  · cases a <;> simp

theorem ucheck_render {ch : Option Str} {b : Str} (h : LCap ch b) (a : Bool) {s : CapSet}
    (hs : antiOwnerS ∉ s) (hc : consistentB s = true) (io : Bool) :
    ucheck s (render a ch b) io =
      (if asksOwner ch b then .ok (xor (decide (ownerS ∈ s)) a)
       else if !io && decide (ownerS ∈ s) then .ok (xor true a)
       else match Spec.look s (keyPos ch b) (keyNeg ch b) with
         | some v => .ok (xor v a)
         | none => .error .key) := by
  unfold ucheck
  simp only [h.lower_render, render_eq_owner h.chOK h.bOK, render_eq_antiOwner h.chOK h.bOK,
    hasOwner_eq hs, check_render h a hc, isAnti_render h.chOK h.bOK]
  cases hq : asksOwner ch b
  · cases io
    · cases ho : decide (ownerS ∈ s) <;> simp
    · simp
  · cases ho : decide (ownerS ∈ s) <;> cases a <;> simp

theorem userStage_render {ch : Option Str} {b : Str} (h : LCap ch b) (a : Bool) {u : User}
    (hu : wfUserB u = true) (fl : Flags) :
    userStage u (render a ch b) fl = .ok ((Spec.userLevel u ch b fl).map (fun v => xor v a)) := by
  obtain ⟨hc, hs⟩ := wfUser_spec hu
  unfold userStage User.checkCapability Spec.userLevel
  simp only [ucontains_render h a hs, ucheck_render h a hs hc, isAnti_render h.chOK h.bOK]
  have hask : (ch.isNone && b == ownerS) = asksOwner ch b := rfl
  simp only [hask]
  cases hm : (asksOwner ch b || decide (ownerS ∈ u.caps) ||
      (Spec.look u.caps (keyPos ch b) (keyNeg ch b)).isSome)
  · simp
  · simp only [if_true]
    cases hi : u.ignore
    · simp only [Bool.false_eq_true, if_false]
      cases hq : asksOwner ch b
      · simp only [Bool.false_eq_true, if_false]
        cases ho : decide (ownerS ∈ u.caps)
        · simp only [Bool.and_false, Bool.false_and, Bool.false_eq_true, if_false]
          cases Spec.look u.caps (keyPos ch b) (keyNeg ch b) <;> simp
        · cases hio : fl.ignoreOwner
          · simp
          · simp only [Bool.not_true, Bool.false_and, Bool.and_false, Bool.false_eq_true, if_false]
            cases Spec.look u.caps (keyPos ch b) (keyNeg ch b) <;> simp
      · simp
    · simp

/-! ### stage 2: channel capabilities -/

theorem lcap_plain {ch : Option Str} {b : Str} (h : LCap ch b) : LCap none b :=
  ⟨chanOK_none, h.bOK, rfl, h.lowB⟩

theorem lcap_chanop {c : Str} {b : Str} (h : LCap (some c) b) : LCap (some c) opS :=
  ⟨h.chOK, baseOK_op, h.lowCh, toLower_opS⟩

theorem chanOpStage_spec {c b : Str} (h : LCap (some c) b) {u : User} (hu : wfUserB u = true)
    (fl : Flags) :
    chanOpStage u c fl = .ok (!fl.ignoreChannelOp && !u.ignore &&
      (decide (ownerS ∈ u.caps) ||
        Spec.look u.caps (c ++ ',' :: opS) (c ++ ',' :: '-' :: opS) == some true)) := by
  obtain ⟨hc, hs⟩ := wfUser_spec hu
  have hop := lcap_chanop h
  unfold chanOpStage makeChannelCapability User.checkCapability
  have e1 : isCapability opS = true := by decide
  have e2 := (h.chOK c rfl).1
  have hr : c ++ ',' :: opS = render false (some c) opS := rfl
  simp only [e1, e2, Bool.not_true, Bool.false_eq_true, if_false]
  rw [hr]
  simp only [ucheck_render hop false hs hc, isAnti_render hop.chOK hop.bOK]
  have hq : asksOwner (some c) opS = false := rfl
  simp only [hq, Bool.false_eq_true, if_false, keyPos, keyNeg]
  rw [← hr]
  cases fl.ignoreChannelOp
  · cases u.ignore
    · cases ho : decide (ownerS ∈ u.caps)
      · simp only [Bool.not_false, Bool.and_false, Bool.false_eq_true, if_false, Bool.true_and, Bool.false_or]
        cases Spec.look u.caps (c ++ ',' :: opS) (c ++ ',' :: '-' :: opS) with
        | none => rfl
        | some v => cases v <;> rfl
      · simp
    · simp
  · simp

theorem chanDecide_spec {b : Str} (h : LCap none b) (a : Bool) (chan : Channel)
    (hc : consistentB chan.caps = true) (d : Bool) :
    chan.decide (render a none b) d =
    .ok (xor ((Spec.look chan.caps b ('-' :: b)).getD d) a) := by
  unfold Channel.decide Channel.checkCapability
  simp only [contains_render h, check_render h a hc, isCapability_render h.chOK h.bOK,
    applyAnti_render h.chOK h.bOK, keyPos, keyNeg]
  cases Spec.look chan.caps b ('-' :: b) with
  | none => simp
  | some v => simp

theorem getChannel_consistent {db : Db} (hdb : db.wfB = true) (c : Str)
    (hdef : consistentB Channel.default.caps = true) : consistentB (db.getChannel c).caps = true := by
  unfold Db.getChannel
  split
  · rename_i ch hl
    unfold Db.wfB at hdb
    simp only [Bool.and_eq_true, List.all_eq_true] at hdb
    exact hdb.1.1.2 (chanKey c, ch) (lookup_mem hl)
  · exact hdef

/-- obligation on the extracted `defaultOff`: a fresh channel record is consistent -/
theorem channel_default_ok : consistentB Channel.default.caps = true := by decide

theorem channelStage_spec {c b : Str} (h : LCap (some c) b) (a : Bool) {db : Db} (hdb : db.wfB = true)
    {u : User} (hu : wfUserB u = true) (fl : Flags) :
    db.channelStage u c (render a none b) fl = .ok (xor (Spec.channelLevel db (some u) c b fl) a) := by
  have hp := lcap_plain h
  have hcons := getChannel_consistent hdb c channel_default_ok
  unfold Db.channelStage Spec.channelLevel
  simp only [chanOpStage_spec h hu]
  cases hop : (!fl.ignoreChannelOp && !u.ignore &&
      (decide (ownerS ∈ u.caps) ||
        Spec.look u.caps (c ++ ',' :: opS) (c ++ ',' :: '-' :: opS) == some true))
  · simp only [Bool.false_eq_true, if_false]
    rw [chanDecide_spec hp a (db.getChannel c) hcons]
    cases fl.ignoreDefaultAllow <;> simp
  · simp only [if_true, applyAnti_render hp.chOK hp.bOK]

/-! ### stage 3: global defaults -/

theorem wfB_spec {db : Db} (h : db.wfB = true) :
    (∀ u ∈ db.users, wfUserB u = true) ∧ consistentB db.defaults = true ∧
      consistentB db.registered = true := by
  unfold Db.wfB at h
  simp only [Bool.and_eq_true, List.all_eq_true] at h
  exact ⟨h.1.1.1, h.1.2, h.2⟩

theorem globalsKnown_spec {b : Str} (h : LCap none b) (a : Bool) {db : Db} (hdb : db.wfB = true)
    (fl : Flags) :
    db.globalsKnown (render a none b) fl.ignoreDefaultAllow = .ok (xor (Spec.globalLevel db true b fl) a) := by
  obtain ⟨_, hd, hr⟩ := wfB_spec hdb
  unfold Db.globalsKnown Spec.globalLevel
  simp only [contains_render h, check_render h a hd, check_render h a hr,
    applyAnti_render h.chOK h.bOK, keyPos, keyNeg, if_true]
  cases Spec.look db.defaults b ('-' :: b) with
  | some v => simp
  | none =>
    simp only [Option.isSome_none]
    cases Spec.look db.registered b ('-' :: b) with
    | some v => simp
    | none => cases fl.ignoreDefaultAllow <;> simp

theorem globalsUnknown_spec {b : Str} (h : LCap none b) (a : Bool) {db : Db} (hdb : db.wfB = true)
    (fl : Flags) :
    db.globalsUnknown (render a none b) fl.ignoreDefaultAllow = .ok (xor (Spec.globalLevel db false b fl) a) := by
  obtain ⟨_, hd, _⟩ := wfB_spec hdb
  unfold Db.globalsUnknown Spec.globalLevel
  simp only [contains_render h, check_render h a hd,
    applyAnti_render h.chOK h.bOK, keyPos, keyNeg, Bool.false_eq_true, if_false]
  cases Spec.look db.defaults b ('-' :: b) with
  | some v => simp
  | none => cases fl.ignoreDefaultAllow <;> simp

/-! ### the whole decision -/

theorem checkUnknown_spec {ch : Option Str} {b : Str} (h : LCap ch b) (a : Bool) {db : Db}
    (hdb : db.wfB = true) (fl : Flags) :
    db.checkUnknown (render a ch b) fl.ignoreDefaultAllow = .ok (xor (Spec.holds db none ch b fl) a) := by
  unfold Db.checkUnknown Spec.holds
  rw [chanSplit_render h.chOK h.bOK]
  cases ch with
  | none => simp only [Option.map_none, Option.isSome_none]; exact globalsUnknown_spec h a hdb fl
  | some c =>
    simp only [Option.map_some]
    have hp := lcap_plain h
    have hcons := getChannel_consistent hdb c channel_default_ok
    rw [chanDecide_spec hp a (db.getChannel c) hcons]
    simp [Spec.channelLevel]

theorem checkKnown_spec {ch : Option Str} {b : Str} (h : LCap ch b) (a : Bool) {db : Db}
    (hdb : db.wfB = true) {u : User} (hu : wfUserB u = true) (fl : Flags) :
    db.checkKnown u (render a ch b) fl = .ok (xor (Spec.holds db (some u) ch b fl) a) := by
  unfold Db.checkKnown Spec.holds
  rw [userStage_render h a hu, chanSplit_render h.chOK h.bOK]
  simp only [Option.bind_some]
  cases hl : Spec.userLevel u ch b fl with
  | some v => simp
  | none =>
    simp only [Option.map_none, Option.getD_none]
    cases ch with
    | none => simp only [Option.map_none, Option.isSome_some]; exact globalsKnown_spec h a hdb fl
    | some c => simp only [Option.map_some]; exact channelStage_spec h a hdb hu fl

/-! ### edits keep capability sets well-formed -/

theorem consistentB_iff {s : CapSet} :
    consistentB s = true ↔ ∀ c ∈ s, ∀ c', invertCapability c = .ok c' → c' ∉ s := by
  constructor
  · intro h c hc c' hi; exact consistent_spec h hc hi
  · intro h
    unfold consistentB
    rw [List.all_eq_true]
    intro c hc
    cases hi : invertCapability c with
    | error e => rfl
    | ok c' => simpa using h c hc c' hi

/-- every element is a valid capability and no capability sits next to its inverse -/
def StrongSet (s : CapSet) : Prop := (∀ c ∈ s, validCap c = true) ∧ consistentB s = true

theorem strongSet_nil : StrongSet [] := by
  refine ⟨?_, rfl⟩
  intro c h; cases h

theorem mem_insert {s : CapSet} {c x : Str} : x ∈ CapSet.insert s c ↔ x = c ∨ x ∈ s := by
  unfold CapSet.insert
  split
  · rename_i h
    constructor
    · intro hx; exact Or.inr hx
    · rintro (e | e)
      · subst e; exact h
      · exact e
  · simp only [List.mem_append, List.mem_singleton]
    constructor
    · rintro (e | e)
      · exact Or.inr e
      · exact Or.inl e
    · rintro (e | e)
      · exact Or.inr e
      · exact Or.inl e

theorem mem_erase {s : CapSet} {c x : Str} : x ∈ CapSet.erase s c ↔ x ∈ s ∧ x ≠ c := by
  unfold CapSet.erase
  simp [List.mem_filter]

theorem validCap_toLower {cap : Str} (hv : validCap cap = true) : validCap (toLower cap) = true := by
  obtain ⟨a, ch, b, hch, hb, e⟩ := validCap_shape hv
  rw [e, toLower_render]
  exact validCap_render (chanOK_toLower hch) (baseOK_toLower hb)

/-- on valid capabilities inversion is an involution -/
theorem invert_involutive {x y : Str} (hv : validCap x = true) (hi : invertCapability x = .ok y) :
    validCap y = true ∧ invertCapability y = .ok x ∧ y ≠ x := by
  obtain ⟨a, ch, b, hch, hb, e⟩ := validCap_shape hv
  rw [e, invert_render hch hb] at hi
  injection hi with hi
  subst hi
  refine ⟨validCap_render hch hb, ?_, ?_⟩
  · rw [invert_render hch hb, e, Bool.not_not]
  · rw [e]; cases a
    · exact (keyPos_ne_keyNeg ch b).symm
    · exact keyPos_ne_keyNeg ch b

theorem invert_ok_of_valid {x : Str} (hv : validCap x = true) : ∃ y, invertCapability x = .ok y := by
  obtain ⟨a, ch, b, hch, hb, e⟩ := validCap_shape hv
  exact ⟨_, by rw [e]; exact invert_render hch hb⟩

theorem add_strong {s s' : CapSet} {cap : Str} (hs : StrongSet s) (hv : validCap cap = true)
    (h : CapSet.add s cap = .ok s') : StrongSet s' := by
  have hvc := validCap_toLower hv
  obtain ⟨inv, hinv⟩ := invert_ok_of_valid hvc
  obtain ⟨hvi, hii, hne⟩ := invert_involutive hvc hinv
  unfold CapSet.add at h
  simp only [hinv] at h
  injection h with h
  subst h
  refine ⟨?_, consistentB_iff.2 ?_⟩
  · intro x hx
    rcases mem_insert.1 hx with e | e
    · subst e; exact hvc
    · exact hs.1 x (mem_erase.1 e).1
  · intro x hx x' hi hx'
    rcases mem_insert.1 hx with e | e
    · subst e
      rw [hinv] at hi; injection hi with hi; subst hi
      rcases mem_insert.1 hx' with e' | e'
      · exact hne e'
      · exact (mem_erase.1 e').2 rfl
    · obtain ⟨hxs, hxne⟩ := mem_erase.1 e
      rcases mem_insert.1 hx' with e' | e'
      · subst e'
        -- invert x = toLower cap, so x = invert (toLower cap) = inv
        obtain ⟨_, hback, _⟩ := invert_involutive (hs.1 x hxs) hi
        rw [hinv] at hback; injection hback with hback
        exact hxne hback.symm
      · exact consistent_spec hs.2 hxs hi (mem_erase.1 e').1

theorem erase_strong {s : CapSet} (c : Str) (hs : StrongSet s) : StrongSet (CapSet.erase s c) := by
  refine ⟨fun x hx => hs.1 x (mem_erase.1 hx).1, consistentB_iff.2 ?_⟩
  intro x hx x' hi hx'
  exact consistent_spec hs.2 (mem_erase.1 hx).1 hi (mem_erase.1 hx').1

theorem remove_strong {s s' : CapSet} {cap : Str} (hs : StrongSet s)
    (h : CapSet.remove s cap = .ok s') : StrongSet s' := by
  unfold CapSet.remove at h
  simp only at h
  split at h
  · injection h with h; subst h; exact erase_strong _ hs
  · cases h

theorem add_mem_iff {s s' : CapSet} {cap inv : Str} (hinv : invertCapability (toLower cap) = .ok inv)
    (h : CapSet.add s cap = .ok s') (x : Str) :
    x ∈ s' ↔ x = toLower cap ∨ (x ∈ s ∧ x ≠ inv) := by
  unfold CapSet.add at h
  simp only [hinv] at h
  injection h with h; subst h
  rw [mem_insert, mem_erase]

theorem ofList_strong_aux (v : List Str) (hv : ∀ c ∈ v, validCap c = true) (s s' : CapSet)
    (hs : StrongSet s) (h : v.foldlM CapSet.add s = .ok s') : StrongSet s' := by
  induction v generalizing s with
  | nil => simp only [List.foldlM_nil, pure, Except.pure] at h; injection h with h; subst h; exact hs
  | cons c cs ih =>
    simp only [List.foldlM_cons, bind, Except.bind] at h
    split at h
    · cases h
    · rename_i s1 h1
      exact ih (fun c hc => hv c (List.mem_cons_of_mem _ hc)) s1
        (add_strong hs (hv c List.mem_cons_self) h1) h

theorem ofList_strong {v : List Str} (hv : ∀ c ∈ v, validCap c = true) {s' : CapSet}
    (h : CapSet.ofList v = .ok s') : StrongSet s' :=
  ofList_strong_aux v hv [] s' strongSet_nil h

/-! ### databases under edits -/

structure Db.Strong (db : Db) : Prop where
  users : ∀ u ∈ db.users, StrongSet u.caps ∧ antiOwnerS ∉ u.caps
  channels : ∀ p ∈ db.channels, StrongSet p.2.caps
  defaults : StrongSet db.defaults
  registered : StrongSet db.registered

theorem Db.Strong.wf {db : Db} (h : db.Strong) : db.wfB = true := by
  unfold Db.wfB
  simp only [Bool.and_eq_true, List.all_eq_true]
  refine ⟨⟨⟨?_, ?_⟩, h.defaults.2⟩, h.registered.2⟩
  · intro u hu
    unfold wfUserB
    simp only [Bool.and_eq_true, Bool.not_eq_true', decide_eq_false_iff_not]
    exact ⟨(h.users u hu).1.2, (h.users u hu).2⟩
  · intro p hp; exact (h.channels p hp).2

def strongB (s : CapSet) : Bool := s.all validCap && consistentB s

theorem strongB_spec {s : CapSet} (h : strongB s = true) : StrongSet s := by
  unfold strongB at h
  simp only [Bool.and_eq_true, List.all_eq_true] at h
  exact h

/-- obligation on the extracted `defaultOff`: a fresh channel record holds valid capabilities -/
theorem channel_default_strong : strongB Channel.default.caps = true := by decide

theorem mem_putUser {us : List User} {u v : User} (h : v ∈ putUser us u) : v = u ∨ v ∈ us := by
  induction us with
  | nil => simp only [putUser, List.mem_singleton] at h; exact Or.inl h
  | cons w ws ih =>
    simp only [putUser] at h
    split at h
    · rcases List.mem_cons.1 h with e | e
      · exact Or.inl e
      · exact Or.inr (List.mem_cons_of_mem _ e)
    · rcases List.mem_cons.1 h with e | e
      · exact Or.inr (e ▸ List.mem_cons_self)
      · rcases ih e with e' | e'
        · exact Or.inl e'
        · exact Or.inr (List.mem_cons_of_mem _ e')

theorem mem_putChannel {cs : List (Str × Channel)} {k : Str} {c : Channel} {p : Str × Channel}
    (h : p ∈ putChannel cs k c) : p = (k, c) ∨ p ∈ cs := by
  induction cs with
  | nil => simp only [putChannel, List.mem_singleton] at h; exact Or.inl h
  | cons w ws ih =>
    obtain ⟨k', c'⟩ := w
    simp only [putChannel] at h
    split at h
    · rcases List.mem_cons.1 h with e | e
      · exact Or.inl e
      · exact Or.inr (List.mem_cons_of_mem _ e)
    · rcases List.mem_cons.1 h with e | e
      · exact Or.inr (e ▸ List.mem_cons_self)
      · rcases ih e with e' | e'
        · exact Or.inl e'
        · exact Or.inr (List.mem_cons_of_mem _ e')

theorem getUserById_mem {db : Db} {id : Nat} {u : User} (h : db.getUserById id = some u) :
    u ∈ db.users := List.mem_of_find?_eq_some h

theorem getChannel_strong {db : Db} (h : db.Strong) (ch : Str) : StrongSet (db.getChannel ch).caps := by
  unfold Db.getChannel
  split
  · rename_i c hl; exact h.channels _ (lookup_mem hl)
  · exact strongB_spec channel_default_strong

theorem uadd_strong {s s' : CapSet} {cap : Str} (hs : StrongSet s) (ho : antiOwnerS ∉ s)
    (hv : validCap cap = true) (h : uadd s cap = .ok s') : StrongSet s' ∧ antiOwnerS ∉ s' := by
  unfold uadd at h
  simp only at h
  split at h
  · cases h
  · rename_i hne
    have hvl := validCap_toLower hv
    refine ⟨add_strong hs hvl h, ?_⟩
    obtain ⟨inv, hinv⟩ := invert_ok_of_valid (validCap_toLower hvl)
    intro hm
    rcases (add_mem_iff hinv h antiOwnerS).1 hm with e | e
    · rw [toLower_idem] at e
      exact hne (by simp [e])
    · exact ho e.1

theorem modifyUser_strong {db db' : Db} {id : Nat} {f : User → R User} (h : db.Strong)
    (hf : ∀ u u', u ∈ db.users → f u = .ok u' → StrongSet u'.caps ∧ antiOwnerS ∉ u'.caps)
    (he : db.modifyUser id f = .ok db') : db'.Strong := by
  unfold Db.modifyUser at he
  split at he
  · cases he
  · rename_i u hu
    split at he
    · cases he
    · rename_i u' hfu
      injection he with he; subst he
      refine ⟨?_, h.channels, h.defaults, h.registered⟩
      intro v hv
      rcases mem_putUser hv with e | e
      · subst e; exact hf u u' (getUserById_mem hu) hfu
      · exact h.users v e

theorem modifyChannel_strong {db db' : Db} {ch : Str} {f : Channel → R Channel} (h : db.Strong)
    (hf : ∀ c c', StrongSet c.caps → f c = .ok c' → StrongSet c'.caps)
    (he : db.modifyChannel ch f = .ok db') : db'.Strong := by
  unfold Db.modifyChannel at he
  split at he
  · cases he
  · rename_i c' hfc
    injection he with he; subst he
    refine ⟨h.users, ?_, h.defaults, h.registered⟩
    intro p hp
    rcases mem_putChannel hp with e | e
    · subst e; exact hf _ c' (getChannel_strong h ch) hfc
    · exact h.channels p e

theorem owner_pair_excl_add {s s' : CapSet} {cap : Str} (h : CapSet.add s cap = .ok s')
    (hs : ¬ (ownerS ∈ s ∧ antiOwnerS ∈ s)) : ¬ (ownerS ∈ s' ∧ antiOwnerS ∈ s') := by
  unfold CapSet.add at h
  simp only at h
  split at h
  · cases h
  · rename_i inv hinv
    injection h with h; subst h
    intro ⟨h1, h2⟩
    rcases mem_insert.1 h1 with e1 | e1
    · -- toLower cap = owner, so inv = -owner was erased
      rw [← e1, show invertCapability ownerS = .ok antiOwnerS from invert_keyPos chanOK_none baseOK_owner] at hinv
      injection hinv with hinv; subst hinv
      rcases mem_insert.1 h2 with e2 | e2
      · rw [← e1] at e2; exact absurd e2 (by decide)
      · exact (mem_erase.1 e2).2 rfl
    · rcases mem_insert.1 h2 with e2 | e2
      · rw [← e2, show invertCapability antiOwnerS = .ok ownerS from invert_keyNeg chanOK_none baseOK_owner] at hinv
        injection hinv with hinv; subst hinv
        exact (mem_erase.1 e1).2 rfl
      · exact hs ⟨(mem_erase.1 e1).1, (mem_erase.1 e2).1⟩

theorem owner_pair_excl_fold (v : List Str) (s s' : CapSet) (h : v.foldlM CapSet.add s = .ok s')
    (hs : ¬ (ownerS ∈ s ∧ antiOwnerS ∈ s)) : ¬ (ownerS ∈ s' ∧ antiOwnerS ∈ s') := by
  induction v generalizing s with
  | nil => simp only [List.foldlM_nil, pure, Except.pure] at h; injection h with h; subst h; exact hs
  | cons c cs ih =>
    simp only [List.foldlM_cons, bind, Except.bind] at h
    split at h
    · cases h
    · rename_i s1 h1
      exact ih s1 h (owner_pair_excl_add h1 hs)

/-! ### `isCapability` and Python's `str.split()` -/

theorem splitWs_go_nospace (s acc : Str) (hs : s.all (fun c => !isSpace c) = true) :
    splitWs.go s acc = if acc.isEmpty && s.isEmpty then [] else [acc.reverse ++ s] := by
  induction s generalizing acc with
  | nil =>
    simp only [splitWs.go, List.append_nil, List.isEmpty_nil, Bool.and_true]
  | cons c cs ih =>
    simp only [List.all_cons, Bool.and_eq_true, Bool.not_eq_true'] at hs
    simp only [splitWs.go, hs.1, Bool.false_eq_true, if_false]
    rw [ih _ hs.2]
    simp

theorem splitWs_go_words (s acc : Str) (hacc : acc.all (fun c => !isSpace c) = true) :
    ∀ w ∈ splitWs.go s acc, w ≠ [] ∧ w.all (fun c => !isSpace c) = true := by
  induction s generalizing acc with
  | nil =>
    intro w hw
    simp only [splitWs.go] at hw
    split at hw
    · cases hw
    · rename_i hne
      rw [List.mem_singleton] at hw
      subst hw
      refine ⟨?_, by simpa using hacc⟩
      intro e
      have : acc = [] := by simpa using e
      subst this; simp at hne
  | cons c cs ih =>
    intro w hw
    simp only [splitWs.go] at hw
    split at hw
    · split at hw
      · exact ih [] rfl w hw
      · rename_i hne
        rcases List.mem_cons.1 hw with e | e
        · subst e
          refine ⟨?_, by simpa using hacc⟩
          intro e
          have : acc = [] := by simpa using e
          subst this; simp at hne
        · exact ih [] rfl w e
    · rename_i hc
      apply ih (c :: acc) _ w hw
      simp only [List.all_cons, hacc, Bool.and_true]
      simpa using hc

/-- the model's `isCapability` is Python's `capability.split() == [capability]` -/
theorem isCapability_eq_splitWs (s : Str) : isCapability s = (splitWs s == [s]) := by
  unfold isCapability splitWs
  cases hs : s.all (fun c => !isSpace c) with
  | true =>
    rw [splitWs_go_nospace s [] hs]
    cases s with
    | nil => rfl
    | cons c cs => simp
  | false =>
    simp only [Bool.and_false]
    symm
    rw [beq_eq_false_iff_ne]
    intro e
    have := (splitWs_go_words s [] rfl s (by rw [e]; simp)).2
    rw [hs] at this; cases this


/-! ### `str.lower()` as a parameter
`ChannelsDictionary.getChannel` keys a channel by `toLower(channel.lower())`.  The model uses ASCII
lowering for `str.lower()`; the case-insensitivity of channel names needs only the following
contract of `lower`, which the harness tests against CPython's `str.lower` on every BMP code point
(`harness/c03.py`, stream `lower-contract`). -/

/-- the channel key with `str.lower` as a parameter -/
def chanKeyP (lower : Str → Str) (ch : Str) : Str := toLower (lower ch)

/-- contract: IRC-lowering the input first does not change the IRC-lowered result of `lower` -/
def LowerOK (lower : Str → Str) : Prop := ∀ s, toLower (lower (toLower s)) = toLower (lower s)

theorem chanKeyP_toLower {lower : Str → Str} (h : LowerOK lower) (ch : Str) :
    chanKeyP lower (toLower ch) = chanKeyP lower ch := h ch

theorem chanKey_eq_chanKeyP : chanKey = chanKeyP asciiLower := rfl

theorem asciiLower_ok : LowerOK asciiLower := chanKey_toLower

/-- two channel names that are equal under IRC case folding get the same record, for any `lower`
that meets the contract -/
theorem chanKeyP_case_insens {lower : Str → Str} (h : LowerOK lower) (a b : Str)
    (hab : toLower a = toLower b) : chanKeyP lower a = chanKeyP lower b := by
  rw [← chanKeyP_toLower h a, ← chanKeyP_toLower h b, hab]

end C03
