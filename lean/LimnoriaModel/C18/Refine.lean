/-
C18 — the Scheduler-plugin model refines the core scheduler model.

`Plugin.lean` carries its own copy of the schedule (`PState.sched`, `counter`, `now`), driven by
`addEv` / `removeEv` / the pops of `runP`.  Here that copy is shown to be the core model (`Model.lean`)
driven through its API: a simulation `Sim s c` (same due times and names in the same order, same
counter, same clock, and the core invariant) is kept by every plugin operation, each of which
corresponds to a sequence of core calls — `addEvent`, `removeEvent`, the head of an iteration of
`run()` (a valid pick: due, of minimal due time), a clock tick, a new process.  So the two models are
linked by a theorem, and what is proved of the core scheduler's states holds of the plugin's schedule.
-/
import LimnoriaModel.C18.PluginLemmas
import LimnoriaModel.C18.Run
namespace C18
open Py List Plug

def pshape (l : List PEntry) : List (Nat × Name) := l.map (fun e => (e.t, e.name))
def cshape (l : List Entry) : List (Nat × Name) := l.map (fun e => (e.t, e.name))

structure Sim (s : PState) (c : Sched) : Prop where
  shape : pshape s.sched = cshape c.sched
  counter : s.counter = c.counter
  now : s.now = c.now
  inv : NameInv c

/-- calls of the core API -/
inductive CoreCall where
  | add (f : FnRef) (t : Nat) (name : Option Name) (args : Args)
  | remove (n : Name)
  | pop (p : Name)            -- `run()`: heappop + `self.events.pop(name)` of one iteration
  | tick (dt : Nat)
  | fresh                     -- a new process: `Schedule()` with nothing scheduled, counter 0
deriving Repr

def coreStep (c : Sched) : CoreCall → Option Sched
  | .add f t name args => some (addEvent c f t name args none).1.1
  | .remove n => some (removeOp c n).1
  | .pop p =>
    if !loopCond c then none else
    match c.sched.find? (fun e => e.name = p ∧ some e.t = minDue c.sched) with
    | none => none
    | some e =>
      match dictPop c.events p with
      | none => none
      | some (_, d) => some { c with sched := c.sched.erase e, events := d }
  | .tick dt => some { c with now := c.now + dt }
  | .fresh => some { c with sched := [], events := [], counter := 0 }

def coreRun : Sched → List CoreCall → Option Sched
  | c, [] => some c
  | c, x :: xs => match coreStep c x with
    | none => none
    | some c' => coreRun c' xs

theorem coreRun_append : ∀ (xs ys : List CoreCall) (c c' : Sched), coreRun c xs = some c' →
    coreRun c (xs ++ ys) = coreRun c' ys
  | [], ys, c, c', h => by injection h with h; subst h; rfl
  | x :: xs, ys, c, c', h => by
    simp only [coreRun, cons_append] at *
    split at h
    · cases h
    · rename_i c1 h1
      exact coreRun_append xs ys c1 c' h

/-- `∃ calls` packaged: `c'` is reached from `c` through the core API -/
def Reach (c c' : Sched) : Prop := ∃ calls, coreRun c calls = some c'

theorem Reach.refl (c : Sched) : Reach c c := ⟨[], rfl⟩
theorem Reach.trans {a b c : Sched} (h1 : Reach a b) (h2 : Reach b c) : Reach a c := by
  obtain ⟨x, hx⟩ := h1; obtain ⟨y, hy⟩ := h2
  exact ⟨x ++ y, by rw [coreRun_append x y a b hx]; exact hy⟩
theorem Reach.one {c c' : Sched} (x : CoreCall) (h : coreStep c x = some c') : Reach c c' :=
  ⟨[x], by simp [coreRun, h]⟩

/-! ### shapes -/

theorem snames_eq {s : PState} {c : Sched} (h : Sim s c) : snames s.sched = names c.sched := by
  have := congrArg (List.map Prod.snd) h.shape
  simpa [pshape, cshape, snames, names, Function.comp_def] using this

theorem Sim.mem_iff {s : PState} {c : Sched} (h : Sim s c) (n : Name) :
    n ∈ snames s.sched ↔ hasKey c.events n = true := by
  rw [snames_eq h, hasKey_iff, h.inv.same]

/-- the parts of the plugin state the simulation does not look at -/
theorem Sim.of_eq {s s' : PState} {c : Sched} (h : Sim s c) (h1 : s'.sched = s.sched)
    (h2 : s'.counter = s.counter) (h3 : s'.now = s.now) : Sim s' c :=
  ⟨by rw [h1]; exact h.shape, by rw [h2]; exact h.counter, by rw [h3]; exact h.now, h.inv⟩

/-! ### addEvent -/

theorem sim_addEv {s : PState} {c : Sched} (h : Sim s c) (mk : Name → PFn) (f : FnRef) (t : Nat)
    (name : Option Name) (args : Args) :
    Sim (addEv s mk t name).1 (addEvent c f t name args none).1.1 := by
  have hinv := addEvent_inv c f t name args none h.inv
  cases name with
  | none =>
    have hm := h.mem_iff (.num s.counter)
    unfold addEv addEvent
    dsimp only
    rw [← h.counter]
    by_cases hk : hasKey c.events (.num s.counter) = true
    · have : Name.num s.counter ∈ snames s.sched := hm.mpr hk
      simp only [this, hk, if_true]
      exact ⟨h.shape, by simp [h.counter], h.now, by
        have := hinv; unfold addEvent at this; dsimp only at this; rw [← h.counter] at this
        simpa [hk] using this⟩
    · have hn : Name.num s.counter ∉ snames s.sched := fun x => hk (hm.mp x)
      simp only [hn, hk, if_false, Bool.false_eq_true]
      refine ⟨?_, by simp [h.counter], h.now, ?_⟩
      · simp [pshape, cshape]; exact h.shape
      · have := hinv; unfold addEvent at this; dsimp only at this; rw [← h.counter] at this
        simpa [hk] using this
  | some n =>
    have hm := h.mem_iff n
    unfold addEv addEvent
    dsimp only
    by_cases hk : hasKey c.events n = true
    · have : n ∈ snames s.sched := hm.mpr hk
      simp only [this, hk, if_true]
      exact ⟨h.shape, h.counter, h.now, h.inv⟩
    · have hn : n ∉ snames s.sched := fun x => hk (hm.mp x)
      simp only [hn, hk, if_false, Bool.false_eq_true]
      refine ⟨?_, h.counter, h.now, ?_⟩
      · simp [pshape, cshape]; exact h.shape
      · have := hinv; unfold addEvent at this; dsimp only at this
        simpa [hk] using this

theorem reach_addEv {s : PState} {c : Sched} (h : Sim s c) (mk : Name → PFn) (t : Nat) (name : Option Name) :
    ∃ c', Reach c c' ∧ Sim (addEv s mk t name).1 c' :=
  ⟨_, Reach.one (.add (.plain 0) t name []) rfl, sim_addEv h mk (.plain 0) t name []⟩

/-! ### removeEvent -/

theorem pshape_filter (l : List PEntry) (n : Name) :
    pshape (l.filter (fun e => !(e.name = n))) = (pshape l).filter (fun p => !(p.2 = n)) := by
  induction l with
  | nil => rfl
  | cons x xs ih =>
    simp only [pshape, filter_cons, map_cons] at *
    by_cases hx : x.name = n <;> simp [hx, ih]

theorem cshape_filter (l : List Entry) (n : Name) :
    cshape (l.filter (fun e => !(e.name = n))) = (cshape l).filter (fun p => !(p.2 = n)) := by
  induction l with
  | nil => rfl
  | cons x xs ih =>
    simp only [cshape, filter_cons, map_cons] at *
    by_cases hx : x.name = n <;> simp [hx, ih]

theorem sim_removeEvent {s : PState} {c : Sched} (h : Sim s c) (n : Name) (hn : n ∈ snames s.sched) :
    Sim { s with sched := s.sched.filter (fun e => !(e.name = n)) } (removeEvent c n).1 := by
  have hk : n ∈ keys c.events := (hasKey_iff _ _).mp ((h.mem_iff n).mp hn)
  have hinv := removeEvent_inv c n h.inv
  unfold removeEvent at *
  cases hp : dictPop c.events n with
  | none => exact absurd hk ((dictPop_none_iff _ _).mp hp)
  | some fd =>
    obtain ⟨f, d⟩ := fd
    rw [hp] at hinv
    exact ⟨by simp only [pshape_filter, cshape_filter, h.shape], h.counter, h.now, hinv⟩

theorem removeOp_state (c : Sched) (n : Name) (hk : n ∈ keys c.events) : (removeOp c n).1 = (removeEvent c n).1 := by
  unfold removeOp removeEvent
  cases hp : dictPop c.events n with
  | none => exact absurd hk ((dictPop_none_iff _ _).mp hp)
  | some fd => rfl

theorem reach_removeEv {s s' : PState} {c : Sched} (h : Sim s c) (n : Name) (hr : removeEv s n = some s') :
    ∃ c', Reach c c' ∧ Sim s' c' := by
  unfold removeEv at hr
  split at hr
  · rename_i hn
    injection hr with hr; subst hr
    have hk : n ∈ keys c.events := (hasKey_iff _ _).mp ((h.mem_iff n).mp hn)
    refine ⟨(removeOp c n).1, Reach.one (.remove n) rfl, ?_⟩
    rw [removeOp_state c n hk]
    exact sim_removeEvent h n hn
  · cases hr

/-! ### one iteration of `run()` -/

def minOf : List Nat → Option Nat
  | [] => none
  | t :: ts => match minOf ts with
    | none => some t
    | some m => some (if t ≤ m then t else m)

theorem minT_eq (l : List PEntry) : minT l = minOf ((pshape l).map Prod.fst) := by
  induction l with
  | nil => rfl
  | cons x xs ih =>
    simp only [minT, pshape, map_cons, minOf] at *; rw [ih]
    generalize minOf (map Prod.fst (map (fun e => (e.t, e.name)) xs)) = o
    cases o <;> rfl

theorem minDue_eq (l : List Entry) : minDue l = minOf ((cshape l).map Prod.fst) := by
  induction l with
  | nil => rfl
  | cons x xs ih =>
    simp only [minDue, cshape, map_cons, minOf] at *; rw [ih]
    generalize minOf (map Prod.fst (map (fun e => (e.t, e.name)) xs)) = o
    cases o <;> rfl

theorem erase_eq_filter {l : List Entry} (hn : (names l).Nodup) {e : Entry} (he : e ∈ l) :
    l.erase e = l.filter (fun x => !(x.name = e.name)) := by
  induction l with
  | nil => cases he
  | cons x xs ih =>
    simp only [names, map_cons, nodup_cons] at hn
    by_cases hx : x = e
    · subst hx
      simp only [erase_cons_head, filter_cons, decide_true, Bool.not_true, Bool.false_eq_true, if_false]
      symm
      rw [filter_eq_self]
      intro y hy
      have : y.name ≠ x.name := fun hh => hn.1 (by rw [← hh]; exact mem_map_of_mem hy)
      simp [this]
    · have he' : e ∈ xs := by
        rcases mem_cons.mp he with h1 | h1
        · exact absurd h1.symm hx
        · exact h1
      have hne : x.name ≠ e.name := fun hh => hn.1 (by rw [hh]; exact mem_map_of_mem he')
      rw [erase_cons_tail (by simpa using hx)]
      simp only [filter_cons, hne, decide_false, Bool.not_false, if_true]
      rw [ih hn.2 he']

/-- the pop of an iteration of the plugin model's `runP` is a valid pop of the core `run()` -/
theorem reach_pop {s : PState} {c : Sched} (h : Sim s c) (p : Name) (e : PEntry) (hd : due s = true)
    (hf : s.sched.find? (fun e => e.name = p ∧ some e.t = minT s.sched) = some e) :
    ∃ c', Reach c c' ∧ Sim { s with sched := s.sched.filter (fun x => !(x.name = p)) } c' := by
  have hmin : minT s.sched = minDue c.sched := by rw [minT_eq, minDue_eq, h.shape]
  have hloop : loopCond c = true := by
    unfold due at hd; unfold loopCond
    rw [← hmin, ← h.now]; exact hd
  have hmem := mem_of_find?_eq_some hf
  have hp := find?_some hf
  simp only [decide_eq_true_eq] at hp
  have hpn : p ∈ snames s.sched := by simp only [snames, mem_map]; exact ⟨e, hmem, hp.1⟩
  have hk : p ∈ keys c.events := (hasKey_iff _ _).mp ((h.mem_iff p).mp hpn)
  -- the same (time, name) pair is in the core schedule
  have hpair : (e.t, e.name) ∈ cshape c.sched := by
    rw [← h.shape]; simp only [pshape, mem_map]; exact ⟨e, hmem, rfl⟩
  simp only [cshape, mem_map] at hpair
  obtain ⟨e', he'mem, he'eq⟩ := hpair
  injection he'eq with ht hn
  have hsome : (c.sched.find? (fun x => x.name = p ∧ some x.t = minDue c.sched)).isSome = true := by
    rw [find?_isSome]
    exact ⟨e', he'mem, by simp only [decide_eq_true_eq]; exact ⟨hn.trans hp.1, by rw [ht, ← hmin]; exact hp.2⟩⟩
  cases hfc : c.sched.find? (fun x => x.name = p ∧ some x.t = minDue c.sched) with
  | none => rw [hfc] at hsome; cases hsome
  | some e2 =>
    have h2mem := mem_of_find?_eq_some hfc
    have h2 := find?_some hfc
    simp only [decide_eq_true_eq] at h2
    cases hdp : dictPop c.events p with
    | none => exact absurd hk ((dictPop_none_iff _ _).mp hdp)
    | some fd =>
      obtain ⟨f, d⟩ := fd
      have hstate : ({ c with sched := c.sched.erase e2, events := d } : Sched) = (removeEvent c p).1 := by
        unfold removeEvent
        rw [hdp, erase_eq_filter h.inv.schedNodup h2mem, h2.1]
      refine ⟨{ c with sched := c.sched.erase e2, events := d }, Reach.one (.pop p) (by simp only [coreStep, hloop, Bool.not_true, Bool.false_eq_true, if_false, hfc, hdp]), ?_⟩
      rw [hstate]
      exact sim_removeEvent h p hpn

/-! ### every plugin operation is a sequence of core calls -/

/-- from `c` the core API leads to a state that simulates `s` -/
def Refines (s : PState) (c : Sched) : Prop := ∃ c', Reach c c' ∧ Sim s c'

theorem Refines.of_sim {s : PState} {c : Sched} (h : Sim s c) : Refines s c := ⟨c, Reach.refl c, h⟩

theorem Refines.bind {s s' : PState} {c : Sched} (h : Refines s c) (f : ∀ c', Sim s c' → Refines s' c') :
    Refines s' c := by
  obtain ⟨c1, r1, s1⟩ := h
  obtain ⟨c2, r2, s2⟩ := f c1 s1
  exact ⟨c2, r1.trans r2, s2⟩

theorem Refines.of_eq {s s' : PState} {c : Sched} (h : Refines s c) (h1 : s'.sched = s.sched)
    (h2 : s'.counter = s.counter) (h3 : s'.now = s.now) : Refines s' c := by
  obtain ⟨c1, r1, s1⟩ := h
  exact ⟨c1, r1, s1.of_eq h1 h2 h3⟩

theorem addEv_ref {s : PState} {c : Sched} (h : Sim s c) (mk : Name → PFn) (t : Nat) (name : Option Name) :
    Refines (addEv s mk t name).1 c := reach_addEv h mk t name

theorem cmdAdd_ref {s : PState} {c : Sched} (h : Sim s c) (sec cmd : Nat) : Refines (cmdAdd s sec cmd).1 c := by
  have ha := addEv_ref h (fun nm => .single s.inst (idOf nm) cmd) (s.now + sec) none
  unfold cmdAdd
  split
  · exact .of_sim h
  · split
    · rename_i s1 heq; rw [heq] at ha; exact ha
    · rename_i s1 nm heq; rw [heq] at ha; exact ha.of_eq rfl rfl rfl

theorem cmdRepeat_ref {s : PState} {c : Sched} (h : Sim s c) (name : Str) (period cmd delay : Nat) :
    Refines (cmdRepeat s name period cmd delay).1 c := by
  have ha := addEv_ref h (fun _ => .repeating s.inst name period cmd) (s.now + delay) (some (.str name))
  unfold cmdRepeat
  split
  · exact .of_sim h
  · split
    · exact .of_sim h
    · split
      · rename_i s1 heq; rw [heq] at ha; exact ha
      · rename_i s1 nm heq; rw [heq] at ha; exact ha.of_eq rfl rfl rfl

theorem cmdRemove_ref {s : PState} {c : Sched} (h : Sim s c) (k : Key) : Refines (cmdRemove s k).1 c := by
  unfold cmdRemove
  split
  · exact .of_sim h
  · split
    · exact .of_sim h
    · dsimp only
      split
      · exact .of_sim (h.of_eq rfl rfl rfl)
      · rename_i s2 hr
        exact reach_removeEv (h.of_eq (s' := { s with table := tdel s.table k }) rfl rfl rfl) _ hr

theorem unschedule_ref : ∀ (ks : List Key) (s : PState) (c : Sched), Sim s c → Refines (unschedule s ks) c
  | [], _, _, h => .of_sim h
  | k :: ks, s, c, h => by
    unfold unschedule
    split
    · exact unschedule_ref ks s c h
    · rename_i s1 hr
      exact Refines.bind (reach_removeEv h _ hr) (fun c' h' => unschedule_ref ks s1 c' h')

theorem die_ref {s : PState} {c : Sched} (h : Sim s c) : Refines (die s) c := by
  unfold die
  dsimp only
  have hf : Sim (flush s) c := by
    unfold flush; split
    · exact h.of_eq rfl rfl rfl
    · exact h
  exact (unschedule_ref _ _ c hf).of_eq rfl rfl rfl

theorem restoreOne_ref {s : PState} {c : Sched} (h : Sim s c) (k : Key) (r : Rec) :
    Refines (restoreOne s k r).1 c := by
  unfold restoreOne
  split
  · rename_i i
    have ha := addEv_ref h (fun nm => .single s.inst (idOf nm) r.cmd) r.time
      (if i < s.counter then some (.num i) else none)
    dsimp only
    split
    · rename_i s1 heq; rw [heq] at ha; exact ha.of_eq rfl rfl rfl
    · rename_i s1 nm heq; rw [heq] at ha; exact ha.of_eq rfl rfl rfl
  · rename_i nm
    have ha := addEv_ref h (fun _ => .repeating s.inst nm r.time r.cmd)
      (s.now + nextRunIn r.firstRun s.now r.time) (some (.str nm))
    split
    · rename_i s1 heq; rw [heq] at ha; exact ha.of_eq rfl rfl rfl
    · rename_i s1 x heq; rw [heq] at ha; exact ha.of_eq rfl rfl rfl

theorem restore_ref : ∀ (tb : Table) (s : PState) (c : Sched), Sim s c → Refines (restore s tb).1 c
  | [], _, _, h => .of_sim h
  | (k, r) :: rest, s, c, h => by
    unfold restore
    dsimp only
    exact Refines.bind (restoreOne_ref h k r) (fun c' h' => restore_ref rest _ c' h')

theorem load_ref {s : PState} {c : Sched} (h : Sim s c) : Refines (load s).1 c := by
  unfold load
  split
  · exact .of_sim h
  · dsimp only
    exact restore_ref _ _ c (h.of_eq rfl rfl rfl)

theorem unload_ref {s : PState} {c : Sched} (h : Sim s c) : Refines (unload s).1 c := by
  unfold unload
  split
  · exact .of_sim h
  · exact die_ref h

theorem reload_ref {s : PState} {c : Sched} (h : Sim s c) : Refines (reload s).1 c := by
  unfold reload
  split
  · exact .of_sim h
  · exact Refines.bind (die_ref h) (fun c' h' => load_ref h')

theorem fresh_sim {s : PState} {c : Sched} (h : Sim s c) :
    Sim { s with sched := [], counter := 0 } { c with sched := [], events := [], counter := 0 } :=
  ⟨rfl, rfl, h.now, ⟨by simp [names], by simp [keys], by intro n; simp [names, keys]⟩⟩

theorem restart_ref {s : PState} {c : Sched} (h : Sim s c) : Refines (restart s).1 c := by
  unfold restart
  dsimp only
  have h1 : Refines (if s.loaded = true then die s else s) c := by
    split
    · exact die_ref h
    · exact .of_sim h
  refine Refines.bind h1 (fun c' h' => ?_)
  have hf := fresh_sim h'
  exact Refines.bind ⟨_, Reach.one .fresh rfl, hf⟩ (fun c2 h2 => load_ref h2)

theorem fire_ref {s : PState} {c : Sched} (h : Sim s c) (e : PEntry) : Refines (fire s e).1 c := by
  unfold fire
  split
  · split
    · split
      · exact .of_sim h
      · exact .of_sim (h.of_eq rfl rfl rfl)
    · exact .of_sim h
  · dsimp only
    exact addEv_ref h _ _ _
  · exact .of_sim h

theorem runP_ref : ∀ (picks : List Name) (s : PState) (c : Sched) (r : PState × List PEv),
    Sim s c → runP s picks = some r → Refines r.1 c
  | [], s, c, r, h, hr => by
    unfold runP at hr
    split at hr
    · cases hr
    · injection hr with hr; subst hr; exact .of_sim h
  | p :: ps, s, c, r, h, hr => by
    unfold runP at hr
    split at hr
    · cases hr
    · rename_i hdue
      simp only [Bool.not_eq_true, Bool.not_eq_false'] at hdue
      split at hr
      · cases hr
      · rename_i e hf
        dsimp only at hr
        split at hr
        · cases hr
        · rename_i r2 h2
          injection hr with hr; subst hr
          refine Refines.bind (reach_pop h p e (by simpa using hdue) hf) (fun c1 h1 => ?_)
          exact Refines.bind (fire_ref h1 e) (fun c2 h2' => runP_ref ps _ c2 r2 h2' h2)

theorem pstep_ref {s : PState} {c : Sched} (h : Sim s c) (op : POp) (r : PRes) (hr : pstep s op = some r) :
    Refines r.1 c := by
  cases op with
  | add sec cmd => injection hr with hr; subst hr; exact cmdAdd_ref h sec cmd
  | remove k => injection hr with hr; subst hr; exact cmdRemove_ref h k
  | repeat_ nm p cm d => injection hr with hr; subst hr; exact cmdRepeat_ref h nm p cm d
  | list =>
    injection hr with hr; subst hr
    unfold cmdList; split <;> exact .of_sim h
  | flush =>
    injection hr with hr; subst hr
    show Refines (Plug.flush s) c
    unfold Plug.flush; split
    · exact .of_sim (h.of_eq rfl rfl rfl)
    · exact .of_sim h
  | load => injection hr with hr; subst hr; exact load_ref h
  | unload => injection hr with hr; subst hr; exact unload_ref h
  | reload => injection hr with hr; subst hr; exact reload_ref h
  | restart => injection hr with hr; subst hr; exact restart_ref h
  | foreign tag t =>
    injection hr with hr; subst hr
    exact addEv_ref h _ _ _
  | tick dt =>
    injection hr with hr; subst hr
    exact ⟨{ c with now := c.now + dt }, Reach.one (.tick dt) rfl,
      ⟨h.shape, h.counter, by show s.now + dt = c.now + dt; rw [h.now], ⟨h.inv.schedNodup, h.inv.keysNodup, h.inv.same⟩⟩⟩
  | run picks =>
    simp only [pstep, Option.map_eq_some_iff] at hr
    obtain ⟨r0, hr0, hr1⟩ := hr
    subst hr1
    exact runP_ref picks s c r0 h hr0

theorem prun_ref : ∀ (ops : List POp) (s : PState) (c : Sched) (r : PState × List PEv),
    Sim s c → prun s ops = some r → Refines r.1 c
  | [], s, c, r, h, hr => by injection hr with hr; subst hr; exact .of_sim h
  | op :: ops, s, c, r, h, hr => by
    unfold prun at hr
    split at hr
    · cases hr
    · rename_i r1 h1
      split at hr
      · cases hr
      · rename_i r2 h2
        injection hr with hr; subst hr
        exact Refines.bind (pstep_ref h op r1 h1) (fun c' h' => prun_ref ops r1.1 c' r2 h' h2)

theorem pinit_sim (now : Nat) : Sim (pinit now) (init now) :=
  ⟨rfl, rfl, rfl, init_nameInv now⟩

end C18
