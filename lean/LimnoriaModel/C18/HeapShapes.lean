/-
C18 — using the heap model to direct the search: the heap shapes on which a cheaper `removeEvent`
("move the last entry into the freed slot and restore the heap from there downwards only", i.e.
`heapq._siftup(heap, i)` without the matching sift towards the root) breaks the heap invariant.
`removeEvent` rebuilds the heap with `heapify` (proved correct: `heap_heapify_ok`); the shapes listed
here are exactly the inputs on which an implementation that does less goes wrong, so the harness
replays every one of them (small scope: all insertion orders of up to 8 distinct due times, every
removed position) against the real scheduler and checks that `run()` still fires in due-time order.
-/
import LimnoriaModel.C18.Heap
namespace C18.Heap
open Py List

def isHeap (h : H) : Bool :=
  (List.range h.length).all fun j => j == 0 || !lt (at_ h j) (at_ h (par j))

/-- the shortcut: last entry into the hole, `_siftup` from there (never towards the root) -/
def removeAtLazy (h : H) (i : Nat) : H :=
  let last := at_ h (h.length - 1)
  let h' := h.dropLast
  if i < h'.length then siftup (h'.set i last) i else h'

def insertAll (x : Nat) : List Nat → List (List Nat)
  | [] => [[x]]
  | y :: ys => (x :: y :: ys) :: (insertAll x ys).map (y :: ·)

def perms : List Nat → List (List Nat)
  | [] => [[]]
  | x :: xs => (perms xs).flatMap (insertAll x)

/-- the heap after `addEvent`s with these due times, in this order -/
def build (order : List Nat) : H := order.foldl (fun h d => heappush h ⟨d, .num d, [], d⟩) []

/-- (insertion order, due time of the removed event) on which the shortcut leaves a non-heap -/
def fragile (n : Nat) : List (List Nat × Nat) :=
  (perms (List.range n)).flatMap fun o =>
    let h := build o
    (List.range n).filterMap fun i =>
      if !isHeap (removeAtLazy h i) then some (o, (at_ h i).t) else none

/-- there is no such shape with five events or fewer -/
example : fragile 5 = [] := by decide

/-- the reported shape (due times ranked): adds in this order, then the one due last (heap slot 3) removed -/
example : isHeap (removeAtLazy (build [1, 6, 0, 3, 4, 5, 2]) 3) = false := by decide

/-- … while what `removeEvent` does (filter, `heapify`) yields a heap there -/
example : isHeap (heapify ((build [1, 6, 0, 3, 4, 5, 2]).filter (fun e => e.t != 6))) = true := by decide

end C18.Heap
