/-
C18 — model of `supybot.schedule.Schedule` (src/schedule.py:56-160): `addEvent`, `removeEvent`,
`rescheduleEvent`, `makePeriodicWrapper`, `addPeriodicEvent`, `reset`, `run`, including events
whose functions schedule, remove or reschedule other events while running and functions that raise.

The heap is a multiset of entries; `heapq.heappop` returns *some* entry of minimal due time
(trusted: CPython's heapq with `mytuple.__lt__` comparing due times only).  Which one is a
parameter: `runPicks` replays the order the implementation chose and checks every choice is a
minimum, so the theorems hold for every resolution of ties.

Event functions are indices into a program (a table of bodies); a body is a list of scheduler
calls the function makes when it runs, possibly ending in a `raise`.
`rid` is a ghost registration number (one per successful `addEvent`, kept by `rescheduleEvent`).
-/
import LimnoriaModel.Py.Basic
namespace C18
open Py

inductive Name where
  | num (n : Nat)     -- taken from `self.counter`
  | str (s : Str)
deriving DecidableEq, Repr

abbrev Args := List Str

/-- a due time given absolutely or as `time.time() + d` -/
inductive Time where
  | abs (t : Nat)
  | rel (d : Nat)
deriving DecidableEq, Repr

def Time.at (now : Nat) : Time → Nat
  | .abs t => t
  | .rel d => now + d

/-- one scheduler call made by an event function -/
inductive Act where
  | add (fn : Nat) (t : Time) (name : Option Name) (args : Args)
  | remove (name : Name)
  | resched (name : Name) (t : Time)
  | addPeriodic (fn : Nat) (period : Nat) (name : Option Name) (args : Args) (count : Option Nat)
  | raise
deriving DecidableEq, Repr

/-- the bodies of the event functions -/
abbrev Prog := List (List Act)

/-- what is stored in `self.events[name]` -/
inductive FnRef where
  | plain (fn : Nat)
  | wrapper (fn : Nat) (period : Nat) (name : Option Name) (args : Args) (count : Option Nat)
deriving DecidableEq, Repr

/-- `mytuple((t, name, args, kwargs))` -/
structure Entry where
  t : Nat
  name : Name
  args : Args
  rid : Nat
deriving DecidableEq, Repr

structure Sched where
  sched : List Entry                 -- self.schedule (a heap: order is not observable)
  events : List (Name × FnRef)       -- self.events
  counter : Nat
  now : Nat                          -- time.time()
  nextRid : Nat
deriving DecidableEq, Repr

inductive Exc where
  | assertion      -- 'An event with the same name has already been scheduled.'
  | keyError       -- self.events.pop(name)
  | raised         -- the event function raised
deriving DecidableEq, Repr

inductive Ev where
  | registered (rid : Nat) (name : Name) (t : Nat) (f : FnRef) (args : Args)
  | fired (rid : Option Nat) (due now : Nat) (fn : Nat) (args : Args)
  | removed (rid : Nat)
  | rescheduled (rid : Nat) (t : Nat)
  | discarded (rids : List Nat)
  | failed (e : Exc)
deriving DecidableEq, Repr

/-! ### the dict `self.events` -/

def hasKey (d : List (Name × FnRef)) (n : Name) : Bool := d.any (fun p => p.1 = n)

def dictPop (d : List (Name × FnRef)) (n : Name) : Option (FnRef × List (Name × FnRef)) :=
  match d.find? (fun p => p.1 = n) with
  | none => none
  | some p => some (p.2, d.filter (fun q => !(q.1 = n)))

/-! ### addEvent / removeEvent / rescheduleEvent -/

/-- result of a call: new state, events, exception if one escaped -/
abbrev Res := Sched × List Ev × Option Exc

/-- `addEvent(f, t, name, args)`; `rid` = the registration this entry continues (reschedule) -/
def addEvent (s : Sched) (f : FnRef) (t : Nat) (name : Option Name) (args : Args)
    (rid : Option Nat) : Res × Name :=
  let nm : Name := match name with
    | none => .num s.counter
    | some n => n
  let s1 : Sched := match name with
    | none => { s with counter := s.counter + 1 }
    | some _ => s
  if hasKey s1.events nm then ((s1, [.failed .assertion], some .assertion), nm)
  else
    match rid with
    | some r =>
      (({ s1 with events := s1.events ++ [(nm, f)], sched := s1.sched ++ [⟨t, nm, args, r⟩] },
        [.rescheduled r t], none), nm)
    | none =>
      (({ s1 with events := s1.events ++ [(nm, f)], sched := s1.sched ++ [⟨t, nm, args, s1.nextRid⟩],
                  nextRid := s1.nextRid + 1 },
        [.registered s1.nextRid nm t f args], none), nm)

/-- `removeEvent(name)`: the function, or KeyError -/
def removeEvent (s : Sched) (n : Name) : Sched × Option FnRef × List Entry :=
  match dictPop s.events n with
  | none => (s, none, [])
  | some (f, d) =>
    ({ s with events := d, sched := s.sched.filter (fun e => !(e.name = n)) }, some f,
      s.sched.filter (fun e => e.name = n))

def removeOp (s : Sched) (n : Name) : Res :=
  match removeEvent s n with
  | (_, none, _) => (s, [.failed .keyError], some .keyError)
  | (s1, some _, gone) => (s1, gone.map (fun e => .removed e.rid), none)

/-- `rescheduleEvent(name, t)` (after the repair: the arguments are looked up first; the loop keeps
the last matching tuple).  The re-added entry continues the registration of that tuple; any other
tuple of that name (there is none in a reachable state) is simply removed. -/
def reschedOp (s : Sched) (n : Name) (t : Nat) : Res :=
  match removeEvent s n with
  | (_, none, _) => (s, [.failed .keyError], some .keyError)
  | (s1, some f, gone) =>
    match gone.getLast? with
    | some e =>
      let r := (addEvent s1 f t (some n) e.args (some e.rid)).1
      (r.1, gone.dropLast.map (fun g => .removed g.rid) ++ r.2.1, r.2.2)
    | none =>
      let r := (addEvent s1 f t (some n) [] none).1
      (r.1, r.2.1, r.2.2)

/-! ### event functions -/

/-- `addPeriodicEvent(f, t, name, now=False, args, count)` -/
def addPeriodicLater (s : Sched) (fn period : Nat) (name : Option Name) (args : Args)
    (count : Option Nat) : Res :=
  (addEvent s (.wrapper fn period name args count) (s.now + period) name [] none).1

/-- one scheduler call of a body -/
def execAct (s : Sched) : Act → Res
  | .add fn t name args => (addEvent s (.plain fn) (t.at s.now) name args none).1
  | .remove n => removeOp s n
  | .resched n t => reschedOp s n (t.at s.now)
  | .addPeriodic fn period name args count => addPeriodicLater s fn period name args count
  | .raise => (s, [.failed .raised], some .raised)

/-- a body: calls in order, the first exception ends it -/
def execActs : Sched → List Act → Res
  | s, [] => (s, [], none)
  | s, a :: rest =>
    match execAct s a with
    | (s1, ev, some e) => (s1, ev, some e)
    | (s1, ev, none) =>
      let r := execActs s1 rest
      (r.1, ev ++ r.2.1, r.2.2)

def body (P : Prog) (fn : Nat) : List Act := P.getD fn []

/-- `count is None or count > 0` (after the decrement) -/
def again : Option Nat → Bool
  | none => true
  | some c => decide (0 < c)

/-- calling what is stored in `events`: a plain function is called with the entry's arguments;
a periodic wrapper ignores them, calls its function with its own and re-schedules itself in a
`finally` clause whose `return` swallows the function's exception. -/
def call (P : Prog) (s : Sched) (f : FnRef) (rid : Option Nat) (due : Nat) (args : Args) : Res :=
  match f with
  | .plain fn =>
    let r := execActs s (body P fn)
    (r.1, .fired rid due s.now fn args :: r.2.1, r.2.2)
  | .wrapper fn period name wargs count =>
    let r := execActs s (body P fn)
    let count' : Option Nat := count.map (· - 1)
    if again count' then
      let a := (addEvent r.1 (.wrapper fn period name wargs count') (r.1.now + period) name [] none).1
      (a.1, .fired rid due s.now fn wargs :: (r.2.1 ++ a.2.1), a.2.2)
    else
      (r.1, .fired rid due s.now fn wargs :: r.2.1, r.2.2)

/-! ### run -/

def minDue : List Entry → Option Nat
  | [] => none
  | e :: es => match minDue es with
    | none => some e.t
    | some m => some (if e.t ≤ m then e.t else m)

/-- `self.schedule and self.schedule[0][0] < time.time()` -/
def loopCond (s : Sched) : Bool :=
  match minDue s.sched with
  | none => false
  | some m => decide (m < s.now)

inductive RunRes where
  | ok (s : Sched) (evs : List Ev)
  | crashed (s : Sched) (evs : List Ev)     -- `self.events.pop(name)` raised KeyError out of run()
  | invalid                                  -- the picks are not an execution of the loop
deriving DecidableEq, Repr

/-- put the events of an earlier iteration in front -/
def RunRes.prepend (a : List Ev) : RunRes → RunRes
  | .ok s evs => .ok s (a ++ evs)
  | .crashed s evs => .crashed s (a ++ evs)
  | .invalid => .invalid

/-- `run()`, replaying the entries the heap handed out (by name) -/
def runPicks (P : Prog) : Sched → List Name → RunRes
  | s, [] => if loopCond s then .invalid else .ok s []
  | s, p :: ps =>
    if !loopCond s then .invalid else
    match s.sched.find? (fun e => e.name = p ∧ some e.t = minDue s.sched) with
    | none => .invalid
    | some e =>
      let s1 := { s with sched := s.sched.erase e }
      match dictPop s1.events p with
      | none => .crashed s1 []
      | some (f, d) =>
        let r := call P { s1 with events := d } f (some e.rid) e.t e.args
        -- `except Exception: log.exception(...)`
        (runPicks P r.1 ps).prepend r.2.1

/-! ### operations -/

inductive Op where
  | add (fn : Nat) (t : Time) (name : Option Name) (args : Args)
  | remove (name : Name)
  | resched (name : Name) (t : Time)
  | addPeriodic (fn : Nat) (period : Nat) (name : Option Name) (now : Bool) (args : Args)
      (count : Option Nat)
  | run (picks : List Name)
  | tick (dt : Nat)
  | reset
deriving DecidableEq, Repr

/-- `none` = the recorded picks do not describe an execution of `run()` -/
def step (P : Prog) (s : Sched) : Op → Option Res
  | .add fn t name args => some (addEvent s (.plain fn) (t.at s.now) name args none).1
  | .remove n => some (removeOp s n)
  | .resched n t => some (reschedOp s n (t.at s.now))
  | .addPeriodic fn period name now args count =>
    if now then some (call P s (.wrapper fn period name args count) none s.now [])
    else some (addPeriodicLater s fn period name args count)
  | .run picks =>
    match runPicks P s picks with
    | .ok s' evs => some (s', evs, none)
    | .crashed s' evs => some (s', evs ++ [.failed .keyError], some .keyError)
    | .invalid => none
  | .tick dt => some ({ s with now := s.now + dt }, [], none)
  | .reset => some ({ s with sched := [], events := [] }, [.discarded (s.sched.map (·.rid))], none)

def runOps (P : Prog) : Sched → List Op → Option (Sched × List Ev)
  | s, [] => some (s, [])
  | s, op :: ops =>
    match step P s op with
    | none => none
    | some r =>
      match runOps P r.1 ops with
      | none => none
      | some r2 => some (r2.1, r.2.1 ++ r2.2)

def init (now : Nat) : Sched := ⟨[], [], 0, now, 0⟩

end C18
