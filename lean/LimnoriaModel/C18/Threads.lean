/-
C18 — threads: `run()` racing with addEvent / removeEvent / reset from other threads.
Since the repair every method of `Schedule` touches the heap and the dict only inside
`with self.lock:` (the placement is extracted: `Gen.schedLock`), and event functions run outside
it.  So whatever the threads do, the shared state goes through a sequence of *atoms*: one critical
section each.  `run()` contributes one atom per loop iteration (pop from the heap and the dict);
the function it then calls is just another thread making scheduler calls.
-/
import LimnoriaModel.C18.ArgsInv
import LimnoriaModel.Gen.SchedLock
namespace C18
open Py List

/-- one critical section -/
inductive Atom where
  | add (f : FnRef) (t : Nat) (name : Option Name) (args : Args)   -- addEvent
  | remove (n : Name)                                              -- removeEvent
  | pop (p : Name)                                                 -- one iteration of run(): `with self.lock: …`
  | reset
  | tick (dt : Nat)                                                -- time passes
deriving DecidableEq, Repr

inductive AtomRes where
  | ok (s : Sched) (evs : List Ev) (exc : Option Exc)   -- `exc`: the exception the calling thread sees
  | crashed (s : Sched)                                 -- KeyError inside run(): the driver dies
  | disabled                                            -- this atom cannot happen now (loop condition false, bad pick)
deriving DecidableEq, Repr

def fnOf : FnRef → Nat
  | .plain fn => fn
  | .wrapper fn _ _ _ _ => fn

/-- one iteration of `run()`: `with self.lock: heappop; self.events.pop(name)` -/
def popAtom (s : Sched) (p : Name) : AtomRes :=
  if !loopCond s then .disabled else
  match s.sched.find? (fun e => e.name = p ∧ some e.t = minDue s.sched) with
  | none => .disabled
  | some e =>
    match dictPop s.events p with
    | none => .crashed { s with sched := s.sched.erase e }
    | some (f, d) =>
      .ok { s with sched := s.sched.erase e, events := d } [.fired (some e.rid) e.t s.now (fnOf f) e.args] none

def astep (s : Sched) : Atom → AtomRes
  | .add f t name args =>
    .ok (addEvent s f t name args none).1.1 (addEvent s f t name args none).1.2.1 (addEvent s f t name args none).1.2.2
  | .remove n => .ok (removeOp s n).1 (removeOp s n).2.1 (removeOp s n).2.2
  | .pop p => popAtom s p
  | .reset => .ok { s with sched := [], events := [] } [.discarded (s.sched.map (·.rid))] none
  | .tick dt => .ok { s with now := s.now + dt } [] none

/-- the step kept the invariant and the books; it did not kill `run()` -/
def AtomRes.Good (s : Sched) : AtomRes → Prop
  | .ok s1 evs _ => NameInv s1 ∧ Conserves s s1 evs ∧ Fresh s s1 evs
  | .crashed _ => False
  | .disabled => True

inductive ARun where
  | ok (s : Sched) (evs : List Ev)
  | crashed
  | disabled
deriving DecidableEq, Repr

/-- an interleaving: the critical sections in the order the lock was granted -/
def arun : Sched → List Atom → ARun
  | s, [] => .ok s []
  | s, a :: as =>
    match astep s a with
    | .disabled => .disabled
    | .crashed _ => .crashed
    | .ok s1 evs _ =>
      match arun s1 as with
      | .ok s2 evs2 => .ok s2 (evs ++ evs2)
      | .crashed => .crashed
      | .disabled => .disabled

/-! ### invariants at every lock release -/

theorem popAtom_good (s : Sched) (p : Name) (hi : NameInv s) : (popAtom s p).Good s := by
  unfold popAtom
  split
  · trivial
  · split
    · trivial
    · rename_i e hf
      have hmem := mem_of_find?_eq_some hf
      have hp := find?_some hf
      simp only [decide_eq_true_eq] at hp
      have hname : e.name = p := hp.1
      split
      · rename_i hpop
        have : p ∉ keys s.events := (dictPop_none_iff _ _).mp hpop
        apply this
        apply (hi.same p).mp
        simp only [names, mem_map]
        exact ⟨e, hmem, hname⟩
      · rename_i f d hpop
        have hd := (dictPop_some hpop).2
        refine ⟨⟨?_, ?_, ?_⟩, ?_, Fresh.of_same rfl (by simp [regOf])⟩
        · show (names (s.sched.erase e)).Nodup
          rw [names_erase_of_nodup hi.schedNodup hmem]; exact hi.schedNodup.filter _
        · show (keys d).Nodup
          rw [hd, keys_filter]; exact hi.keysNodup.filter _
        · intro k
          show k ∈ names (s.sched.erase e) ↔ k ∈ keys d
          rw [names_erase_of_nodup hi.schedNodup hmem, hd, keys_filter, hname]
          simp only [mem_filter, hi.same k]
        · intro x
          have := count_erase s.sched e hmem x
          show count x (rids s.sched) + count x (regOf [Ev.fired (some e.rid) e.t s.now (fnOf f) e.args])
            = count x (goneOf [Ev.fired (some e.rid) e.t s.now (fnOf f) e.args]) + count x (rids (s.sched.erase e))
          simp only [regOf, goneOf, count_cons_one, count_nil]
          omega

theorem astep_good (s : Sched) (a : Atom) (hi : NameInv s) : (astep s a).Good s := by
  cases a with
  | add f t name args =>
    exact ⟨addEvent_inv _ _ _ _ _ _ hi, addEvent_conserves _ _ _ _ _, addEvent_fresh _ _ _ _ _ _⟩
  | remove n => exact ⟨removeOp_inv s n hi, removeOp_conserves s n, removeOp_fresh s n⟩
  | pop p => exact popAtom_good s p hi
  | reset =>
    refine ⟨⟨by simp [names], by simp [keys], by intro n; simp [names, keys]⟩, ?_, Fresh.of_same rfl rfl⟩
    intro x; cnt
  | tick dt => exact ⟨hi.congr rfl rfl, Conserves.refl _, Fresh.refl _⟩

def ARun.Good (s : Sched) : ARun → Prop
  | .ok s' evs => NameInv s' ∧ Conserves s s' evs ∧ Fresh s s' evs
  | .crashed => False
  | .disabled => True

/-- every interleaving of critical sections keeps the invariant at every lock release, never makes
`run()` raise, and conserves registrations -/
theorem arun_good : ∀ (as : List Atom) (s : Sched), NameInv s → (arun s as).Good s
  | [], s, hi => ⟨hi, Conserves.refl s, Fresh.refl s⟩
  | a :: as, s, hi => by
    have h1 := astep_good s a hi
    unfold arun
    cases he : astep s a with
    | disabled => trivial
    | crashed s1 => rw [he] at h1; exact h1
    | ok s1 evs exc =>
      rw [he] at h1
      have h2 := arun_good as s1 h1.1
      dsimp only
      cases he2 : arun s1 as with
      | ok s2 evs2 =>
        rw [he2] at h2
        exact ⟨h2.1, Conserves.trans h1.2.1 h2.2.1, Fresh.trans h1.2.2 h2.2.2⟩
      | crashed => rw [he2] at h2; exact h2
      | disabled => trivial

end C18
