/-
C18 — helper lemmas: every scheduled entry carries the arguments, and `events` the function, of
its registration; so an event fires with what it was registered with (also after rescheduleEvent).
-/
import LimnoriaModel.C18.Run
namespace C18
open Py List

/-- (registration id, function, arguments) of every `registered` event -/
def regTable : List Ev → List (Nat × FnRef × Args)
  | [] => []
  | .registered r _ _ f a :: t => (r, f, a) :: regTable t
  | _ :: t => regTable t

theorem regTable_append (a b : List Ev) : regTable (a ++ b) = regTable a ++ regTable b := by
  induction a with
  | nil => rfl
  | cons e r ih => cases e <;> simp [regTable, ih]

def ArgsInv (s : Sched) (G : List (Nat × FnRef × Args)) : Prop :=
  ∀ e ∈ s.sched, ∃ f, (e.rid, f, e.args) ∈ G ∧ (e.name, f) ∈ s.events

theorem ArgsInv.mono {s : Sched} {G : List (Nat × FnRef × Args)} (h : ArgsInv s G)
    (X : List (Nat × FnRef × Args)) : ArgsInv s (G ++ X) := by
  intro e he
  obtain ⟨f, h1, h2⟩ := h e he
  exact ⟨f, mem_append_left _ h1, h2⟩

theorem keys_unique {d : List (Name × FnRef)} (hn : (keys d).Nodup) {n : Name} {f f' : FnRef}
    (h1 : (n, f) ∈ d) (h2 : (n, f') ∈ d) : f = f' := by
  induction d with
  | nil => cases h1
  | cons p d ih =>
    simp only [keys, map_cons, nodup_cons] at hn
    have key : ∀ g, (n, g) ∈ d → p.1 ≠ n := by
      intro g hg hp
      apply hn.1
      simp only [mem_map]
      exact ⟨(n, g), hg, hp.symm⟩
    rcases mem_cons.mp h1 with h1 | h1 <;> rcases mem_cons.mp h2 with h2 | h2
    · rw [← h1] at h2; injection h2 with _ h; exact h.symm
    · exact absurd (by rw [← h1]) (key f' h2)
    · exact absurd (by rw [← h2]) (key f h1)
    · exact ih hn.2 h1 h2

/-- result of a call: the invariant holds for the table extended by the new registrations -/
def ArgsStep (s s' : Sched) (evs : List Ev) : Prop :=
  ∀ G, NameInv s → ArgsInv s G → ArgsInv s' (G ++ regTable evs)

theorem addEvent_args (s : Sched) (f : FnRef) (t : Nat) (name : Option Name) (args : Args) :
    ArgsStep s (addEvent s f t name args none).1.1 (addEvent s f t name args none).1.2.1 := by
  intro G _ ha
  cases name <;> (unfold addEvent; dsimp only; split)
  all_goals first
    | (intro e he
       obtain ⟨f', h1, h2⟩ := ha e he
       exact ⟨f', by simpa [regTable] using h1, h2⟩)
    | (intro e he
       have he' := mem_append.mp he
       rcases he' with he' | he'
       · obtain ⟨f', h1, h2⟩ := ha e he'
         exact ⟨f', mem_append_left _ h1, mem_append_left _ h2⟩
       · rw [mem_singleton.mp he']
         exact ⟨f, by simp [regTable], by simp⟩)

/-- re-adding for an existing registration (rescheduleEvent) -/
theorem addEvent_args_resched (s : Sched) (f : FnRef) (t : Nat) (n : Name) (args : Args) (r : Nat)
    (G : List (Nat × FnRef × Args)) (ha : ArgsInv s G) (hr : (r, f, args) ∈ G) :
    ArgsInv (addEvent s f t (some n) args (some r)).1.1
      (G ++ regTable (addEvent s f t (some n) args (some r)).1.2.1) := by
  unfold addEvent; dsimp only; split
  · intro e he
    obtain ⟨f', h1, h2⟩ := ha e he
    exact ⟨f', by simpa [regTable] using h1, h2⟩
  · intro e he
    have he' := mem_append.mp he
    rcases he' with he' | he'
    · obtain ⟨f', h1, h2⟩ := ha e he'
      exact ⟨f', mem_append_left _ h1, mem_append_left _ h2⟩
    · rw [mem_singleton.mp he']
      exact ⟨f, mem_append_left _ hr, by simp⟩

theorem ArgsInv.remove {s : Sched} {G : List (Nat × FnRef × Args)} (ha : ArgsInv s G) (n : Name)
    (s' : Sched) (h1 : s'.sched = s.sched.filter (fun e => !(e.name = n)))
    (h2 : s'.events = s.events.filter (fun q => !(q.1 = n))) : ArgsInv s' G := by
  intro e he
  rw [h1] at he
  simp only [mem_filter, Bool.not_eq_true', decide_eq_false_iff_not] at he
  obtain ⟨f, g1, g2⟩ := ha e he.1
  refine ⟨f, g1, ?_⟩
  rw [h2]
  simp only [mem_filter, Bool.not_eq_true', decide_eq_false_iff_not]
  exact ⟨g2, he.2⟩

theorem removed_table (l : List Entry) : regTable (l.map fun e => Ev.removed e.rid) = [] := by
  induction l with
  | nil => rfl
  | cons a l ih => simpa [regTable] using ih

theorem removeOp_args (s : Sched) (n : Name) : ArgsStep s (removeOp s n).1 (removeOp s n).2.1 := by
  intro G _ ha
  unfold removeOp removeEvent
  split
  · simpa [regTable] using ha
  · rename_i s1 f gone h
    split at h
    · cases h
    · rename_i f' d hp
      injection h with h1 h2; injection h2 with h2 h3
      subst h1 h3
      rw [removed_table, append_nil]
      exact ha.remove n _ rfl (dictPop_some hp).2

theorem reschedOp_args (s : Sched) (n : Name) (t : Nat) :
    ArgsStep s (reschedOp s n t).1 (reschedOp s n t).2.1 := by
  intro G hi ha
  unfold reschedOp removeEvent
  split
  · simpa [regTable] using ha
  · rename_i s1 f gone h
    split at h
    · cases h
    · rename_i f' d hp
      injection h with h1 h2; injection h2 with h2 h3
      injection h2 with h2
      subst h1 h3 h2
      have hd := dictPop_some hp
      have ha1 : ArgsInv { s with events := d, sched := s.sched.filter fun e => !(e.name = n) } G :=
        ha.remove n _ rfl hd.2
      split
      · rename_i e hl
        -- the entry whose arguments are kept
        have hmem : e ∈ s.sched.filter fun e => decide (e.name = n) := by
          have := dropLast_getLast _ e hl
          rw [← this]; simp
        simp only [mem_filter, decide_eq_true_eq] at hmem
        obtain ⟨fe, g1, g2⟩ := ha e hmem.1
        rw [hmem.2] at g2
        have : fe = f' := keys_unique hi.keysNodup g2 hd.1
        subst this
        rw [regTable_append, removed_table, nil_append]
        exact addEvent_args_resched _ fe t n e.args e.rid G ha1 g1
      · have hi1 : NameInv { s with events := d, sched := s.sched.filter fun e => !(e.name = n) } :=
          hi.remove n _ rfl hd.2
        exact addEvent_args _ f' t (some n) [] G hi1 ha1

theorem execAct_args (s : Sched) (a : Act) : ArgsStep s (execAct s a).1 (execAct s a).2.1 := by
  cases a with
  | add fn t name args => exact addEvent_args _ _ _ _ _
  | remove n => exact removeOp_args s n
  | resched n t => exact reschedOp_args s n _
  | addPeriodic fn period name args count => exact addEvent_args _ _ _ _ _
  | raise => intro G _ ha; simpa [execAct, regTable] using ha

theorem execActs_args : ∀ (acts : List Act) (s : Sched), ArgsStep s (execActs s acts).1 (execActs s acts).2.1
  | [], s => by intro G _ ha; simpa [execActs, regTable] using ha
  | a :: rest, s => by
    unfold execActs
    have h1 := execAct_args s a
    have i1 := execAct_inv s a
    split
    · rename_i s1 ev e h; rw [h] at h1; exact h1
    · rename_i s1 ev h; rw [h] at h1 i1
      intro G hi ha
      have := execActs_args rest s1 (G ++ regTable ev) (i1 hi) (h1 G hi ha)
      rw [regTable_append, ← append_assoc]
      exact this

theorem call_args (P : Prog) (s : Sched) (f : FnRef) (rid : Option Nat) (due : Nat) (args : Args) :
    ArgsStep s (call P s f rid due args).1 (call P s f rid due args).2.1 := by
  intro G hi ha
  unfold call
  cases f with
  | plain fn =>
    have := execActs_args (body P fn) s G hi ha
    simpa [regTable] using this
  | wrapper fn period name wargs count =>
    have h1 := execActs_args (body P fn) s G hi ha
    have i1 := execActs_inv (body P fn) s hi
    dsimp only
    split
    · have := addEvent_args (execActs s (body P fn)).1 (.wrapper fn period name wargs (count.map (· - 1)))
        ((execActs s (body P fn)).1.now + period) name [] _ i1 h1
      simp only [regTable, regTable_append, ← append_assoc]
      exact this
    · simpa [regTable] using h1

/-- what fires in a run fires with the function and arguments of its registration -/
def FiredOk (G : List (Nat × FnRef × Args)) (evs : List Ev) : Prop :=
  ∀ r due now fn a, Ev.fired (some r) due now fn a ∈ evs →
    ∃ f regArgs, (r, f, regArgs) ∈ G ∧ ((f = .plain fn ∧ a = regArgs) ∨ ∃ p n c, f = .wrapper fn p n a c)

theorem runPicks_args (P : Prog) : ∀ (picks : List Name) (s s' : Sched) (evs : List Ev)
    (G : List (Nat × FnRef × Args)), runPicks P s picks = .ok s' evs → NameInv s → ArgsInv s G →
    ArgsInv s' (G ++ regTable evs) ∧ FiredOk (G ++ regTable evs) evs
  | [], s, s', evs, G, h, _, ha => by
    unfold runPicks at h
    split at h
    · cases h
    · injection h with h1 h2; subst h1 h2
      exact ⟨by simpa [regTable] using ha, by intro _ _ _ _ _ h; cases h⟩
  | p :: ps, s, s', evs, G, h, hi, ha => by
    obtain ⟨e, f, d, evs2, _, hmem, hname, _, hpop, hrec, hev⟩ := runPicks_cons_ok h
    have hd := dictPop_some hpop
    -- the state the function is called in
    have hi1 : NameInv { s with sched := s.sched.erase e, events := d } := by
      refine ⟨?_, ?_, ?_⟩
      · show (names (s.sched.erase e)).Nodup
        rw [names_erase_of_nodup hi.schedNodup hmem]; exact hi.schedNodup.filter _
      · show (keys d).Nodup
        rw [hd.2, keys_filter]; exact hi.keysNodup.filter _
      · intro k
        show k ∈ names (s.sched.erase e) ↔ k ∈ keys d
        rw [names_erase_of_nodup hi.schedNodup hmem, hd.2, keys_filter, hname]
        simp only [mem_filter, hi.same k]
    have ha1 : ArgsInv { s with sched := s.sched.erase e, events := d } G := by
      intro x hx
      have hx' : x ∈ s.sched := mem_of_mem_erase hx
      obtain ⟨fx, g1, g2⟩ := ha x hx'
      refine ⟨fx, g1, ?_⟩
      show (x.name, fx) ∈ d
      rw [hd.2]
      simp only [mem_filter, Bool.not_eq_true', decide_eq_false_iff_not]
      refine ⟨g2, ?_⟩
      -- another entry of the same name would contradict Nodup
      intro hxp
      have : x.name ∈ names (s.sched.erase e) := by simp only [names, mem_map]; exact ⟨x, hx, rfl⟩
      rw [names_erase_of_nodup hi.schedNodup hmem] at this
      simp only [mem_filter, Bool.not_eq_true', decide_eq_false_iff_not] at this
      exact this.2 (by rw [hxp, hname])
    obtain ⟨fe, ge1, ge2⟩ := ha e hmem
    rw [hname] at ge2
    have hfe : fe = f := keys_unique hi.keysNodup ge2 hd.1
    subst hfe
    have hc := call_args P { s with sched := s.sched.erase e, events := d } fe (some e.rid) e.t e.args G hi1 ha1
    have hci := call_inv P { s with sched := s.sched.erase e, events := d } fe (some e.rid) e.t e.args hi1
    obtain ⟨ih1, ih2⟩ := runPicks_args P ps _ s' evs2 _ hrec hci hc
    obtain ⟨_, fn, a, rest, c2, c3, c4⟩ :=
      call_events P { s with sched := s.sched.erase e, events := d } fe (some e.rid) e.t e.args
    subst hev
    rw [regTable_append, ← append_assoc]
    refine ⟨ih1, ?_⟩
    intro r due now fn' a' hm
    rcases mem_append.mp hm with hm | hm
    · rw [c2] at hm
      rcases mem_cons.mp hm with hm | hm
      · injection hm with e1 e2 e3 e4 e5
        injection e1 with e1
        subst e1 e4 e5
        exact ⟨fe, e.args, mem_append_left _ (mem_append_left _ ge1), c4⟩
      · have := c3 _ hm; cases this
    · exact ih2 r due now fn' a' hm

theorem step_args (P : Prog) (s : Sched) (op : Op) (r : Res) (h : step P s op = some r)
    (G : List (Nat × FnRef × Args)) (hi : NameInv s) (ha : ArgsInv s G) :
    ArgsInv r.1 (G ++ regTable r.2.1) ∧ FiredOk (G ++ regTable r.2.1) r.2.1 := by
  have nofire : ∀ evs : List Ev, (∀ e ∈ evs, ∀ x d n f a, e ≠ Ev.fired (some x) d n f a) →
      FiredOk (G ++ regTable evs) evs := by
    intro evs hn r' due now fn a hm
    exact absurd rfl (hn _ hm r' due now fn a)
  cases op with
  | add fn t name args =>
    injection h with h; subst h
    refine ⟨addEvent_args _ _ _ _ _ G hi ha, nofire _ ?_⟩
    intro e he x d n f a hx; subst hx
    have := (addEvent_now s (.plain fn) (t.at s.now) name args none).2 _ he; cases this
  | remove n =>
    injection h with h; subst h
    refine ⟨removeOp_args s n G hi ha, nofire _ ?_⟩
    intro e he x d n' f a hx; subst hx
    have := (removeOp_now s n).2 _ he; cases this
  | resched n t =>
    injection h with h; subst h
    refine ⟨reschedOp_args s n _ G hi ha, nofire _ ?_⟩
    intro e he x d n' f a hx; subst hx
    have := (reschedOp_now s n (t.at s.now)).2 _ he; cases this
  | addPeriodic fn period name now args count =>
    simp only [step] at h
    split at h
    · injection h with h; subst h
      refine ⟨call_args P s _ none s.now [] G hi ha, nofire _ ?_⟩
      intro e he x d n' f a hx; subst hx
      obtain ⟨_, fn', a', rest, c2, c3, _⟩ := call_events P s (.wrapper fn period name args count) none s.now []
      rw [c2] at he
      rcases mem_cons.mp he with he | he
      · injection he with e1; cases e1
      · have := c3 _ he; cases this
    · injection h with h; subst h
      refine ⟨addEvent_args _ _ _ _ _ G hi ha, nofire _ ?_⟩
      intro e he x d n' f a hx; subst hx
      have := (addEvent_now s (.wrapper fn period name args count) (s.now + period) name [] none).2 _ he
      cases this
  | run picks =>
    simp only [step] at h
    split at h
    · rename_i s' evs hr
      injection h with h; subst h
      exact runPicks_args P picks s s' evs G hr hi ha
    · rename_i s' evs hr
      have := runPicks_inv P picks s hi
      rw [hr] at this; exact absurd this (by simp [RunRes.Good])
    · cases h
  | tick dt =>
    injection h with h; subst h
    refine ⟨?_, nofire _ (by intro e he; cases he)⟩
    intro e he
    obtain ⟨f, g1, g2⟩ := ha e he
    exact ⟨f, by simpa [regTable] using g1, g2⟩
  | reset =>
    injection h with h; subst h
    refine ⟨(by intro e he; cases he), nofire _ ?_⟩
    intro e he x d n f a hx
    subst hx
    rcases mem_singleton.mp he with he'
    cases he'

theorem FiredOk.mono_left {G : List (Nat × FnRef × Args)} {evs : List Ev} (h : FiredOk G evs)
    (X : List (Nat × FnRef × Args)) : FiredOk (G ++ X) evs := by
  intro r due now fn a hm
  obtain ⟨f, ra, g1, g2⟩ := h r due now fn a hm
  exact ⟨f, ra, mem_append_left _ g1, g2⟩

theorem runOps_args (P : Prog) : ∀ (ops : List Op) (s : Sched) (r : Sched × List Ev)
    (G : List (Nat × FnRef × Args)), runOps P s ops = some r → NameInv s → ArgsInv s G →
    ArgsInv r.1 (G ++ regTable r.2) ∧ FiredOk (G ++ regTable r.2) r.2
  | [], s, r, G, h, _, ha => by
    injection h with h; subst h
    exact ⟨by simpa [regTable] using ha, by intro _ _ _ _ _ h; cases h⟩
  | op :: ops, s, r, G, h, hi, ha => by
    unfold runOps at h
    split at h
    · cases h
    · rename_i r1 h1
      split at h
      · cases h
      · rename_i r2 h2
        injection h with h; subst h
        obtain ⟨a1, a2⟩ := step_args P s op r1 h1 G hi ha
        obtain ⟨b1, b2⟩ := runOps_args P ops r1.1 r2 _ h2 (step_nameInv P s op r1 h1 hi) a1
        dsimp only
        rw [regTable_append, ← append_assoc]
        refine ⟨b1, ?_⟩
        intro r' due now fn a hm
        rcases mem_append.mp hm with hm | hm
        · exact (a2.mono_left _) r' due now fn a hm
        · exact b2 r' due now fn a hm

/-! ### rescheduleEvent moves exactly one entry -/

theorem filter_name_eq_of_nodup : ∀ (l : List Entry), (names l).Nodup → ∀ e ∈ l,
    l.filter (fun x => decide (x.name = e.name)) = [e]
  | [], _, _, he => by cases he
  | x :: xs, hn, e, he => by
    simp only [names, map_cons, nodup_cons] at hn
    rcases mem_cons.mp he with he | he
    · subst he
      have : xs.filter (fun y => decide (y.name = e.name)) = [] := by
        apply filter_eq_nil_iff.mpr
        intro y hy
        simp only [decide_eq_true_eq]
        intro h
        exact hn.1 (by simp only [mem_map]; exact ⟨y, hy, h⟩)
      simp [filter_cons, this]
    · have hne : ¬ x.name = e.name := by
        intro h
        exact hn.1 (by simp only [mem_map]; exact ⟨e, he, h.symm⟩)
      simp only [filter_cons, hne, decide_false, Bool.false_eq_true, if_false]
      exact filter_name_eq_of_nodup xs hn.2 e he

theorem reschedOp_moves (s : Sched) (hi : NameInv s) (e : Entry) (he : e ∈ s.sched) (t : Nat) :
    (reschedOp s e.name t).2.2 = none ∧
    (reschedOp s e.name t).2.1 = [Ev.rescheduled e.rid t] ∧
    (reschedOp s e.name t).1.sched =
      s.sched.filter (fun x => !(x.name = e.name)) ++ [⟨t, e.name, e.args, e.rid⟩] := by
  have hkey : e.name ∈ keys s.events := (hi.same _).mp (by simp only [names, mem_map]; exact ⟨e, he, rfl⟩)
  have hgone := filter_name_eq_of_nodup s.sched hi.schedNodup e he
  unfold reschedOp removeEvent
  cases hp : dictPop s.events e.name with
  | none => exact absurd hkey ((dictPop_none_iff _ _).mp hp)
  | some fd =>
    obtain ⟨f, d⟩ := fd
    have hd := (dictPop_some hp).2
    have hk : hasKey d e.name = false := by rw [hd]; exact hasKey_filter_self _ _
    simp only [hgone, getLast?_singleton, dropLast_singleton, map_nil, nil_append]
    unfold addEvent
    simp only [hk, Bool.false_eq_true, if_false]
    exact ⟨trivial, trivial, trivial⟩

end C18
