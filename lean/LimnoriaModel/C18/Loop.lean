/-
C18 — the driver loop around the scheduler.

`supybot.schedule.schedule` is itself a driver: `drivers.run()` calls `driver.run()` for every
driver not in `_deadDrivers` inside `try: … except: log.exception(...); _deadDrivers.add(name)` and
then deletes the dead ones from `_drivers`.  Nothing ever adds the Schedule driver again, so one
exception out of `Schedule.run()` would end all scheduling for the life of the process (reconnects,
the Scheduler plugin, registry flushes, …).  This file puts that loop on top of the scheduler model:
`alive` is "`'Schedule'` is in `_drivers` and not in `_deadDrivers`".
-/
import LimnoriaModel.C18.Run
namespace C18
open Py List

structure Loop where
  s : Sched
  alive : Bool
deriving DecidableEq, Repr

inductive LOp where
  /-- any call of the schedule API from a plugin, a driver or the core (also a direct `run()`) -/
  | op (o : Op)
  /-- one round of `drivers.run()`; `picks` = what the heap handed out during `Schedule.run()` -/
  | driversRun (picks : List Name)
deriving DecidableEq, Repr

/-- the Schedule driver's share of one `drivers.run()` -/
def driversRun (P : Prog) (l : Loop) (picks : List Name) : Option (Loop × List Ev) :=
  if !l.alive then (if picks.isEmpty then some (l, []) else none) else    -- `if name not in _deadDrivers`
  match runPicks P l.s picks with
  | .ok s' evs => some (⟨s', true⟩, evs)
  | .crashed s' evs => some (⟨s', false⟩, evs ++ [.failed .keyError])   -- `except: _deadDrivers.add(name)`
  | .invalid => none

def lstep (P : Prog) (l : Loop) : LOp → Option (Loop × List Ev)
  | .op o =>
    match step P l.s o with
    | none => none
    | some r => some (⟨r.1, l.alive⟩, r.2.1)
  | .driversRun picks => driversRun P l picks

def lrun (P : Prog) : Loop → List LOp → Option (Loop × List Ev)
  | l, [] => some (l, [])
  | l, o :: os =>
    match lstep P l o with
    | none => none
    | some r =>
      match lrun P r.1 os with
      | none => none
      | some r2 => some (r2.1, r.2 ++ r2.2)

def linit (now : Nat) : Loop := ⟨init now, true⟩

theorem driversRun_keeps (P : Prog) (l : Loop) (picks : List Name) (r : Loop × List Ev)
    (h : driversRun P l picks = some r) (ha : l.alive = true) (hi : NameInv l.s) :
    r.1.alive = true ∧ NameInv r.1.s ∧ r.1.s.now = l.s.now ∧ (∀ e ∈ r.1.s.sched, l.s.now ≤ e.t) := by
  unfold driversRun at h
  rw [ha] at h
  simp only [Bool.not_true, Bool.false_eq_true, if_false] at h
  have hg := runPicks_inv P picks l.s hi
  split at h
  · rename_i s' evs hr
    injection h with h; subst h
    rw [hr] at hg
    have ht := runPicks_times P picks l.s s' evs hr
    exact ⟨rfl, hg, ht.1, ht.2.1⟩
  · rename_i s' evs hr
    rw [hr] at hg; exact absurd hg (by simp [RunRes.Good])
  · cases h

theorem lstep_keeps (P : Prog) (l : Loop) (o : LOp) (r : Loop × List Ev)
    (h : lstep P l o = some r) (ha : l.alive = true) (hi : NameInv l.s) :
    r.1.alive = true ∧ NameInv r.1.s := by
  cases o with
  | op o =>
    simp only [lstep] at h
    split at h
    · cases h
    · rename_i r1 h1
      injection h with h; subst h
      exact ⟨ha, step_nameInv P l.s o r1 h1 hi⟩
  | driversRun picks =>
    have := driversRun_keeps P l picks r h ha hi
    exact ⟨this.1, this.2.1⟩

theorem lrun_keeps (P : Prog) : ∀ (os : List LOp) (l : Loop) (r : Loop × List Ev),
    lrun P l os = some r → l.alive = true → NameInv l.s → r.1.alive = true ∧ NameInv r.1.s
  | [], l, r, h, ha, hi => by injection h with h; subst h; exact ⟨ha, hi⟩
  | o :: os, l, r, h, ha, hi => by
    unfold lrun at h
    split at h
    · cases h
    · rename_i r1 h1
      split at h
      · cases h
      · rename_i r2 h2
        injection h with h; subst h
        have := lstep_keeps P l o r1 h1 ha hi
        exact lrun_keeps P os r1.1 r2 h2 this.1 this.2

end C18
