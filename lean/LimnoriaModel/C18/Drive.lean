import LimnoriaModel.C18.Model
import LimnoriaModel.C18.Plugin
import LimnoriaModel.C18.Heap
import LimnoriaModel.C18.HeapShapes
import LimnoriaModel.C18.HeapHole
import LimnoriaModel.C18.Loop
import LimnoriaModel.Driver.Core
namespace C18
open Py Wire

/-! wire format: see harness/c18.py -/

def encName : Name → String
  | .num n => "N" ++ toString n
  | .str s => "S" ++ enc s

def encOptName : Option Name → String
  | none => "~"
  | some n => encName n

def decName (f : String) : Option Name :=
  match f.toList with
  | 'N' :: r => (String.ofList r).toNat?.map .num
  | 'S' :: r => (dec (String.ofList r)).map .str
  | _ => none

def decOptName (f : String) : Option (Option Name) :=
  if f = "~" then some none else (decName f).map some

def decTime (f : String) : Option Time :=
  match f.toList with
  | 'A' :: r => (String.ofList r).toNat?.map .abs
  | 'R' :: r => (String.ofList r).toNat?.map .rel
  | _ => none

def decOptNat (f : String) : Option (Option Nat) :=
  if f = "~" then some none else f.toNat?.map some

def encOptNat : Option Nat → String
  | none => "~"
  | some n => toString n

def decAct (f : String) : Option Act :=
  match f.splitOn ":" with
  | ["a", fn, t, nm, args] => do
    pure (.add (← fn.toNat?) (← decTime t) (← decOptName nm) (← decList args))
  | ["r", nm] => do pure (.remove (← decName nm))
  | ["s", nm, t] => do pure (.resched (← decName nm) (← decTime t))
  | ["p", fn, period, nm, args, count] => do
    pure (.addPeriodic (← fn.toNat?) (← period.toNat?) (← decOptName nm) (← decList args) (← decOptNat count))
  | ["x"] => some .raise
  | _ => none

def decBody (f : String) : Option (List Act) :=
  if f = "-" then some [] else (f.splitOn "|").mapM decAct

def decProg (f : String) : Option Prog :=
  if f = "-" then some [] else (f.splitOn ";").mapM decBody

def encFnRef : FnRef → String
  | .plain fn => "P" ++ toString fn
  | .wrapper fn period name args count =>
    "W" ++ toString fn ++ "/" ++ toString period ++ "/" ++ encOptName name ++ "/" ++ encList args ++ "/" ++
      encOptNat count

def encEntries (es : List Entry) : String :=
  if es.isEmpty then "-" else ";".intercalate (es.map fun e => toString e.t ++ "/" ++ encName e.name ++ "/" ++ encList e.args)

def encEvents (d : List (Name × FnRef)) : String :=
  if d.isEmpty then "-" else ";".intercalate (d.map fun p => encName p.1 ++ "=" ++ encFnRef p.2)

def encState (s : Sched) : String :=
  toString s.now ++ "|" ++ toString s.counter ++ "\t" ++ encEntries s.sched ++ "\t" ++ encEvents s.events

def encLog (evs : List Ev) : String :=
  let l := evs.filterMap fun
    | .fired _ _ now fn args => some (toString now ++ "/" ++ toString fn ++ "/" ++ encList args)
    | _ => none
  if l.isEmpty then "-" else ";".intercalate l

def encExc : Exc → String
  | .assertion => "E:assertion"
  | .keyError => "E:keyError"
  | .raised => "E:raised"

def render (r : Res) (ret : String) : String :=
  (match r.2.2 with
    | some e => encExc e
    | none => ret) ++ "\t" ++ encLog r.2.1 ++ "\t" ++ encState r.1

/-! ### the Scheduler plugin layer -/

open Plug in
def encKey : Plug.Key → String
  | .id n => "I" ++ toString n
  | .name s => "S" ++ enc s

open Plug in
def decKey (f : String) : Option Plug.Key :=
  match f.toList with
  | 'I' :: r => (String.ofList r).toNat?.map Plug.Key.id
  | 'S' :: r => (dec (String.ofList r)).map Plug.Key.name
  | _ => none

def encPFn : Plug.PFn → String
  | .single inst id cmd => "s" ++ toString inst ++ "/" ++ toString id ++ "/" ++ toString cmd
  | .repeating inst nm period cmd =>
    "r" ++ toString inst ++ "/" ++ enc nm ++ "/" ++ toString period ++ "/" ++ toString cmd
  | .foreign tag => "f" ++ toString tag

def encTable (tb : Plug.Table) : String :=
  if tb.isEmpty then "-" else ";".intercalate (tb.map fun p =>
    encKey p.1 ++ "=" ++ toString p.2.time ++ "/" ++ toString p.2.cmd ++ "/" ++ toString p.2.firstRun)

def encPState (s : Plug.PState) : String :=
  toString s.now ++ "|" ++ toString s.counter ++ "|" ++ (if s.loaded then "1" else "0") ++ "\t" ++
  (if s.sched.isEmpty then "-" else ";".intercalate (s.sched.map fun e =>
    toString e.t ++ "/" ++ encName e.name ++ "/" ++ encPFn e.fn)) ++ "\t" ++
  encTable s.table ++ "\t" ++
  (match s.pickle with
    | none => "~"
    | some tb => encTable tb)

def encReply : Plug.Reply → String
  | .added id => "added:" ++ toString id
  | .ok => "ok"
  | .invalidId => "invalid"
  | .exists_ => "exists"
  | .error => "error"
  | .silent => "silent"
  | .notLoaded => "notloaded"
  | .listing ks => "list:" ++ (if ks.isEmpty then "-" else ",".intercalate (ks.map encKey))

def encPEvs (evs : List Plug.PEv) : String :=
  let l := evs.filterMap fun
    | .ran _ cmd _ => some ("R" ++ toString cmd)
    | .ranStale cmd _ => some ("X" ++ toString cmd)
    | .skipped cmd => some ("K" ++ toString cmd)
    | _ => none
  if l.isEmpty then "-" else ",".intercalate l

def decPOp : List String → Option Plug.POp
  | ["padd", sec, cmd] => do pure (.add (← sec.toNat?) (← cmd.toNat?))
  | ["premove", k] => do pure (.remove (← decKey k))
  | ["prepeat", nm, period, cmd, delay] => do
    pure (.repeat_ (← dec nm) (← period.toNat?) (← cmd.toNat?) (← delay.toNat?))
  | ["plist"] => some .list
  | ["pflush"] => some .flush
  | ["pload"] => some .load
  | ["punload"] => some .unload
  | ["preload"] => some .reload
  | ["prestart"] => some .restart
  | ["pforeign", tag, t] => do pure (.foreign (← tag.toNat?) (← t.toNat?))
  | ["ptick", dt] => do pure (.tick (← dt.toNat?))
  | ["prun", picks] => do pure (.run (← decPicksP picks))
  | _ => none
where
  decPicksP (f : String) : Option (List Name) :=
    if f = "-" then some [] else (f.splitOn ",").mapM decName

/-! ### heapq -/

def encHeap (h : Heap.H) : String :=
  if h.isEmpty then "-" else ";".intercalate (h.map fun e => toString e.t ++ "/" ++ toString e.rid)

def decHeapItem (f : String) : Option Entry :=
  match f.splitOn "/" with
  | [t, i] => do pure ⟨(← t.toNat?), .num (← i.toNat?), [], (← i.toNat?)⟩
  | _ => none

def decHeap (f : String) : Option Heap.H :=
  if f = "-" then some [] else (f.splitOn ";").mapM decHeapItem

structure St where
  prog : Prog
  s : Sched
  ps : Plug.PState
  hp : Heap.H := []
  alive : Bool := true

def decPicks (f : String) : Option (List Name) :=
  if f = "-" then some [] else (f.splitOn ",").mapM decName

def stepLine (st : St) : List String → Option (St × String)
  | ["hset", l] => do
    let h ← decHeap l
    pure ({ st with hp := h }, encHeap h)
  | ["hpush", it] => do
    let e ← decHeapItem it
    let h := Heap.heappushC st.hp e
    pure ({ st with hp := h }, encHeap h)
  | ["hpop"] =>
    match Heap.heappopC st.hp with
    | none => some (st, "E")
    | some (e, h) => some ({ st with hp := h }, toString e.t ++ "/" ++ toString e.rid ++ "|" ++ encHeap h)
  | ["hfragile", n, k, off] => do
    -- the shapes on which the sift-down-only shortcut of removeEvent breaks the heap: `k` of them,
    -- evenly spread, starting at `off` (k = 0: all)
    let n' ← n.toNat?
    let k' ← k.toNat?
    let off' ← off.toNat?
    let all := Heap.fragile n'
    let stride := if k' = 0 then 1 else max 1 (all.length / k')
    let pick := (List.range all.length).zip all |>.filter (fun p => k' = 0 || (p.1 + off') % stride = 0) |>.map (·.2)
    let pick := if k' = 0 then pick else pick.take k'
    pure (st, toString all.length ++ "|" ++ ";".intercalate (pick.map fun (o, r) =>
      ",".intercalate (o.map toString) ++ "/" ++ toString r))
  | ["hify"] => some ({ st with hp := Heap.heapifyC st.hp }, encHeap (Heap.heapifyC st.hp))
  | ["pnew", t] => do
    let t' ← t.toNat?
    pure ({ st with ps := Plug.pinit t' }, "ok\t-\t" ++ encPState (Plug.pinit t'))
  | ["prog", p] => do
    let p' ← decProg p
    pure ({ st with prog := p' }, "ok")
  | ["new", t] => do
    let t' ← t.toNat?
    pure ({ st with s := init t', alive := true }, "ok\t-\t" ++ encState (init t'))
  | ["add", fn, t, nm, args] => do
    let fn' ← fn.toNat?
    let t' ← decTime t
    let nm' ← decOptName nm
    let args' ← decList args
    let r := addEvent st.s (.plain fn') (t'.at st.s.now) nm' args' none
    pure ({ st with s := r.1.1 }, render r.1 ("ok:" ++ encName r.2))
  | ["remove", nm] => do
    let nm' ← decName nm
    let r := removeOp st.s nm'
    pure ({ st with s := r.1 }, render r "ok")
  | ["resched", nm, t] => do
    let nm' ← decName nm
    let t' ← decTime t
    let r := reschedOp st.s nm' (t'.at st.s.now)
    pure ({ st with s := r.1 }, render r "ok")
  | ["periodic", fn, period, nm, now, args, count] => do
    let fn' ← fn.toNat?
    let period' ← period.toNat?
    let nm' ← decOptName nm
    let args' ← decList args
    let count' ← decOptNat count
    if now = "1" then
      let r := call st.prog st.s (.wrapper fn' period' nm' args' count') none st.s.now []
      -- wrapper() returns the name it re-scheduled itself under, or None
      let ret := match again (count'.map (· - 1)), r.2.1.getLast? with
        | true, some (.registered _ n _ _ _) => "ok:" ++ encName n
        | _, _ => "ok:~"
      pure ({ st with s := r.1 }, render r ret)
    else if now = "0" then
      let r := addEvent st.s (.wrapper fn' period' nm' args' count') (st.s.now + period') nm' [] none
      pure ({ st with s := r.1.1 }, render r.1 ("ok:" ++ encName r.2))
    else none
  | ["run", picks] => do
    let ps ← decPicks picks
    match step st.prog st.s (.run ps) with
    | none => pure (st, "invalid")
    | some r => pure ({ st with s := r.1 }, render r "ok")
  | ["drun", picks] => do
    let ps ← decPicks picks
    match driversRun st.prog ⟨st.s, st.alive⟩ ps with
    | none => pure (st, "invalid")
    | some r => pure ({ st with s := r.1.s, alive := r.1.alive },
        render (r.1.s, r.2, none) (if r.1.alive then "ok" else "dead"))
  | ["tick", dt] => do
    let d ← dt.toNat?
    pure ({ st with s := { st.s with now := st.s.now + d } }, "ok\t-\t" ++ encState { st.s with now := st.s.now + d })
  | ["reset"] =>
    match step st.prog st.s .reset with
    | some r => some ({ st with s := r.1 }, render r "ok")
    | none => none
  | fs =>
    match decPOp fs with
    | none => none
    | some op =>
      match Plug.pstep st.ps op with
      | none => some (st, "invalid")
      | some r => some ({ st with ps := r.1 }, encReply r.2.2 ++ "\t" ++ encPEvs r.2.1 ++ "\t" ++ encPState r.1)

def handler : Driver.Handler :=
  { σ := St
    init := ⟨[], init 0, Plug.pinit 0, [], true⟩
    step := fun st fs =>
      match stepLine st fs with
      | some r => r
      | none => (st, "bad-op") }

end C18
