import LimnoriaModel.C18.Model
import LimnoriaModel.Driver.Core
namespace C18
open Py Wire

/-! wire format: see harness/c18.py -/

def encName : Name → String
  | .num n => "N" ++ toString n
  | .str s => "S" ++ enc s

def encOptName : Option Name → String
  | none => "~"
  | some n => encName n

def decName (f : String) : Option Name :=
  match f.toList with
  | 'N' :: r => (String.ofList r).toNat?.map .num
  | 'S' :: r => (dec (String.ofList r)).map .str
  | _ => none

def decOptName (f : String) : Option (Option Name) :=
  if f = "~" then some none else (decName f).map some

def decTime (f : String) : Option Time :=
  match f.toList with
  | 'A' :: r => (String.ofList r).toNat?.map .abs
  | 'R' :: r => (String.ofList r).toNat?.map .rel
  | _ => none

def decOptNat (f : String) : Option (Option Nat) :=
  if f = "~" then some none else f.toNat?.map some

def encOptNat : Option Nat → String
  | none => "~"
  | some n => toString n

def decAct (f : String) : Option Act :=
  match f.splitOn ":" with
  | ["a", fn, t, nm, args] => do
    pure (.add (← fn.toNat?) (← decTime t) (← decOptName nm) (← decList args))
  | ["r", nm] => do pure (.remove (← decName nm))
  | ["s", nm, t] => do pure (.resched (← decName nm) (← decTime t))
  | ["p", fn, period, nm, args, count] => do
    pure (.addPeriodic (← fn.toNat?) (← period.toNat?) (← decOptName nm) (← decList args) (← decOptNat count))
  | ["x"] => some .raise
  | _ => none

def decBody (f : String) : Option (List Act) :=
  if f = "-" then some [] else (f.splitOn "|").mapM decAct

def decProg (f : String) : Option Prog :=
  if f = "-" then some [] else (f.splitOn ";").mapM decBody

def encFnRef : FnRef → String
  | .plain fn => "P" ++ toString fn
  | .wrapper fn period name args count =>
    "W" ++ toString fn ++ "/" ++ toString period ++ "/" ++ encOptName name ++ "/" ++ encList args ++ "/" ++
      encOptNat count

def encEntries (es : List Entry) : String :=
  if es.isEmpty then "-" else ";".intercalate (es.map fun e => toString e.t ++ "/" ++ encName e.name ++ "/" ++ encList e.args)

def encEvents (d : List (Name × FnRef)) : String :=
  if d.isEmpty then "-" else ";".intercalate (d.map fun p => encName p.1 ++ "=" ++ encFnRef p.2)

def encState (s : Sched) : String :=
  toString s.now ++ "|" ++ toString s.counter ++ "\t" ++ encEntries s.sched ++ "\t" ++ encEvents s.events

def encLog (evs : List Ev) : String :=
  let l := evs.filterMap fun
    | .fired _ _ now fn args => some (toString now ++ "/" ++ toString fn ++ "/" ++ encList args)
    | _ => none
  if l.isEmpty then "-" else ";".intercalate l

def encExc : Exc → String
  | .assertion => "E:assertion"
  | .keyError => "E:keyError"
  | .raised => "E:raised"

def render (r : Res) (ret : String) : String :=
  (match r.2.2 with
    | some e => encExc e
    | none => ret) ++ "\t" ++ encLog r.2.1 ++ "\t" ++ encState r.1

structure St where
  prog : Prog
  s : Sched

def decPicks (f : String) : Option (List Name) :=
  if f = "-" then some [] else (f.splitOn ",").mapM decName

def stepLine (st : St) : List String → Option (St × String)
  | ["prog", p] => do
    let p' ← decProg p
    pure ({ st with prog := p' }, "ok")
  | ["new", t] => do
    let t' ← t.toNat?
    pure ({ st with s := init t' }, "ok\t-\t" ++ encState (init t'))
  | ["add", fn, t, nm, args] => do
    let fn' ← fn.toNat?
    let t' ← decTime t
    let nm' ← decOptName nm
    let args' ← decList args
    let r := addEvent st.s (.plain fn') (t'.at st.s.now) nm' args' none
    pure ({ st with s := r.1.1 }, render r.1 ("ok:" ++ encName r.2))
  | ["remove", nm] => do
    let nm' ← decName nm
    let r := removeOp st.s nm'
    pure ({ st with s := r.1 }, render r "ok")
  | ["resched", nm, t] => do
    let nm' ← decName nm
    let t' ← decTime t
    let r := reschedOp st.s nm' (t'.at st.s.now)
    pure ({ st with s := r.1 }, render r "ok")
  | ["periodic", fn, period, nm, now, args, count] => do
    let fn' ← fn.toNat?
    let period' ← period.toNat?
    let nm' ← decOptName nm
    let args' ← decList args
    let count' ← decOptNat count
    if now = "1" then
      let r := call st.prog st.s (.wrapper fn' period' nm' args' count') none st.s.now []
      -- wrapper() returns the name it re-scheduled itself under, or None
      let ret := match again (count'.map (· - 1)), r.2.1.getLast? with
        | true, some (.registered _ n _ _ _) => "ok:" ++ encName n
        | _, _ => "ok:~"
      pure ({ st with s := r.1 }, render r ret)
    else if now = "0" then
      let r := addEvent st.s (.wrapper fn' period' nm' args' count') (st.s.now + period') nm' [] none
      pure ({ st with s := r.1.1 }, render r.1 ("ok:" ++ encName r.2))
    else none
  | ["run", picks] => do
    let ps ← decPicks picks
    match step st.prog st.s (.run ps) with
    | none => pure (st, "invalid")
    | some r => pure ({ st with s := r.1 }, render r "ok")
  | ["tick", dt] => do
    let d ← dt.toNat?
    pure ({ st with s := { st.s with now := st.s.now + d } }, "ok\t-\t" ++ encState { st.s with now := st.s.now + d })
  | ["reset"] =>
    match step st.prog st.s .reset with
    | some r => some ({ st with s := r.1 }, render r "ok")
    | none => none
  | _ => none

def handler : Driver.Handler :=
  { σ := St
    init := ⟨[], init 0⟩
    step := fun st fs =>
      match stepLine st fs with
      | some r => r
      | none => (st, "bad-op") }

end C18
