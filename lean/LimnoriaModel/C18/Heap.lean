/-
C18 — model of CPython's `heapq` as used by `supybot.schedule` (Lib/heapq.py: `heappush`,
`heappop`, `heapify`, `_siftdown`, `_siftup`) on a list of schedule entries compared by due time
only (`mytuple.__lt__`).  The reference implementation moves a "hole" and writes the new item once
at the end; here every move is a swap, which produces the same list after every call (the
correspondence run compares the lists with the real `heapq` after every operation).
-/
import LimnoriaModel.C18.Model
namespace C18.Heap
open Py

abbrev H := List Entry

def dflt : Entry := ⟨0, .num 0, [], 0⟩

/-- `heap[i]` -/
def at_ (h : H) (i : Nat) : Entry := h.getD i dflt

/-- `a < b` of `mytuple`: due times only -/
def lt (a b : Entry) : Bool := decide (a.t < b.t)

def swap (h : H) (i j : Nat) : H := (h.set i (at_ h j)).set j (at_ h i)

/-- `(pos - 1) >> 1` -/
def par (i : Nat) : Nat := (i - 1) / 2

/-- `_siftdown(heap, startpos, pos)`: bubble `heap[pos]` up while it is smaller than its parent -/
def siftdown (startpos : Nat) : Nat → H → Nat → H
  | 0, h, _ => h
  | f + 1, h, pos =>
    if startpos < pos && lt (at_ h pos) (at_ h (par pos)) then
      siftdown startpos f (swap h pos (par pos)) (par pos)
    else h

/-- the first loop of `_siftup`: move the smaller child up until a leaf is reached -/
def descend : Nat → H → Nat → H × Nat
  | 0, h, pos => (h, pos)
  | f + 1, h, pos =>
    let c := 2 * pos + 1
    if c < h.length then
      let c' := if c + 1 < h.length && !(lt (at_ h c) (at_ h (c + 1))) then c + 1 else c
      descend f (swap h pos c') c'
    else (h, pos)

/-- `_siftup(heap, pos)` -/
def siftup (h : H) (pos : Nat) : H :=
  let r := descend h.length h pos
  siftdown pos (r.2 + 1) r.1 r.2

/-- `heappush(heap, item)` -/
def heappush (h : H) (x : Entry) : H := siftdown 0 (h.length + 1) (h ++ [x]) h.length

/-- `heappop(heap)`; `none` = IndexError on an empty heap -/
def heappop (h : H) : Option (Entry × H) :=
  match h.getLast? with
  | none => none
  | some last =>
    let h' := h.dropLast
    if h'.isEmpty then some (last, []) else some (at_ h' 0, siftup (h'.set 0 last) 0)

/-- `heapify(x)`: `for i in reversed(range(n//2)): _siftup(x, i)` -/
def heapifyFrom : Nat → H → H
  | 0, h => h
  | i + 1, h => heapifyFrom i (siftup h i)

def heapify (h : H) : H := heapifyFrom (h.length / 2) h

end C18.Heap
