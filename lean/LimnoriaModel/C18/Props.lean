/-
C18 — property theorems.
-/
import LimnoriaModel.C18.Model
namespace C18
end C18
