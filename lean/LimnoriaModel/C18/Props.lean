/-
C18 — property theorems.  (Helper lemmas: `Lemmas.lean`, `Cons.lean`, `Fresh.lean`, `Run.lean`, `ArgsInv.lean`.)

Vocabulary: `P` = the bodies of the event functions (each a list of scheduler calls, possibly
ending in a raise); `runOps P s ops = some (s', tr)` = the operations `ops` (addEvent,
removeEvent, rescheduleEvent, addPeriodicEvent, run — with whatever choices the heap made among
equal due times —, clock ticks, reset) lead from `s` to `s'` emitting the trace `tr`;
every successful `addEvent` gets a registration id (`registered`), kept by `rescheduleEvent`.
-/
import LimnoriaModel.C18.ArgsInv
import LimnoriaModel.C18.PluginCons
import LimnoriaModel.C18.Threads
import LimnoriaModel.C18.HeapLemmas
import LimnoriaModel.C18.HeapHole
import LimnoriaModel.C18.Refine
import LimnoriaModel.C18.Loop
namespace C18
open Py List

/-! ## the heap and the dict stay consistent; `run()` never raises -/

/-- **Invariant of every reachable state**: the scheduled names are exactly the keys of `events`
and no name is scheduled twice — whatever the event functions do while running. -/
theorem name_invariant (P : Prog) (now : Nat) (ops : List Op) (r : Sched × List Ev)
    (h : runOps P (init now) ops = some r) : NameInv r.1 :=
  runOps_nameInv P ops _ r h (init_nameInv now)

/-- **`run()` never raises** (so `drivers.run` never removes the Schedule driver): in a state
satisfying the invariant, `self.events.pop(name)` always finds the function — for every order
in which the heap hands out the due entries and every program of event functions. -/
theorem run_never_raises (P : Prog) (s : Sched) (hi : NameInv s) (picks : List Name) (s' : Sched)
    (evs : List Ev) : runPicks P s picks ≠ .crashed s' evs := by
  intro h
  have := runPicks_inv P picks s hi
  rw [h] at this
  exact this

/-! ## exactly once -/

/-- **Conservation of registrations**: over any history from a fresh schedule, the registrations
made are exactly (as multisets) those that fired, those removed, those discarded by `reset()` and
those still scheduled. -/
theorem conservation (P : Prog) (now : Nat) (ops : List Op) (r : Sched × List Ev)
    (h : runOps P (init now) ops = some r) :
    (regOf r.2).Perm (firedOf r.2 ++ removedOf r.2 ++ discOf r.2 ++ rids r.1.sched) := by
  rw [perm_iff_count]
  intro x
  have hc := runOps_conserves P ops _ r h (init_nameInv now) x
  have hg := goneOf_count x r.2
  simp only [count_append, init, rids, map_nil, count_nil] at *
  omega

/-- registration ids are handed out consecutively: none is used twice -/
theorem registrations_distinct (P : Prog) (now : Nat) (ops : List Op) (r : Sched × List Ev)
    (h : runOps P (init now) ops = some r) : (regOf r.2).Nodup := by
  have := (runOps_fresh P ops _ r h (init_nameInv now)).2
  rw [this]
  exact nodup_range'

/-- **Exactly once.**  Every registration is in exactly one of these places, once: fired,
removed, discarded by `reset()`, still scheduled.  In particular no event fires twice, a removed
event never fires, and an event that is still scheduled has not fired. -/
theorem exactly_once (P : Prog) (now : Nat) (ops : List Op) (r : Sched × List Ev)
    (h : runOps P (init now) ops = some r) :
    (firedOf r.2 ++ removedOf r.2 ++ discOf r.2 ++ rids r.1.sched).Nodup :=
  (conservation P now ops r h).nodup_iff.mp (registrations_distinct P now ops r h)

theorem removed_never_run (P : Prog) (now : Nat) (ops : List Op) (r : Sched × List Ev)
    (h : runOps P (init now) ops = some r) (x : Nat) (hx : x ∈ removedOf r.2) : x ∉ firedOf r.2 := by
  have := exactly_once P now ops r h
  simp only [append_assoc] at this
  have := (nodup_append.mp this).2.2
  intro hf
  exact this x hf x (by simp [hx]) rfl

theorem fired_at_most_once (P : Prog) (now : Nat) (ops : List Op) (r : Sched × List Ev)
    (h : runOps P (init now) ops = some r) : (firedOf r.2).Nodup := by
  have := exactly_once P now ops r h
  simp only [append_assoc] at this
  exact (nodup_append.mp this).1

/-- every registration that fired, was removed or discarded, or is scheduled, was registered -/
theorem fired_were_registered (P : Prog) (now : Nat) (ops : List Op) (r : Sched × List Ev)
    (h : runOps P (init now) ops = some r) (x : Nat) (hx : x ∈ firedOf r.2) : x ∈ regOf r.2 :=
  (conservation P now ops r h).mem_iff.mpr (by simp [hx])

/-! ## not early, nothing due left behind -/

/-- **One `run()`**: whatever the heap's choices among equal due times, every event fired by the
loop had its due time strictly before the current time (never early), each pick was an entry of
minimal due time (`runPicks` accepts nothing else — time order), the clock is untouched, and when
the loop ends no scheduled event is due: every event due before `now` — also those added or
rescheduled into the past by the functions that ran — has run. -/
theorem run_not_early_and_complete (P : Prog) (s s' : Sched) (picks : List Name) (evs : List Ev)
    (h : runPicks P s picks = .ok s' evs) :
    s'.now = s.now ∧ (∀ e ∈ s'.sched, s.now ≤ e.t) ∧
    (∀ rid due now fn a, Ev.fired rid due now fn a ∈ evs → due < now ∧ now = s.now ∧ rid ≠ none) :=
  runPicks_times P picks s s' evs h

/-- **Time order**: the entry an iteration of the loop fires has the least due time of all
scheduled entries at that moment; the rest of the run starts from the state its function left. -/
theorem run_fires_minimum (P : Prog) (s : Sched) (p : Name) (ps : List Name) (s' : Sched) (evs : List Ev)
    (h : runPicks P s (p :: ps) = .ok s' evs) :
    ∃ e f d evs2, e ∈ s.sched ∧ e.name = p ∧ e.t < s.now ∧ (∀ x ∈ s.sched, e.t ≤ x.t) ∧
      dictPop s.events p = some (f, d) ∧
      runPicks P (call P { s with sched := s.sched.erase e, events := d } f (some e.rid) e.t e.args).1 ps
        = .ok s' evs2 ∧
      evs = (call P { s with sched := s.sched.erase e, events := d } f (some e.rid) e.t e.args).2.1 ++ evs2 := by
  obtain ⟨e, f, d, evs2, hl, hmem, hn, hmin, hp, hrec, hev⟩ := runPicks_cons_ok h
  refine ⟨e, f, d, evs2, hmem, hn, ?_, minDue_le _ _ hmin.symm, hp, hrec, hev⟩
  unfold loopCond at hl
  rw [← hmin] at hl
  simpa using hl

/-! ## raising functions, periodic events -/

/-- **A function that raises ends only its own body**: the calls it made before the raise stay
in effect, nothing after the raise happens — and (`run_fires_minimum`) the loop goes on with
the next due entry from exactly that state: `except Exception` swallows it. -/
theorem raise_ends_only_its_body : ∀ (acts rest : List Act) (s : Sched),
    (execActs s acts).2.2 = none →
    execActs s (acts ++ Act.raise :: rest) =
      ((execActs s acts).1, (execActs s acts).2.1 ++ [Ev.failed .raised], some .raised)
  | [], rest, s, _ => by simp [execActs, execAct]
  | a :: acts, rest, s, h => by
    unfold execActs at h ⊢
    simp only [cons_append]
    split
    · rename_i s1 ev e he
      rw [he] at h; simp at h
    · rename_i s1 ev he
      rw [he] at h
      dsimp only at h ⊢
      rw [raise_ends_only_its_body acts rest s1 h]
      simp

/-- **A periodic event keeps recurring even when its function raises**: when the wrapper runs
with occurrences left (`count` None or > 1), whatever its function's body did — completed or
raised — it registers its next occurrence at `now + period` under its name with the count
decreased, and returns normally, provided the name is free at that moment (its own function has
not taken it). -/
theorem periodic_recurs (P : Prog) (s : Sched) (fn period : Nat) (name : Option Name) (wargs : Args)
    (count : Option Nat) (rid : Option Nat) (due : Nat) (args : Args)
    (hagain : count = none ∨ ∃ c, count = some c ∧ 1 < c)
    (hfree : hasKey (execActs s (body P fn)).1.events
      (match name with
        | none => .num (execActs s (body P fn)).1.counter
        | some n => n) = false) :
    let res := call P s (.wrapper fn period name wargs count) rid due args
    let nm : Name := match name with
      | none => .num (execActs s (body P fn)).1.counter
      | some n => n
    res.2.2 = none ∧ (nm, FnRef.wrapper fn period name wargs (count.map (· - 1))) ∈ res.1.events ∧
    ∃ e ∈ res.1.sched, e.name = nm ∧ e.t = s.now + period := by
  have hnow := (execActs_now (body P fn) s).1
  have hag : again (count.map (· - 1)) = true := by
    rcases hagain with h | ⟨c, h, hc⟩
    · subst h; rfl
    · subst h; simp [again]; omega
  unfold call
  dsimp only
  rw [hag]
  simp only [if_true]
  cases name with
  | none =>
    unfold addEvent
    dsimp only at hfree ⊢
    rw [hfree]
    simp only [Bool.false_eq_true, if_false]
    refine ⟨trivial, by simp, ⟨_, by simp; exact Or.inr rfl, rfl, by simp [hnow]⟩⟩
  | some n =>
    unfold addEvent
    dsimp only at hfree ⊢
    rw [hfree]
    simp only [Bool.false_eq_true, if_false]
    refine ⟨trivial, by simp, ⟨_, by simp; exact Or.inr rfl, rfl, by simp [hnow]⟩⟩

/-! ## with the arguments it was registered with -/

/-- **An event fires with the function and the arguments of its registration** — also after any
number of `rescheduleEvent` calls (which, since the repair, carry the arguments over).  For a
periodic wrapper the function and arguments are those given to `addPeriodicEvent`.
(Registration ids are unique, `registrations_distinct`, so "its registration" is well defined.) -/
theorem args_preserved (P : Prog) (now : Nat) (ops : List Op) (r : Sched × List Ev)
    (h : runOps P (init now) ops = some r) (rid due t fn : Nat) (a : Args)
    (hf : Ev.fired (some rid) due t fn a ∈ r.2) :
    ∃ f regArgs, (rid, f, regArgs) ∈ regTable r.2 ∧
      ((f = .plain fn ∧ a = regArgs) ∨ ∃ p n c, f = .wrapper fn p n a c) := by
  have := (runOps_args P ops (init now) r [] h (init_nameInv now) (by intro e he; cases he)).2
  simp only [nil_append] at this
  exact this rid due t fn a hf

/-- … and the scheduled entries always carry the arguments of their registration, `events` its
function (the invariant behind `args_preserved`) -/
theorem scheduled_match_registration (P : Prog) (now : Nat) (ops : List Op) (r : Sched × List Ev)
    (h : runOps P (init now) ops = some r) : ArgsInv r.1 (regTable r.2) := by
  have := (runOps_args P ops (init now) r [] h (init_nameInv now) (by intro e he; cases he)).1
  simpa using this

/-- **A rescheduled event runs once, at the new time.**  In a reachable state, rescheduling a
scheduled event succeeds and changes exactly that entry: same registration (so, by `exactly_once`,
it still fires at most once), same arguments, the new due time (so, by
`run_not_early_and_complete`, it fires only after the new time has passed and is not left behind
once it has); every other entry is untouched. -/
theorem reschedule_moves_entry (s : Sched) (hi : NameInv s) (e : Entry) (he : e ∈ s.sched) (t : Nat) :
    (reschedOp s e.name t).2.2 = none ∧
    (reschedOp s e.name t).2.1 = [Ev.rescheduled e.rid t] ∧
    (reschedOp s e.name t).1.sched =
      s.sched.filter (fun x => !(x.name = e.name)) ++ [⟨t, e.name, e.args, e.rid⟩] :=
  reschedOp_moves s hi e he t

/-! ## non-vacuity -/

/-- fn0 re-adds an overdue one-shot and reschedules "b"; fn1 raises after scheduling; fn2 is quiet -/
def exProg : Prog :=
  [[.add 2 (.abs 990) (some (.str ['z'])) [['q']], .resched (.str ['b']) (.rel 5)],
   [.add 2 (.rel 1) none [], .raise, .remove (.str ['b'])],
   []]

def exOps : List Op :=
  [.add 0 (.rel 2) (some (.str ['a'])) [['x']],
   .add 1 (.rel 2) (some (.str ['b'])) [['y'], ['*', '*', 'k', '=', 'v']],
   .add 2 (.rel 2) none [],
   .addPeriodic 1 3 (some (.str ['p'])) false [['w']] (some 2),
   .resched (.str ['b']) (.abs 1001),
   .remove (.num 0),
   .tick 3,
   .run [.str ['b'], .str ['a'], .str ['z']],
   .tick 2,
   .run [.str ['p'], .num 1],
   .tick 10,
   .run [.num 2, .str ['p']]]

-- the example history is an execution (ties resolved as listed) …
example : (runOps exProg (init 1000) exOps).isSome = true := by decide
-- … in which a rescheduled event with arguments, an overdue event added during the run, a raising
-- function and a periodic event (twice) all fire, and one event is removed:
example : (runOps exProg (init 1000) exOps).map (fun r => (firedOf r.2, removedOf r.2, rids r.1.sched)) =
    some ([1, 0, 5, 3, 4, 6, 7], [2], [8]) := by decide
example : (runOps exProg (init 1000) exOps).map (fun r => regOf r.2) = some [0, 1, 2, 3, 4, 5, 6, 7, 8] := by
  decide
-- `args_preserved`: registration 1 fired with the arguments given to addEvent, after being rescheduled
example : ∃ r, runOps exProg (init 1000) exOps = some r ∧
    Ev.fired (some 1) 1001 1003 1 [['y'], ['*', '*', 'k', '=', 'v']] ∈ r.2 := by
  refine ⟨(runOps exProg (init 1000) exOps).get (by decide), by simp, by decide⟩
-- `periodic_recurs`: a wrapper whose function raises, with occurrences left and a free name
example : (execActs (init 1000) (body exProg 1)).2.2 = some .raised ∧
    hasKey (execActs (init 1000) (body exProg 1)).1.events (.str ['p']) = false := by decide
-- `raise_ends_only_its_body`: a body with a successful prefix before its raise
example : (execActs (init 1000) [Act.add 2 (.rel 1) none []]).2.2 = none := by decide
-- `run_never_raises` / `name_invariant` hypotheses are met by `init`; `run_fires_minimum` and
-- `run_not_early_and_complete` by the runs above:
example : ∃ s' evs, runPicks exProg
    ((runOps exProg (init 1000) (exOps.take 7)).get (by decide)).1 [.str ['b'], .str ['a'], .str ['z']]
      = .ok s' evs := by
  have h : (match runPicks exProg ((runOps exProg (init 1000) (exOps.take 7)).get (by decide)).1
      [.str ['b'], .str ['a'], .str ['z']] with
    | .ok _ _ => true
    | _ => false) = true := by decide
  split at h
  · exact ⟨_, _, by assumption⟩
  · cases h

/-! ## heapq

`Heap.lean` models CPython's `heappush`, `heappop`, `heapify` (`_siftdown`, `_siftup`) on the list
of schedule entries with `mytuple`'s comparison (due times only).  `HeapFrom h 0` is the heap
invariant: no entry is earlier than its parent. -/

/-- **`heappush` keeps the heap invariant** and adds exactly the new entry -/
theorem heap_push_ok (h : Heap.H) (x : Entry) (hh : Heap.HeapFrom h 0) :
    Heap.HeapFrom (Heap.heappush h x) 0 ∧ (Heap.heappush h x).Perm (x :: h) :=
  ⟨Heap.heappush_ok h x hh, Heap.heappush_perm h x⟩

/-- **`heapify` makes a heap out of any list** (what `removeEvent` relies on after filtering) -/
theorem heap_heapify_ok (h : Heap.H) : Heap.HeapFrom (Heap.heapify h) 0 ∧ (Heap.heapify h).Perm h :=
  ⟨(Heap.heapify_ok h).1, Heap.heapify_perm h⟩

/-- **`heappop` returns a minimum and keeps the invariant**: the entry it returns is not later than
any entry of the heap, the rest is a heap again and, with that entry, a permutation of the heap -/
theorem heap_pop_ok (h : Heap.H) (hh : Heap.HeapFrom h 0) (x : Entry) (h2 : Heap.H)
    (hp : Heap.heappop h = some (x, h2)) :
    Heap.HeapFrom h2 0 ∧ (∀ y ∈ h, x.t ≤ y.t) ∧ h.Perm (x :: h2) := by
  obtain ⟨a, b, c⟩ := Heap.heappop_ok h hh x h2 hp
  refine ⟨a, ?_, c⟩
  intro y hy
  obtain ⟨i, hi, e⟩ := mem_iff_getElem.mp hy
  have := b i hi
  rw [Heap.at_eq_getElem h i hi, e] at this
  exact this

/-- **The heap's choice is a valid pick**: when the heap holds the schedule, what `heappop` hands
to `run()` is an entry of the schedule of minimal due time — the condition `runPicks` and `popAtom`
put on a pick — so "heappop returns a minimum" is a theorem about the modelled heapq, not an
assumption; `run_fires_minimum` applies to every run of the real loop. -/
theorem heap_choice_is_valid_pick (h : Heap.H) (sched : List Entry) (hh : Heap.HeapFrom h 0)
    (hperm : h.Perm sched) (x : Entry) (h2 : Heap.H) (hp : Heap.heappop h = some (x, h2)) :
    x ∈ sched ∧ some x.t = minDue sched ∧ Heap.HeapFrom h2 0 ∧ h2.Perm (sched.erase x) :=
  Heap.heappop_valid_pick h sched hh hperm x h2 hp

-- a heap of five entries: push keeps it a heap, pop hands out the earliest
example : Heap.heappop (Heap.heappush (Heap.heapify [⟨5, .num 0, [], 0⟩, ⟨3, .num 1, [], 1⟩, ⟨9, .num 2, [], 2⟩,
      ⟨3, .num 3, [], 3⟩]) ⟨1, .num 4, [], 4⟩) =
    some (⟨1, .num 4, [], 4⟩, [⟨3, .num 3, [], 3⟩, ⟨3, .num 1, [], 1⟩, ⟨9, .num 2, [], 2⟩, ⟨5, .num 0, [], 0⟩]) := by
  decide

/-- **`heapq` as it is written** (Lib/heapq.py: `_siftdown` / `_siftup` move a hole and write the item
back once) computes the same lists as the swap model the theorems above are about: they are theorems
about the code as written; the driver of the differential heap stream runs the literal transcription. -/
theorem heapq_as_written (h : Heap.H) (x : Entry) :
    Heap.heappushC h x = Heap.heappush h x ∧ Heap.heappopC h = Heap.heappop h ∧
    Heap.heapifyC h = Heap.heapify h :=
  ⟨Heap.heappushC_eq h x, Heap.heappopC_eq h, Heap.heapifyC_eq h⟩

/-! ## threads and the lock -/

/-- **Where the lock is** (extracted from src/schedule.py on every run): every operation of
`addEvent`, `removeEvent`, `rescheduleEvent`, `reset` and `run` on the heap, the `events` dict and
the counter is inside `with self.lock:` and the event function is called outside it (first clause: locked iff
not the call); and the
operations the atoms of `Threads.lean` stand for are all there. -/
theorem lock_placement_ok :
    Gen.schedLock.all (fun r => (r.2.1 == ['c', 'a', 'l', 'l']) != r.2.2) = true ∧
    Gen.schedLock.contains (['a', 'd', 'd', 'E', 'v', 'e', 'n', 't'], ['e', 'v', 'e', 'n', 't', 's', '.', 'c', 'o', 'n', 't', 'a', 'i', 'n', 's'], true) = true ∧
    Gen.schedLock.contains (['a', 'd', 'd', 'E', 'v', 'e', 'n', 't'], ['e', 'v', 'e', 'n', 't', 's', '.', 's', 'e', 't'], true) = true ∧
    Gen.schedLock.contains (['a', 'd', 'd', 'E', 'v', 'e', 'n', 't'], ['h', 'e', 'a', 'p', '.', 'h', 'e', 'a', 'p', 'p', 'u', 's', 'h'], true) = true ∧
    Gen.schedLock.contains (['r', 'e', 'm', 'o', 'v', 'e', 'E', 'v', 'e', 'n', 't'], ['e', 'v', 'e', 'n', 't', 's', '.', 'p', 'o', 'p'], true) = true ∧
    Gen.schedLock.contains (['r', 'e', 'm', 'o', 'v', 'e', 'E', 'v', 'e', 'n', 't'], ['h', 'e', 'a', 'p', '.', 'h', 'e', 'a', 'p', 'i', 'f', 'y'], true) = true ∧
    Gen.schedLock.contains (['r', 'u', 'n'], ['h', 'e', 'a', 'p', '.', 'p', 'e', 'e', 'k'], true) = true ∧
    Gen.schedLock.contains (['r', 'u', 'n'], ['h', 'e', 'a', 'p', '.', 'h', 'e', 'a', 'p', 'p', 'o', 'p'], true) = true ∧
    Gen.schedLock.contains (['r', 'u', 'n'], ['e', 'v', 'e', 'n', 't', 's', '.', 'p', 'o', 'p'], true) = true ∧
    Gen.schedLock.contains (['r', 'u', 'n'], ['c', 'a', 'l', 'l'], false) = true := by decide

/-- **`run()` racing with other threads**: for every interleaving of critical sections
(`addEvent`, `removeEvent`, iterations of `run()`, `reset`, by any number of threads, in the order
the lock is granted) the name invariant holds at every lock release — every prefix of an
interleaving is an interleaving —, `self.events.pop` inside `run()` never raises, and the books
balance: registrations are pairwise distinct and each is fired, removed, discarded or still
scheduled, exactly once; an iteration of `run()` tests "due" and pops in one critical section, so it
never fires early.  (False before the repairs of the lock placement: `removeEvent` popped the dict
before taking the lock, `addEvent` checked the name and `run` the due time before taking it.) -/
theorem threads_safe (now : Nat) (as : List Atom) :
    match arun (init now) as with
    | .ok s' evs => NameInv s' ∧ (firedOf evs ++ removedOf evs ++ discOf evs ++ rids s'.sched).Nodup
    | .crashed => False
    | .disabled => True := by
  have h := arun_good as (init now) (init_nameInv now)
  cases he : arun (init now) as with
  | disabled => trivial
  | crashed => rw [he] at h; exact h
  | ok s' evs =>
    rw [he] at h
    obtain ⟨h1, h2, h3⟩ := h
    refine ⟨h1, ?_⟩
    have hperm : (regOf evs).Perm (firedOf evs ++ removedOf evs ++ discOf evs ++ rids s'.sched) := by
      rw [perm_iff_count]
      intro x
      have hc := h2 x
      have hg := goneOf_count x evs
      simp only [count_append, init, rids, map_nil, count_nil] at *
      omega
    have hnd : (regOf evs).Nodup := by rw [h3.2]; exact nodup_range'
    exact hperm.nodup_iff.mp hnd

-- a two-thread history: thread A removes "x" while thread B's run() pops it; whichever gets the lock
-- first, nothing breaks
example : (match arun (init 1000) [.add (.plain 0) 1005 (some (.str ['x'])) [], .tick 10, .pop (.str ['x']),
      .remove (.str ['x'])] with
    | .ok s' evs => decide (s'.sched = [] ∧ firedOf evs = [0])
    | _ => false) = true := by decide

/-! ## the driver loop -/

/-- **The Schedule driver is never removed**: `drivers.run()` drops a driver whose `run()` lets an
exception escape, for good.  Over every history of schedule API calls (from plugins, drivers, event
functions) and rounds of `drivers.run()` from a fresh schedule, `Schedule.run()` never raises, so
the driver is still in `drivers._drivers` at the end, and the name invariant holds. -/
theorem schedule_driver_stays (P : Prog) (now : Nat) (os : List LOp) (r : Loop × List Ev)
    (h : lrun P (linit now) os = some r) : r.1.alive = true ∧ NameInv r.1.s :=
  lrun_keeps P os (linit now) r h rfl (init_nameInv now)

/-- **Every round of `drivers.run()` completes the due work**: while the driver is in the loop, one
round leaves no scheduled event due — whatever the functions that ran scheduled meanwhile — and
the driver stays. -/
theorem drivers_round_completes (P : Prog) (l : Loop) (picks : List Name) (r : Loop × List Ev)
    (h : driversRun P l picks = some r) (ha : l.alive = true) (hi : NameInv l.s) :
    r.1.alive = true ∧ (∀ e ∈ r.1.s.sched, l.s.now ≤ e.t) :=
  have := driversRun_keeps P l picks r h ha hi
  ⟨this.1, this.2.2.2⟩

/-! ## the Scheduler plugin on top of the schedule

`Plug.prun s ops` runs commands of the plugin (`scheduler add/remind/remove/repeat/list`), plugin
life-cycle operations (load, unload, reload, a restart of the bot, `_flush`), other plugins'
scheduling, clock ticks and `schedule.run()` on the model of plugins/Scheduler/plugin.py
(`Plugin.lean`); keys of the plugin's table are `Key.id n` (the string `str(n)` of a one-shot
event's integer id, scheduled under the *integer* name `Name.num n`) or `Key.name s` (a repeating
event, scheduled under the *string* `Name.str s`). -/

open Plug in
/-- **Invariant of every reachable state of bot + plugin** (`Plug.PInv`, `Plug.PickleInv`): the
scheduled names are pairwise distinct; counter names and table ids are below the counter; the
table's keys are distinct and its ids ascending; every scheduled closure of the plugin belongs to
the *live* instance, sits under the name of its key (`int` for one-shot events) and has its entry —
with its due time and command — in that instance's table; every table entry has its closure
scheduled; an unloaded plugin has nothing scheduled and its saved table is well formed. -/
theorem plugin_invariant (now : Nat) (ops : List Plug.POp) (r : Plug.PState × List Plug.PEv)
    (h : Plug.prun (Plug.pinit now) ops = some r) : Plug.Inv r.1 :=
  (prun_inv ops _ r (pinit_inv now) h).1

open Plug in
/-- **The id discipline**: in every reachable state — in particular right after `_restoreEvents`,
after a reload as after a restart of the bot — every integer name in the schedule and every integer
id in the plugin's table is below `schedule.counter` (a restored id is kept only when the counter is
already past it; otherwise the event gets a new id and the counter moves on). -/
theorem ids_below_counter (now : Nat) (ops : List Plug.POp) (r : Plug.PState × List Plug.PEv)
    (h : Plug.prun (Plug.pinit now) ops = some r) :
    (∀ e ∈ r.1.sched, ∀ n, e.name = .num n → n < r.1.counter) ∧
    (∀ i rec, (Key.id i, rec) ∈ r.1.table → i < r.1.counter) :=
  have hi := (plugin_invariant now ops r h).1
  ⟨hi.numLt, fun i rec hm => (hi.idLt i rec hm).1⟩

open Plug in
/-- … hence **an anonymous `schedule.addEvent(f, t)` by any component never fails** (its
`assert name not in self.events` cannot fire): the counter name it takes is free, whatever was
restored before. -/
theorem anonymous_add_never_fails (now : Nat) (ops : List Plug.POp) (r : Plug.PState × List Plug.PEv)
    (h : Plug.prun (Plug.pinit now) ops = some r) (mk : Name → PFn) (t : Nat) :
    (addEv r.1 mk t none).2 = some (.num r.1.counter) := by
  have hi := (plugin_invariant now ops r h).1
  have hf := num_fresh hi
  simp only [addEv]
  rw [if_neg hf]

open Plug in
/-- **No command runs on behalf of a dead plugin instance, none finds its table entry gone**
(the two ways the pinned tree ran events twice or not at all around reloads). -/
theorem plugin_no_stale_runs (now : Nat) (ops : List Plug.POp) (r : Plug.PState × List Plug.PEv)
    (h : Plug.prun (Plug.pinit now) ops = some r) :
    ∀ ev ∈ r.2, (∀ c t, ev ≠ .ranStale c t) ∧ (∀ c, ev ≠ .skipped c) := by
  intro ev hev
  have := (prun_inv ops _ r (pinit_inv now) h).2 ev hev
  constructor
  · intro c t e; subst e; cases this
  · intro c e; subst e; cases this

open Plug in
/-- **`reload Scheduler` with events pending** leaves the table as it was (same keys, same
records, same order), the counter untouched, the other plugins' entries in place, and schedules
exactly one new entry per saved event, owned by the new instance: a one-shot event `str(n)` under
the integer name `n` with its due time, a repeating event under its string name. -/
theorem reload_keeps_events (s : Plug.PState) (h : Plug.Inv s) (hl : s.loaded = true) :
    (Plug.reload s).1 = Plug.reloaded s ∧ Plug.Inv (Plug.reload s).1 :=
  ⟨reload_exact s h hl, reload_inv s h⟩

open Plug in
/-- … so every pending event is scheduled **exactly once** after the reload: the entries of the
schedule carrying the name of a table key are exactly one, the one built from that key's record. -/
theorem reload_each_exactly_once (s : Plug.PState) (h : Plug.Inv s) (hl : s.loaded = true)
    (k : Plug.Key) (r : Plug.Rec) (hk : (k, r) ∈ s.table) :
    (Plug.reload s).1.sched.filter (fun e => decide (e.name = k.toName))
      = [Plug.entryOf (s.inst + 1) s.now (k, r)] := by
  have hinv := reload_inv s h
  rw [reload_exact s h hl] at hinv ⊢
  have hmem : entryOf (s.inst + 1) s.now (k, r) ∈ (reloaded s).sched := by
    unfold reloaded
    exact List.mem_append_right _ (List.mem_map.mpr ⟨(k, r), hk, rfl⟩)
  have := pentry_filter_unique _ hinv.1.names _ hmem
  rw [entryOf_name] at this
  exact this

open Plug in
/-- the same for unload followed by load, and for any load of a saved table: the invariant holds
again, so each restored event is scheduled once, by the live instance (`plugin_invariant` covers
every interleaving; this is the single step) -/
theorem load_restores_invariant (s : Plug.PState) (h : Plug.Inv s) :
    Plug.Inv (Plug.load s).1 ∧ Plug.Inv (Plug.unload s).1 ∧ Plug.Inv (Plug.restart s).1 :=
  ⟨load_op_inv s h, unload_inv s h, restart_inv s h⟩

open Plug in
/-- **The whole-history law of the plugin layer**: over any interleaving of `scheduler
add/remind/remove/repeat/list`, load, unload, reload, restarts of the bot, `_flush`, other plugins'
scheduling, clock advances and `run()`, the one-shot commands users added are exactly (as
multisets) those that ran, those that were removed and those still pending — in the live table,
or in the saved one while the plugin is not loaded. -/
theorem plugin_conservation (now : Nat) (ops : List Plug.POp) (r : Plug.PState × List Plug.PEv)
    (h : Plug.prun (Plug.pinit now) ops = some r) :
    (Plug.addedCmds r.2).Perm (Plug.ranCmds r.2 ++ Plug.removedCmds r.2 ++ Plug.pendingCmds r.1) := by
  rw [perm_iff_count]
  intro x
  have := prun_bal ops _ r (pinit_inv now) h x
  simp only [count_append, pendingCmds, pinit, if_true, singles, count_nil] at *
  omega

open Plug in
/-- **Each added, never removed one-shot command runs exactly once** — at most once along the
way, and once it is neither pending nor removed it has run: when users give every command its own
text (`Nodup`), the commands that ran, were removed or are pending are pairwise distinct and are
exactly the added ones. -/
theorem plugin_exactly_once (now : Nat) (ops : List Plug.POp) (r : Plug.PState × List Plug.PEv)
    (h : Plug.prun (Plug.pinit now) ops = some r) (hd : (Plug.addedCmds r.2).Nodup) :
    (Plug.ranCmds r.2 ++ Plug.removedCmds r.2 ++ Plug.pendingCmds r.1).Nodup ∧
    ∀ c ∈ Plug.addedCmds r.2, c ∉ Plug.removedCmds r.2 → c ∉ Plug.pendingCmds r.1 → c ∈ Plug.ranCmds r.2 := by
  have hp := plugin_conservation now ops r h
  refine ⟨hp.nodup_iff.mp hd, ?_⟩
  intro c hc h1 h2
  have := hp.mem_iff.mp hc
  simp only [mem_append] at this
  rcases this with (h' | h') | h'
  · exact h'
  · exact absurd h' h1
  · exact absurd h' h2

/-! ### non-vacuity (plugin layer) -/

def exPlugOps : List Plug.POp :=
  [.add 10 1, .add 30 2, .repeat_ ['r', 'a'] 7 3 4, .foreign 9 1005, .reload, .remove (.id 0), .tick 12,
   .run [.num 2, .str ['r', 'a']], .unload, .tick 30, .run [], .load, .tick 1, .run [.num 1],
   .restart, .add 5 4, .tick 9, .run [.num 0]]

-- the history is an execution; event 1 (cmd 2) survives reload, unload/load (it is overdue when the
-- plugin comes back) and runs once; the removed event 0 (cmd 1) never runs; the repeating one runs
-- and is re-scheduled by every (re)load
example : (Plug.prun (Plug.pinit 1000) exPlugOps).map (fun r => r.2.filterMap fun
      | .ran _ c _ => some c
      | _ => none) = some [3, 2, 4] := by decide
-- `plugin_exactly_once`: the added commands of that history are pairwise distinct
example : (Plug.prun (Plug.pinit 1000) exPlugOps).map (fun r => (Plug.addedCmds r.2, Plug.removedCmds r.2)) =
    some ([1, 2, 4], [1]) := by decide
-- `reload_keeps_events` / `reload_each_exactly_once`: a loaded state with three pending events
example : ((Plug.prun (Plug.pinit 1000) (exPlugOps.take 4)).map fun r => (r.1.loaded, Plug.tkeys r.1.table)) =
    some (true, [.id 0, .id 1, .name ['r', 'a']]) := by decide

/-! ## `repeat`: when the next run is due -/

open Plug in
/-- **`_getNextRunIn`** (what `_restoreEvents` uses for a repeating event after a reload or restart):
the restored event is due strictly in the future, on the grid `first_run + k · period`. -/
theorem nextRunIn_on_grid (first now period : Nat) (hp : 0 < period) (hf : first ≤ now) :
    0 < nextRunIn first now period ∧
    (((now : Int) + (nextRunIn first now period : Nat)) - first) % (period : Int) = 0 := by
  have hpi : (0 : Int) < period := by omega
  have hm0 := Int.emod_nonneg ((now : Int) - first) (by omega : (period : Int) ≠ 0)
  have hm1 := Int.emod_lt_of_pos ((now : Int) - first) hpi
  have hd := Int.mul_ediv_add_emod ((now : Int) - first) period
  generalize hq : ((now : Int) - first) / period = q at hd
  generalize hm : ((now : Int) - first) % period = m at hd hm0 hm1
  unfold nextRunIn
  simp only [hm]
  by_cases h5 : (period : Int) - m < 5
  · simp only [h5, if_true]
    refine ⟨by omega, ?_⟩
    have : ((now : Int) + (((period : Int) - m + period).toNat : Nat)) - first
        = (period : Int) * (q + 2) := by
      rw [Int.mul_add]; omega
    rw [this]; exact Int.mul_emod_right _ _
  · simp only [h5, if_false]
    refine ⟨by omega, ?_⟩
    have : ((now : Int) + (((period : Int) - m).toNat : Nat)) - first = (period : Int) * (q + 1) := by
      rw [Int.mul_add]; omega
    rw [this]; exact Int.mul_emod_right _ _

-- **but a running repeat event is not kept on that grid**: the periodic wrapper re-schedules itself
-- `period` after the moment it RAN (`time.time() + t`), not after the moment it was due; `run()` called
-- 3 s late (the driver loop polls) moves this and every later run by 3 s (finding C18-repeat-drifts):
-- "every 10 s from 1000" runs at 1003 and is then due at 1013, not 1010
example : (Plug.prun (Plug.pinit 1000) [.repeat_ ['r'] 10 1 0, .tick 3, .run [.str ['r']]]).map
      (fun r => r.1.sched.map (·.t)) = some [1013] := by decide
-- … until the next reload or restart, which puts it back on the grid (1010)
example : (Plug.prun (Plug.pinit 1000) [.repeat_ ['r'] 10 1 0, .tick 3, .run [.str ['r']], .tick 1, .reload]).map
      (fun r => r.1.sched.map (·.t)) = some [1010] := by decide

/-! ## the plugin model refines the core scheduler model -/

open Plug in
/-- **Refinement**: the schedule inside the plugin model is the core scheduler driven through its API.
For every history of plugin operations from a fresh bot there is a sequence of core calls —
`addEvent`, `removeEvent`, heads of iterations of `run()` (each a *valid* pick of the core model: due
and of minimal due time), clock ticks, a new process at each restart — from the fresh core scheduler
to a core state with the same due times and names in the same order, the same counter and the same
clock (`Sim`); the core invariant holds there. -/
theorem plugin_refines_core (now : Nat) (ops : List Plug.POp) (r : Plug.PState × List Plug.PEv)
    (h : Plug.prun (Plug.pinit now) ops = some r) :
    ∃ calls c, coreRun (init now) calls = some c ∧ Sim r.1 c := by
  obtain ⟨c, ⟨calls, hc⟩, hs⟩ := prun_ref ops _ _ r (pinit_sim now) h
  exact ⟨calls, c, hc, hs⟩

open Plug in
/-- … hence what the core invariant says holds of the plugin's schedule, by transfer rather than by
a proof of its own: no name is scheduled twice. -/
theorem plugin_names_unique_by_refinement (now : Nat) (ops : List Plug.POp) (r : Plug.PState × List Plug.PEv)
    (h : Plug.prun (Plug.pinit now) ops = some r) : (snames r.1.sched).Nodup := by
  obtain ⟨_, c, _, hs⟩ := plugin_refines_core now ops r h
  rw [snames_eq hs]
  exact hs.inv.schedNodup

end C18
