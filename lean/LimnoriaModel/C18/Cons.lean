/-
C18 — helper lemmas: conservation of registrations (registered = fired + removed + discarded +
still scheduled), freshness of registration ids.
-/
import LimnoriaModel.C18.Lemmas
namespace C18
open Py List

def rids (l : List Entry) : List Nat := l.map (·.rid)

/-! ### projections of a trace -/

def regOf : List Ev → List Nat
  | [] => []
  | .registered r _ _ _ _ :: t => r :: regOf t
  | _ :: t => regOf t

def firedOf : List Ev → List Nat
  | [] => []
  | .fired (some r) _ _ _ _ :: t => r :: firedOf t
  | _ :: t => firedOf t

def removedOf : List Ev → List Nat
  | [] => []
  | .removed r :: t => r :: removedOf t
  | _ :: t => removedOf t

def discOf : List Ev → List Nat
  | [] => []
  | .discarded rs :: t => rs ++ discOf t
  | _ :: t => discOf t

/-- every way a registration leaves the schedule -/
def goneOf : List Ev → List Nat
  | [] => []
  | .fired (some r) _ _ _ _ :: t => r :: goneOf t
  | .removed r :: t => r :: goneOf t
  | .discarded rs :: t => rs ++ goneOf t
  | _ :: t => goneOf t

theorem regOf_append (a b : List Ev) : regOf (a ++ b) = regOf a ++ regOf b := by
  induction a with
  | nil => rfl
  | cons e r ih => cases e <;> simp [regOf, ih]

theorem goneOf_append (a b : List Ev) : goneOf (a ++ b) = goneOf a ++ goneOf b := by
  induction a with
  | nil => rfl
  | cons e r ih =>
    cases e with
    | fired rid _ _ _ _ => cases rid <;> simp [goneOf, ih]
    | _ => simp [goneOf, ih]

theorem firedOf_append (a b : List Ev) : firedOf (a ++ b) = firedOf a ++ firedOf b := by
  induction a with
  | nil => rfl
  | cons e r ih =>
    cases e with
    | fired rid _ _ _ _ => cases rid <;> simp [firedOf, ih]
    | _ => simp [firedOf, ih]

theorem removedOf_append (a b : List Ev) : removedOf (a ++ b) = removedOf a ++ removedOf b := by
  induction a with
  | nil => rfl
  | cons e r ih => cases e <;> simp [removedOf, ih]

theorem discOf_append (a b : List Ev) : discOf (a ++ b) = discOf a ++ discOf b := by
  induction a with
  | nil => rfl
  | cons e r ih => cases e <;> simp [discOf, ih]

/-- `count x [r]`, opaque for `omega` -/
def one (x r : Nat) : Nat := count x [r]

theorem count_cons_one (x r : Nat) (l : List Nat) : count x (r :: l) = one x r + count x l := by
  simp [one, count_cons]; omega

theorem goneOf_count (x : Nat) (tr : List Ev) :
    count x (goneOf tr) = count x (firedOf tr) + count x (removedOf tr) + count x (discOf tr) := by
  induction tr with
  | nil => rfl
  | cons e r ih =>
    cases e with
    | fired rid _ _ _ _ =>
      cases rid <;> simp only [goneOf, firedOf, removedOf, discOf, count_cons_one, ih] <;> omega
    | _ => simp only [goneOf, firedOf, removedOf, discOf, count_cons_one, count_append, ih] <;> omega

macro "cnt" : tactic =>
  `(tactic| (simp only [rids, regOf, goneOf, regOf_append, goneOf_append, map_append, map_cons, map_nil,
      count_append, count_cons_one, count_nil] at * <;> omega))

/-- scheduled-before + registered = gone + scheduled-after (per registration id) -/
def Conserves (s : Sched) (s' : Sched) (evs : List Ev) : Prop :=
  ∀ x : Nat, count x (rids s.sched) + count x (regOf evs) = count x (goneOf evs) + count x (rids s'.sched)

theorem Conserves.refl (s : Sched) : Conserves s s [] := by intro x; cnt

theorem Conserves.trans {s s1 s2 : Sched} {e1 e2 : List Ev} (h1 : Conserves s s1 e1)
    (h2 : Conserves s1 s2 e2) : Conserves s s2 (e1 ++ e2) := by
  intro x
  have a := h1 x; have b := h2 x
  simp only [regOf_append, goneOf_append, count_append] at *
  omega

theorem Conserves.of_sched_eq {s s' : Sched} {evs : List Ev} (h : s'.sched = s.sched)
    (h1 : regOf evs = []) (h2 : goneOf evs = []) : Conserves s s' evs := by
  intro x; rw [h, h1, h2]; simp

theorem addEvent_conserves (s : Sched) (f : FnRef) (t : Nat) (name : Option Name) (args : Args) :
    Conserves s (addEvent s f t name args none).1.1 (addEvent s f t name args none).1.2.1 := by
  cases name <;> (unfold addEvent; dsimp only; split <;> (intro x; cnt))

theorem count_filter_split (l : List Entry) (p : Entry → Bool) (x : Nat) :
    count x (rids l) = count x (rids (l.filter p)) + count x (rids (l.filter (fun e => !p e))) := by
  induction l with
  | nil => rfl
  | cons e es ih =>
    cases h : p e <;> simp only [rids, filter_cons, h, map_cons, count_cons_one, Bool.not_false,
      Bool.not_true, if_true, if_false, Bool.false_eq_true] at * <;> omega

theorem removeOp_conserves (s : Sched) (n : Name) :
    Conserves s (removeOp s n).1 (removeOp s n).2.1 := by
  unfold removeOp removeEvent
  split
  · rename_i h
    split at h
    · intro x; cnt
    · cases h
  · rename_i s1 f gone h
    split at h
    · cases h
    · rename_i f' d hp
      injection h with h1 h2; injection h2 with h2 h3
      subst h1 h3
      intro x
      have := count_filter_split s.sched (fun e => decide (e.name = n)) x
      have hg : ∀ l : List Entry, count x (goneOf (l.map fun e => Ev.removed e.rid)) = count x (rids l) := by
        intro l; induction l with
        | nil => rfl
        | cons a l ih => simp only [map_cons, goneOf, rids, count_cons_one] at *; omega
      have hr : ∀ l : List Entry, regOf (l.map fun e => Ev.removed e.rid) = [] := by
        intro l; induction l with
        | nil => rfl
        | cons a l ih => simpa [regOf] using ih
      rw [hg, hr]
      simp only [count_nil] at *
      omega

theorem dropLast_getLast : ∀ (l : List Entry) (e : Entry), l.getLast? = some e → l.dropLast ++ [e] = l
  | [], _, h => by cases h
  | [a], e, h => by simp at h; subst h; rfl
  | a :: b :: r, e, h => by
    have : (b :: r).getLast? = some e := by simpa [getLast?_cons_cons] using h
    have ih := dropLast_getLast (b :: r) e this
    simp only [dropLast_cons_cons, cons_append]
    rw [ih]

theorem hasKey_filter_self (d : List (Name × FnRef)) (n : Name) :
    hasKey (d.filter (fun q => !(q.1 = n))) n = false := by
  simp [hasKey]

theorem removed_gone (l : List Entry) (x : Nat) :
    count x (goneOf (l.map fun e => Ev.removed e.rid)) = count x (rids l) := by
  induction l with
  | nil => rfl
  | cons a l ih => simp only [map_cons, goneOf, rids, count_cons_one] at *; omega

theorem removed_reg (l : List Entry) : regOf (l.map fun e => Ev.removed e.rid) = [] := by
  induction l with
  | nil => rfl
  | cons a l ih => simpa [regOf] using ih

theorem reschedOp_conserves (s : Sched) (n : Name) (t : Nat) :
    Conserves s (reschedOp s n t).1 (reschedOp s n t).2.1 := by
  unfold reschedOp removeEvent
  split
  · rename_i h
    split at h
    · intro x; cnt
    · cases h
  · rename_i s1 f gone h
    split at h
    · cases h
    · rename_i f' d hp
      injection h with h1 h2; injection h2 with h2 h3
      subst h1 h3
      have hd := (dictPop_some hp).2
      have hk : hasKey d n = false := by rw [hd]; exact hasKey_filter_self _ _
      split
      · rename_i e hl
        have hgl := dropLast_getLast _ e hl
        intro x
        have h1 := count_filter_split s.sched (fun e => decide (e.name = n)) x
        have h2 : count x (rids (s.sched.filter fun e => decide (e.name = n)))
            = count x (rids (s.sched.filter fun e => decide (e.name = n)).dropLast) + one x e.rid := by
          conv => lhs; rw [← hgl]
          simp only [rids, map_append, map_cons, map_nil, count_append, count_cons_one, count_nil]
          omega
        unfold addEvent
        simp only [hk, Bool.false_eq_true, if_false]
        simp only [regOf_append, goneOf_append, count_append, removed_gone, removed_reg]
        cnt
      · rename_i hl
        have hnil : (s.sched.filter fun e => decide (e.name = n)) = [] := by
          cases hg : (s.sched.filter fun e => decide (e.name = n)) with
          | nil => rfl
          | cons a l => rw [hg] at hl; simp [getLast?_cons] at hl
        intro x
        have h1 := count_filter_split s.sched (fun e => decide (e.name = n)) x
        rw [hnil] at h1
        unfold addEvent
        simp only [hk, Bool.false_eq_true, if_false]
        cnt

theorem execAct_conserves (s : Sched) (a : Act) : Conserves s (execAct s a).1 (execAct s a).2.1 := by
  cases a with
  | add fn t name args => exact addEvent_conserves _ _ _ _ _
  | remove n => exact removeOp_conserves s n
  | resched n t => exact reschedOp_conserves s n _
  | addPeriodic fn period name args count => exact addEvent_conserves _ _ _ _ _
  | raise => intro x; simp only [execAct]; cnt

theorem execActs_conserves : ∀ (acts : List Act) (s : Sched),
    Conserves s (execActs s acts).1 (execActs s acts).2.1
  | [], s => Conserves.refl s
  | a :: rest, s => by
    unfold execActs
    have h1 := execAct_conserves s a
    split
    · rename_i s1 ev e h; rw [h] at h1; exact h1
    · rename_i s1 ev h; rw [h] at h1
      exact Conserves.trans h1 (execActs_conserves rest s1)

/-- a call made for the registration `rid` (already taken out of the schedule): that registration
is accounted as fired -/
theorem call_conserves (P : Prog) (s : Sched) (f : FnRef) (rid : Option Nat) (due : Nat) (args : Args) :
    ∀ x, count x (rids s.sched) + count x (regOf (call P s f rid due args).2.1) + (match rid with
        | some r => one x r
        | none => 0)
      = count x (goneOf (call P s f rid due args).2.1) + count x (rids (call P s f rid due args).1.sched) := by
  intro x
  unfold call
  cases f with
  | plain fn =>
    have := execActs_conserves (body P fn) s x
    cases rid <;> (simp only; cnt)
  | wrapper fn period name wargs count =>
    have h1 := execActs_conserves (body P fn) s x
    dsimp only
    split
    all_goals first
      | (have h2 := addEvent_conserves (execActs s (body P fn)).1
            (.wrapper fn period name wargs (count.map (· - 1))) ((execActs s (body P fn)).1.now + period) name [] x
         cases rid <;> (simp only; cnt))
      | (cases rid <;> (simp only; cnt))

theorem prepend_eq_ok {x : RunRes} {a : List Ev} {s' : Sched} {evs : List Ev}
    (h : x.prepend a = .ok s' evs) : ∃ evs2, x = .ok s' evs2 ∧ evs = a ++ evs2 := by
  cases x with
  | ok s2 e2 => simp only [RunRes.prepend] at h; injection h with h1 h2; subst h1; exact ⟨e2, rfl, h2.symm⟩
  | crashed s2 e2 => cases h
  | invalid => cases h

theorem count_erase (l : List Entry) (e : Entry) (he : e ∈ l) (x : Nat) :
    count x (rids l) = one x e.rid + count x (rids (l.erase e)) := by
  have := (perm_cons_erase he).map (·.rid)
  have := this.count_eq x
  simp only [rids, map_cons, count_cons_one] at *
  exact this

/-- what one iteration of the loop does before the recursive call -/
theorem runPicks_cons_ok {P : Prog} {s : Sched} {p : Name} {ps : List Name} {s' : Sched} {evs : List Ev}
    (h : runPicks P s (p :: ps) = .ok s' evs) :
    ∃ e f d evs2, loopCond s = true ∧ e ∈ s.sched ∧ e.name = p ∧ some e.t = minDue s.sched ∧
      dictPop s.events p = some (f, d) ∧
      runPicks P (call P { s with sched := s.sched.erase e, events := d } f (some e.rid) e.t e.args).1 ps
        = .ok s' evs2 ∧
      evs = (call P { s with sched := s.sched.erase e, events := d } f (some e.rid) e.t e.args).2.1 ++ evs2 := by
  unfold runPicks at h
  split at h
  · cases h
  · rename_i hl
    split at h
    · cases h
    · rename_i e hf
      have hmem := mem_of_find?_eq_some hf
      have hp := find?_some hf
      simp only [decide_eq_true_eq] at hp
      dsimp only at h
      split at h
      · cases h
      · rename_i f d hpop
        obtain ⟨evs2, h1, h2⟩ := prepend_eq_ok h
        exact ⟨e, f, d, evs2, by simpa using hl, hmem, hp.1, hp.2, hpop, h1, h2⟩

theorem runPicks_conserves (P : Prog) : ∀ (picks : List Name) (s s' : Sched) (evs : List Ev),
    runPicks P s picks = .ok s' evs → Conserves s s' evs
  | [], s, s', evs, h => by
    unfold runPicks at h
    split at h
    · cases h
    · injection h with h1 h2; subst h1 h2; exact Conserves.refl s
  | p :: ps, s, s', evs, h => by
    obtain ⟨e, f, d, evs2, _, hmem, _, _, _, hrec, hev⟩ := runPicks_cons_ok h
    have ih := runPicks_conserves P ps _ s' evs2 hrec
    intro x
    have h1 := call_conserves P { s with sched := s.sched.erase e, events := d } f (some e.rid) e.t e.args x
    have h2 := ih x
    have h3 := count_erase s.sched e hmem x
    subst hev
    simp only [regOf_append, goneOf_append, count_append] at *
    omega

theorem step_conserves (P : Prog) (s : Sched) (op : Op) (r : Res) (h : step P s op = some r)
    (hi : NameInv s) : Conserves s r.1 r.2.1 := by
  cases op with
  | add fn t name args => injection h with h; subst h; exact addEvent_conserves _ _ _ _ _
  | remove n => injection h with h; subst h; exact removeOp_conserves s n
  | resched n t => injection h with h; subst h; exact reschedOp_conserves s n _
  | addPeriodic fn period name now args count =>
    simp only [step] at h
    split at h
    · injection h with h; subst h
      intro x
      have := call_conserves P s (.wrapper fn period name args count) none s.now [] x
      simpa using this
    · injection h with h; subst h; exact addEvent_conserves _ _ _ _ _
  | run picks =>
    simp only [step] at h
    split at h
    · rename_i s' evs hr
      injection h with h; subst h
      exact runPicks_conserves P picks s s' evs hr
    · rename_i s' evs hr
      -- a crashed run is excluded by the name invariant
      have := runPicks_inv P picks s hi
      rw [hr] at this; exact absurd this (by simp [RunRes.Good])
    · cases h
  | tick dt => injection h with h; subst h; exact Conserves.refl _
  | reset =>
    injection h with h; subst h
    intro x; cnt

theorem runOps_conserves (P : Prog) : ∀ (ops : List Op) (s : Sched) (r : Sched × List Ev),
    runOps P s ops = some r → NameInv s → Conserves s r.1 r.2
  | [], s, r, h, _ => by injection h with h; subst h; exact Conserves.refl s
  | op :: ops, s, r, h, hi => by
    unfold runOps at h
    split at h
    · cases h
    · rename_i r1 h1
      split at h
      · cases h
      · rename_i r2 h2
        injection h with h; subst h
        exact Conserves.trans (step_conserves P s op r1 h1 hi)
          (runOps_conserves P ops r1.1 r2 h2 (step_nameInv P s op r1 h1 hi))

end C18
