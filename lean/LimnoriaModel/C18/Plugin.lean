/-
C18 — model of the Scheduler plugin on top of the schedule (plugins/Scheduler/plugin.py):
the plugin's event table `self.events` with its key discipline (`str(id)` for one-shot events,
the lower-cased non-integer name for repeating ones), `add`/`remind`, `remove`, `repeat`, `list`,
`_flush` (the pickle), `die` (after the repair: saves, then takes its events out of the schedule),
`_restoreEvents` on load (ids kept when the counter is past them, "already scheduled" adoption),
reload = die + load, a process restart, and `run()` firing the plugin's closures.

The schedule is the abstract one justified by `C18.name_invariant`: a list of entries with
pairwise distinct names (heap and `events` dict merged); `heappop` returns some entry of minimal
due time (the picks are a parameter, as in `runPicks`).
Closures remember the plugin instance that made them (`inst`): a one-shot command function deletes
its entry from *that* instance's table.
-/
import LimnoriaModel.C18.Model
namespace C18.Plug
open Py

/-- key of the plugin's `events` dict -/
inductive Key where
  | id (n : Nat)        -- `str(id)` of a one-shot event (add / remind)
  | name (s : Str)      -- name of a repeating event (`nonInt`, lower-cased)
deriving DecidableEq, Repr

/-- the name the event has in the schedule: `int(key)` for one-shot events, the string otherwise -/
def Key.toName : Key → Name
  | .id n => .num n
  | .name s => .str s

/-- the pickled description of an event (`time` = due time of a one-shot event / period of a
repeating one; `cmd` stands for command text, message and network) -/
structure Rec where
  time : Nat
  cmd : Nat
  firstRun : Nat
deriving DecidableEq, Repr

/-- what is scheduled -/
inductive PFn where
  | single (inst : Nat) (id : Nat) (cmd : Nat)                   -- `f` with `f.eventId = id`
  | repeating (inst : Nat) (name : Str) (period : Nat) (cmd : Nat)  -- periodic wrapper
  | foreign (tag : Nat)                                          -- another plugin's event
deriving DecidableEq, Repr

structure PEntry where
  t : Nat
  name : Name
  fn : PFn
deriving DecidableEq, Repr

abbrev Table := List (Key × Rec)

structure PState where
  sched : List PEntry
  counter : Nat
  now : Nat
  loaded : Bool
  inst : Nat                 -- generation of the live (or last) plugin instance
  table : Table              -- `self.events` of the live instance
  pickle : Option Table      -- Scheduler.pickle
deriving DecidableEq, Repr

inductive Reply where
  | added (id : Nat)
  | ok
  | invalidId
  | exists_          -- 'There is already an event with that name'
  | error            -- an exception escaped the command
  | silent           -- `repeat` does not reply
  | notLoaded        -- the plugin is not loaded: no such command
  | listing (ks : List Key)
deriving DecidableEq, Repr

inductive PEv where
  | added (k : Key) (cmd : Nat)           -- a user scheduled something
  | removed (k : Key) (cmd : Nat)         -- `scheduler remove`
  | ran (k : Key) (cmd : Nat) (t : Nat)   -- the command ran, on behalf of the live instance
  | ranStale (cmd : Nat) (t : Nat)        -- … on behalf of a dead instance
  | skipped (cmd : Nat)                   -- KeyError before the command could run
deriving DecidableEq, Repr

/-! ### the dict -/

def tget (tb : Table) (k : Key) : Option Rec := (tb.find? (fun p => p.1 = k)).map (·.2)

def tdel (tb : Table) (k : Key) : Table := tb.filter (fun p => !(p.1 = k))

def tset : Table → Key → Rec → Table
  | [], k, r => [(k, r)]
  | (k', r') :: rest, k, r => if k' = k then (k, r) :: rest else (k', r') :: tset rest k r

def tkeys (tb : Table) : List Key := tb.map (·.1)

/-! ### the schedule -/

def snames (l : List PEntry) : List Name := l.map (·.name)

/-- `schedule.addEvent(f, t, name)`; `none` = AssertionError (the counter stays incremented) -/
def addEv (s : PState) (mk : Name → PFn) (t : Nat) (name : Option Name) : PState × Option Name :=
  let nm : Name := match name with
    | none => .num s.counter
    | some n => n
  let s1 : PState := match name with
    | none => { s with counter := s.counter + 1 }
    | some _ => s
  if nm ∈ snames s1.sched then (s1, none)
  else ({ s1 with sched := s1.sched ++ [⟨t, nm, mk nm⟩] }, some nm)

/-- `schedule.removeEvent(name)`; `none` = KeyError -/
def removeEv (s : PState) (n : Name) : Option PState :=
  if n ∈ snames s.sched then some { s with sched := s.sched.filter (fun e => !(e.name = n)) }
  else none

def idOf : Name → Nat
  | .num n => n
  | .str _ => 0

/-! ### commands -/

abbrev PRes := PState × List PEv × Reply

/-- `scheduler add <seconds> <command>` / `scheduler remind` -/
def cmdAdd (s : PState) (seconds cmd : Nat) : PRes :=
  if !s.loaded then (s, [], .notLoaded) else
  match addEv s (fun nm => .single s.inst (idOf nm) cmd) (s.now + seconds) none with
  | (s1, none) => (s1, [], .error)
  | (s1, some nm) =>
    ({ s1 with table := tset s1.table (.id (idOf nm)) ⟨s.now + seconds, cmd, 0⟩ },
      [.added (.id (idOf nm)) cmd], .added (idOf nm))

/-- `scheduler remove <id>` -/
def cmdRemove (s : PState) (k : Key) : PRes :=
  if !s.loaded then (s, [], .notLoaded) else
  match tget s.table k with
  | none => (s, [], .invalidId)
  | some r =>
    let s1 := { s with table := tdel s.table k }
    match removeEv s1 k.toName with
    | none => (s1, [.removed k r.cmd], .invalidId)
    | some s2 => (s2, [.removed k r.cmd], .ok)

/-- `scheduler repeat [--delay d] <name> <seconds> <command>` -/
def cmdRepeat (s : PState) (name : Str) (period cmd delay : Nat) : PRes :=
  if !s.loaded then (s, [], .notLoaded) else
  match tget s.table (.name name) with
  | some _ => (s, [], .exists_)
  | none =>
    match addEv s (fun _ => .repeating s.inst name period cmd) (s.now + delay) (some (.str name)) with
    | (s1, none) => (s1, [], .error)
    | (s1, some _) =>
      ({ s1 with table := tset s1.table (.name name) ⟨period, cmd, s.now + delay⟩ },
        [.added (.name name) cmd], .silent)

def cmdList (s : PState) : PRes :=
  if !s.loaded then (s, [], .notLoaded) else (s, [], .listing (tkeys s.table))

/-- `_flush` -/
def flush (s : PState) : PState := if s.loaded then { s with pickle := some s.table } else s

/-- the loop of `die()` that takes the saved events out of the schedule (KeyError ignored) -/
def unschedule : PState → List Key → PState
  | s, [] => s
  | s, k :: ks =>
    match removeEv s k.toName with
    | none => unschedule s ks
    | some s1 => unschedule s1 ks

/-- `Scheduler.die()` -/
def die (s : PState) : PState :=
  let s1 := flush s
  let s2 := unschedule s1 (tkeys s1.table)
  { s2 with loaded := false, table := [] }

/-- `_getNextRunIn(first_run, now, period, not_right_now=True)` -/
def nextRunIn (firstRun now period : Nat) : Nat :=
  let r : Int := (period : Int) - (((now : Int) - (firstRun : Int)) % (period : Int))
  let r' : Int := if r < 5 then r + period else r
  r'.toNat

/-- one iteration of the loop of `_restoreEvents` -/
def restoreOne (s : PState) (k : Key) (r : Rec) : PState × List PEv :=
  match k with
  | .id i =>
    let n : Option Name := if i < s.counter then some (.num i) else none
    match addEv s (fun nm => .single s.inst (idOf nm) r.cmd) r.time n with
    | (s1, none) => ({ s1 with table := tset s1.table k r }, [])    -- 'already exists, adding to dict'
    | (s1, some nm) => ({ s1 with table := tset s1.table (.id (idOf nm)) ⟨r.time, r.cmd, 0⟩ }, [])
  | .name nm =>
    match addEv s (fun _ => .repeating s.inst nm r.time r.cmd)
        (s.now + nextRunIn r.firstRun s.now r.time) (some (.str nm)) with
    | (s1, none) => ({ s1 with table := tset s1.table k r }, [])
    | (s1, some _) => ({ s1 with table := tset s1.table k ⟨r.time, r.cmd, r.firstRun⟩ }, [])

def restore : PState → Table → PState × List PEv
  | s, [] => (s, [])
  | s, (k, r) :: rest =>
    let a := restoreOne s k r
    let b := restore a.1 rest
    (b.1, a.2 ++ b.2)

/-- loading the plugin: a new instance with an empty table restores the pickle -/
def load (s : PState) : PRes :=
  if s.loaded then (s, [], .error) else
  let s1 := { s with loaded := true, inst := s.inst + 1, table := [] }
  let r := restore s1 (s.pickle.getD [])
  (r.1, r.2, .ok)

def unload (s : PState) : PRes :=
  if !s.loaded then (s, [], .error) else (die s, [], .ok)

def reload (s : PState) : PRes :=
  if !s.loaded then (s, [], .error) else load (die s)

/-- the bot is stopped and started again: everything is saved, the schedule starts empty, the
counter at zero, and the plugin is loaded -/
def restart (s : PState) : PRes :=
  let s1 := if s.loaded then die s else s
  load { s1 with sched := [], counter := 0 }

/-- another plugin schedules an event under a counter name -/
def foreignAdd (s : PState) (tag t : Nat) : PRes :=
  ((addEv s (fun _ => .foreign tag) t none).1, [], .ok)

/-! ### run -/

def minT : List PEntry → Option Nat
  | [] => none
  | e :: es => match minT es with
    | none => some e.t
    | some m => some (if e.t ≤ m then e.t else m)

def due (s : PState) : Bool :=
  match minT s.sched with
  | none => false
  | some m => decide (m < s.now)

/-- calling a scheduled function (its entry is already popped) -/
def fire (s : PState) (e : PEntry) : PState × List PEv :=
  match e.fn with
  | .single inst id cmd =>
    if s.loaded && inst = s.inst then
      match tget s.table (.id id) with
      | none => (s, [.skipped cmd])                 -- `del self.events[...]` raises KeyError
      | some _ => ({ s with table := tdel s.table (.id id) }, [.ran (.id id) cmd s.now])
    else (s, [.ranStale cmd s.now])
  | .repeating inst nm period cmd =>
    let ev : PEv := if s.loaded && inst = s.inst then .ran (.name nm) cmd s.now else .ranStale cmd s.now
    ((addEv s (fun _ => .repeating inst nm period cmd) (s.now + period) (some (.str nm))).1, [ev])
  | .foreign _ => (s, [])

/-- `schedule.run()` with the heap's choices; `none` = the picks are not an execution -/
def runP : PState → List Name → Option (PState × List PEv)
  | s, [] => if due s then none else some (s, [])
  | s, p :: ps =>
    if !due s then none else
    match s.sched.find? (fun e => e.name = p ∧ some e.t = minT s.sched) with
    | none => none
    | some e =>
      let r := fire { s with sched := s.sched.filter (fun x => !(x.name = p)) } e
      match runP r.1 ps with
      | none => none
      | some r2 => some (r2.1, r.2 ++ r2.2)

inductive POp where
  | add (seconds cmd : Nat)
  | remove (k : Key)
  | repeat_ (name : Str) (period cmd delay : Nat)
  | list
  | flush
  | load
  | unload
  | reload
  | restart
  | foreign (tag t : Nat)
  | tick (dt : Nat)
  | run (picks : List Name)
deriving DecidableEq, Repr

def pstep (s : PState) : POp → Option PRes
  | .add sec cmd => some (cmdAdd s sec cmd)
  | .remove k => some (cmdRemove s k)
  | .repeat_ nm p c d => some (cmdRepeat s nm p c d)
  | .list => some (cmdList s)
  | .flush => some (flush s, [], .ok)
  | .load => some (load s)
  | .unload => some (unload s)
  | .reload => some (reload s)
  | .restart => some (restart s)
  | .foreign tag t => some (foreignAdd s tag t)
  | .tick dt => some ({ s with now := s.now + dt }, [], .ok)
  | .run picks => (runP s picks).map fun r => (r.1, r.2, .ok)

def prun : PState → List POp → Option (PState × List PEv)
  | s, [] => some (s, [])
  | s, op :: ops =>
    match pstep s op with
    | none => none
    | some r =>
      match prun r.1 ops with
      | none => none
      | some r2 => some (r2.1, r.2.1 ++ r2.2)

/-- a fresh bot with the plugin loaded and no pickle -/
def pinit (now : Nat) : PState := ⟨[], 0, now, true, 1, [], none⟩

end C18.Plug
