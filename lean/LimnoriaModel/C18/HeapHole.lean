/-
C18 — CPython's `heapq` as written (Lib/heapq.py): `_siftdown` and `_siftup` keep the item being moved
in a local variable and shift the others into the "hole" it leaves, writing it back once at the end.
`Heap.lean` models the same walks with swaps.  Here the hole-moving code is modelled literally and
proved to produce the same list, so the theorems about the swap model (heap invariant kept, `heappop`
returns a minimum, permutation) are theorems about `heapq` as it is written — the differential heap
stream of the harness is then a check of the transcription only.
-/
import LimnoriaModel.C18.HeapLemmas
namespace C18.Heap
open Py List

/-- the `while pos > startpos` loop of `_siftdown`: `x` is `newitem`, `pos` the hole -/
def holeUp (startpos : Nat) (x : Entry) : Nat → H → Nat → H
  | 0, h, pos => h.set pos x
  | f + 1, h, pos =>
    if startpos < pos && lt x (at_ h (par pos)) then
      holeUp startpos x f (h.set pos (at_ h (par pos))) (par pos)     -- heap[pos] = parent; pos = parentpos
    else h.set pos x                                                   -- heap[pos] = newitem

/-- `_siftdown(heap, startpos, pos)` as written -/
def siftdownC (startpos fuel : Nat) (h : H) (pos : Nat) : H := holeUp startpos (at_ h pos) fuel h pos

/-- the `while childpos < endpos` loop of `_siftup`: returns the list and where the hole ended -/
def holeDown : Nat → H → Nat → H × Nat
  | 0, h, pos => (h, pos)
  | f + 1, h, pos =>
    let c := 2 * pos + 1
    if c < h.length then
      let c' := if c + 1 < h.length && !(lt (at_ h c) (at_ h (c + 1))) then c + 1 else c
      holeDown f (h.set pos (at_ h c')) c'                            -- heap[pos] = heap[childpos]; pos = childpos
    else (h, pos)

/-- `_siftup(heap, pos)` as written -/
def siftupC (h : H) (pos : Nat) : H :=
  let x := at_ h pos
  let r := holeDown h.length h pos
  siftdownC pos (r.2 + 1) (r.1.set r.2 x) r.2       -- heap[pos] = newitem; _siftdown(heap, startpos, pos)

def heappushC (h : H) (x : Entry) : H := siftdownC 0 (h.length + 1) (h ++ [x]) h.length

def heappopC (h : H) : Option (Entry × H) :=
  match h.getLast? with
  | none => none
  | some last =>
    let h' := h.dropLast
    if h'.isEmpty then some (last, []) else some (at_ h' 0, siftupC (h'.set 0 last) 0)

def heapifyFromC : Nat → H → H
  | 0, h => h
  | i + 1, h => heapifyFromC i (siftupC h i)

def heapifyC (h : H) : H := heapifyFromC (h.length / 2) h

/-! ### the two are the same function -/

theorem set_at_self (h : H) (i : Nat) (hi : i < h.length) : h.set i (at_ h i) = h := by
  apply List.ext_getElem (by simp)
  intro n h1 h2
  by_cases e : i = n
  · subst e; simp [at_, List.getD_eq_getElem?_getD, hi]
  · simp [List.getElem_set, e]

theorem holeUp_eq (startpos : Nat) (x : Entry) : ∀ (f : Nat) (h : H) (pos : Nat), pos < h.length →
    holeUp startpos x f h pos = siftdown startpos f (h.set pos x) pos
  | 0, h, pos, _ => rfl
  | f + 1, h, pos, hp => by
    unfold holeUp siftdown
    rw [at_set_eq h pos x hp]
    by_cases hs : startpos < pos
    · have hne : pos ≠ par pos := by have := par_lt (i := pos) (by omega); omega
      rw [at_set_ne h pos (par pos) x hne]
      by_cases hl : lt x (at_ h (par pos)) = true
      · simp only [hs, hl, decide_true, Bool.and_self, if_true]
        have hpp : par pos < h.length := by have := par_le pos; omega
        rw [holeUp_eq startpos x f _ (par pos) (by simp [hpp])]
        congr 1
        unfold swap
        rw [at_set_eq h pos x hp, at_set_ne h pos (par pos) x hne, List.set_set]
      · simp [hs, hl]
    · simp [hs]

theorem siftdownC_eq (startpos f : Nat) (h : H) (pos : Nat) (hp : pos < h.length) :
    siftdownC startpos f h pos = siftdown startpos f h pos := by
  unfold siftdownC
  rw [holeUp_eq startpos _ f h pos hp, set_at_self h pos hp]

theorem holeDown_eq (x : Entry) : ∀ (f : Nat) (h : H) (pos : Nat), pos < h.length →
    descend f (h.set pos x) pos = (((holeDown f h pos).1).set (holeDown f h pos).2 x, (holeDown f h pos).2)
  | 0, h, pos, _ => rfl
  | f + 1, h, pos, hp => by
    unfold holeDown descend
    simp only [List.length_set]
    by_cases hc : 2 * pos + 1 < h.length
    · simp only [hc, if_true]
      have e1 : at_ (h.set pos x) (2 * pos + 1) = at_ h (2 * pos + 1) := at_set_ne h pos _ x (by omega)
      have e2 : at_ (h.set pos x) (2 * pos + 1 + 1) = at_ h (2 * pos + 1 + 1) := at_set_ne h pos _ x (by omega)
      rw [e1, e2]
      generalize hc' : (if 2 * pos + 1 + 1 < h.length && !(lt (at_ h (2 * pos + 1)) (at_ h (2 * pos + 1 + 1)))
        then 2 * pos + 1 + 1 else 2 * pos + 1) = c'
      have hcl : c' < h.length ∧ pos ≠ c' := by
        subst hc'
        split
        · rename_i hh; simp only [Bool.and_eq_true, decide_eq_true_eq] at hh; exact ⟨hh.1, by omega⟩
        · exact ⟨hc, by omega⟩
      have hsw : swap (h.set pos x) pos c' = (h.set pos (at_ h c')).set c' x := by
        unfold swap
        rw [at_set_eq h pos x hp, at_set_ne h pos c' x hcl.2, List.set_set]
      rw [hsw]
      exact holeDown_eq x f (h.set pos (at_ h c')) c' (by simp [hcl.1])
    · simp [hc]

theorem holeDown_length : ∀ (f : Nat) (h : H) (pos : Nat), (holeDown f h pos).1.length = h.length
  | 0, _, _ => rfl
  | f + 1, h, pos => by
    unfold holeDown
    dsimp only
    split
    · rw [holeDown_length f]; simp
    · rfl

theorem holeDown_pos : ∀ (f : Nat) (h : H) (pos : Nat), pos < h.length → (holeDown f h pos).2 < h.length
  | 0, _, _, hp => hp
  | f + 1, h, pos, hp => by
    unfold holeDown
    dsimp only
    split
    · rename_i hc
      have := holeDown_pos f (h.set pos (at_ h (if 2 * pos + 1 + 1 < h.length && !(lt (at_ h (2 * pos + 1)) (at_ h (2 * pos + 1 + 1))) then 2 * pos + 1 + 1 else 2 * pos + 1)))
        (if 2 * pos + 1 + 1 < h.length && !(lt (at_ h (2 * pos + 1)) (at_ h (2 * pos + 1 + 1))) then 2 * pos + 1 + 1 else 2 * pos + 1)
        (by simp only [List.length_set]; split
            · rename_i hh; simp only [Bool.and_eq_true, decide_eq_true_eq] at hh; exact hh.1
            · exact hc)
      simpa using this
    · exact hp

/-- **`_siftup` as written = the swap model** -/
theorem siftupC_eq (h : H) (pos : Nat) (hp : pos < h.length) : siftupC h pos = siftup h pos := by
  unfold siftupC siftup
  dsimp only
  have hd := holeDown_eq (at_ h pos) h.length h pos hp
  rw [set_at_self h pos hp] at hd
  rw [hd]
  dsimp only
  exact siftdownC_eq _ _ _ _ (by simp [holeDown_length, holeDown_pos _ h pos hp])

/-- **`heappush` as written = the swap model** -/
theorem heappushC_eq (h : H) (x : Entry) : heappushC h x = heappush h x :=
  siftdownC_eq _ _ _ _ (by simp)

/-- **`heappop` as written = the swap model** -/
theorem heappopC_eq (h : H) : heappopC h = heappop h := by
  unfold heappopC heappop
  cases hl : h.getLast? with
  | none => rfl
  | some last =>
    dsimp only
    by_cases hne : h.dropLast.isEmpty = true
    · simp only [hne, if_true]
    · simp only [hne, if_false]
      rw [siftupC_eq _ 0 (by
        simp only [List.length_set]
        cases hd : h.dropLast with
        | nil => simp [hd] at hne
        | cons a b => simp)]

theorem heapifyFromC_eq : ∀ (i : Nat) (h : H), i ≤ h.length → heapifyFromC i h = heapifyFrom i h
  | 0, _, _ => rfl
  | i + 1, h, hi => by
    unfold heapifyFromC heapifyFrom
    rw [siftupC_eq h i (by omega)]
    exact heapifyFromC_eq i _ (by rw [siftup_length]; omega)

/-- **`heapify` as written = the swap model** -/
theorem heapifyC_eq (h : H) : heapifyC h = heapify h :=
  heapifyFromC_eq _ h (Nat.div_le_self _ _)

end C18.Heap
