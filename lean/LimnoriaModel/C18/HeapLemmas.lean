/-
C18 — helper lemmas: CPython's heapq keeps the heap invariant, `heappop` returns a minimum.
-/
import LimnoriaModel.C18.Heap
import LimnoriaModel.C18.Lemmas
namespace C18.Heap
open Py List

/-! ### indexing -/

theorem at_set_eq (h : H) (i : Nat) (v : Entry) (hi : i < h.length) : at_ (h.set i v) i = v := by
  simp [at_, List.getD_eq_getElem?_getD, hi]

theorem at_set_ne (h : H) (i j : Nat) (v : Entry) (hij : i ≠ j) : at_ (h.set i v) j = at_ h j := by
  simp [at_, List.getD_eq_getElem?_getD, List.getElem?_set, hij]

theorem swap_length (h : H) (i j : Nat) : (swap h i j).length = h.length := by simp [swap]

theorem swap_at_left (h : H) (i j : Nat) (hi : i < h.length) (hj : j < h.length) :
    at_ (swap h i j) i = at_ h j := by
  unfold swap
  by_cases e : i = j
  · subst e; rw [at_set_eq _ _ _ (by simp [hi])]
  · rw [at_set_ne _ _ _ _ (fun x => e x.symm), at_set_eq _ _ _ hi]

theorem swap_at_right (h : H) (i j : Nat) (hj : j < h.length) : at_ (swap h i j) j = at_ h i := by
  unfold swap
  rw [at_set_eq _ _ _ (by simp [hj])]

theorem swap_at_other (h : H) (i j k : Nat) (hi : k ≠ i) (hj : k ≠ j) : at_ (swap h i j) k = at_ h k := by
  unfold swap
  rw [at_set_ne _ _ _ _ (fun x => hj x.symm), at_set_ne _ _ _ _ (fun x => hi x.symm)]

theorem par_lt {i : Nat} (h : 1 ≤ i) : par i < i := by unfold par; omega
theorem par_le (i : Nat) : par i ≤ i := by unfold par; omega
theorem par_child (j : Nat) (h : 1 ≤ j) : j = 2 * par j + 1 ∨ j = 2 * par j + 2 := by unfold par; omega
theorem par_left (p : Nat) : par (2 * p + 1) = p := by unfold par; omega
theorem par_right (p : Nat) : par (2 * p + 2) = p := by unfold par; omega

/-! ### the invariant -/

/-- the parent is not later than the child -/
def Rel (h : H) (j : Nat) : Prop := (at_ h (par j)).t ≤ (at_ h j).t

/-- heap invariant for all parent/child pairs whose parent is at or after `k` -/
def HeapFrom (h : H) (k : Nat) : Prop := ∀ j, 1 ≤ j → j < h.length → k ≤ par j → Rel h j

/-- `pos` lies in the subtree rooted at `start` -/
inductive Sub (start : Nat) : Nat → Prop where
  | refl : Sub start start
  | child {p c : Nat} (hp : Sub start p) (hc : par c = p) (h1 : 1 ≤ c) : Sub start c

theorem Sub.le {start pos : Nat} (h : Sub start pos) : start ≤ pos := by
  induction h with
  | refl => exact Nat.le_refl _
  | child hp hc h1 ih => rw [← hc] at ih; exact Nat.le_trans ih (par_le _)

theorem Sub.up {start pos : Nat} (h : Sub start pos) (hne : pos ≠ start) :
    Sub start (par pos) ∧ start ≤ par pos ∧ 1 ≤ pos := by
  cases h with
  | refl => exact absurd rfl hne
  | child hp hc h1 => rw [hc]; exact ⟨hp, hp.le, h1⟩

theorem Sub.zero : ∀ (n : Nat), Sub 0 n := by
  intro n
  induction n using Nat.strongRecOn with
  | _ n ih =>
    by_cases h : n = 0
    · subst h; exact Sub.refl
    · exact Sub.child (ih (par n) (par_lt (by omega))) rfl (by omega)

/-! ### `_siftdown` -/

structure SdPre (start : Nat) (h : H) (pos : Nat) : Prop where
  sub : Sub start pos
  lt : pos < h.length
  rel : ∀ j, 1 ≤ j → j < h.length → start ≤ par j → j ≠ pos → Rel h j
  bridge : start < pos → ∀ j, 1 ≤ j → j < h.length → par j = pos → (at_ h (par pos)).t ≤ (at_ h j).t

theorem siftdown_length (start : Nat) : ∀ (f : Nat) (h : H) (pos : Nat), (siftdown start f h pos).length = h.length
  | 0, _, _ => rfl
  | f + 1, h, pos => by
    unfold siftdown
    split
    · rw [siftdown_length start f]; exact swap_length _ _ _
    · rfl

theorem siftdown_ok (start : Nat) : ∀ (f : Nat) (h : H) (pos : Nat), pos < f → SdPre start h pos →
    HeapFrom (siftdown start f h pos) start
  | 0, _, _, hf, _ => absurd hf (Nat.not_lt_zero _)
  | f + 1, h, pos, hf, hp => by
    unfold siftdown
    have hsl := hp.sub.le
    split
    · rename_i hc
      simp only [Bool.and_eq_true, decide_eq_true_eq, lt] at hc
      obtain ⟨hsp, hlt⟩ := hc
      obtain ⟨hsub', hsp', h1⟩ := hp.sub.up (by omega)
      have hpl : par pos < pos := par_lt h1
      have hpn : par pos < h.length := Nat.lt_trans hpl hp.lt
      apply siftdown_ok start f _ (par pos) (by omega)
      refine ⟨hsub', by rw [swap_length]; exact hpn, ?_, ?_⟩
      · intro j hj1 hjn hdom hjne
        rw [swap_length] at hjn
        unfold Rel
        by_cases e1 : j = pos
        · subst e1
          rw [swap_at_right _ _ _ hpn, swap_at_left _ _ _ hp.lt hpn]
          omega
        · by_cases e2 : par j = pos
          · -- a child of pos
            have hj_ne_p : j ≠ par pos := by have := par_lt hj1; omega
            rw [e2, swap_at_left _ _ _ hp.lt hpn, swap_at_other _ _ _ _ e1 hj_ne_p]
            exact hp.bridge hsp j hj1 hjn e2
          · by_cases e3 : par j = par pos
            · -- the sibling of pos
              rw [e3, swap_at_right _ _ _ hpn, swap_at_other _ _ _ _ e1 hjne]
              have := hp.rel j hj1 hjn hdom e1
              unfold Rel at this
              rw [e3] at this
              omega
            · rw [swap_at_other _ _ _ _ e2 e3, swap_at_other _ _ _ _ e1 hjne]
              exact hp.rel j hj1 hjn hdom e1
      · intro hsp2 j hj1 hjn hpj
        rw [swap_length] at hjn
        have hpp : par (par pos) < par pos := par_lt (by omega)
        have hgp : (at_ h (par (par pos))).t ≤ (at_ h (par pos)).t := by
          obtain ⟨_, hdom, _⟩ := hsub'.up (by omega)
          exact hp.rel (par pos) (by omega) hpn hdom (by omega)
        rw [swap_at_other _ _ _ _ (by omega) (by omega)]
        by_cases e1 : j = pos
        · subst e1
          rw [swap_at_left _ _ _ hp.lt hpn]
          exact hgp
        · have hj_ne_p : j ≠ par pos := by have := par_lt hj1; omega
          rw [swap_at_other _ _ _ _ e1 hj_ne_p]
          have := hp.rel j hj1 hjn (by rw [hpj]; exact hsp') e1
          unfold Rel at this
          rw [hpj] at this
          omega
    · rename_i hc
      intro j hj1 hjn hdom
      by_cases e1 : j = pos
      · subst e1
        simp only [Bool.and_eq_true, decide_eq_true_eq, lt, not_and, Nat.not_lt] at hc
        have : start < j := by have := par_lt hj1; omega
        unfold Rel
        exact hc this
      · exact hp.rel j hj1 hjn hdom e1

/-! ### the descent of `_siftup` -/

structure DcPre (start : Nat) (h : H) (pos : Nat) : Prop where
  sub : Sub start pos
  lt : pos < h.length
  rel : ∀ j, 1 ≤ j → j < h.length → start ≤ par j → j ≠ pos → par j ≠ pos → Rel h j
  bridge : start < pos → ∀ j, 1 ≤ j → j < h.length → par j = pos → (at_ h (par pos)).t ≤ (at_ h j).t

theorem descend_length : ∀ (f : Nat) (h : H) (pos : Nat), (descend f h pos).1.length = h.length
  | 0, _, _ => rfl
  | f + 1, h, pos => by
    unfold descend
    dsimp only
    split
    · rw [descend_length f]; exact swap_length _ _ _
    · rfl

theorem descend_ok (start : Nat) : ∀ (f : Nat) (h : H) (pos : Nat), h.length ≤ pos + f → DcPre start h pos →
    SdPre start (descend f h pos).1 (descend f h pos).2
  | 0, h, pos, hf, hp => by have := hp.lt; omega
  | f + 1, h, pos, hf, hp => by
    unfold descend
    dsimp only
    split
    · rename_i hc
      -- the child that moves up
      have hsl := hp.sub.le
      have key : ∀ c', (c' = 2 * pos + 1 ∨ c' = 2 * pos + 2) → c' < h.length →
          (∀ j, 1 ≤ j → j < h.length → par j = pos → (at_ h c').t ≤ (at_ h j).t) →
          SdPre start (descend f (swap h pos c') c').1 (descend f (swap h pos c') c').2 := by
        intro c' hc' hcn hmin
        have hpc : par c' = pos := by rcases hc' with e | e <;> (subst e; first | exact par_left _ | exact par_right _)
        have hc1 : 1 ≤ c' := by omega
        have hposc : pos < c' := by omega
        apply descend_ok start f _ c' (by rw [swap_length]; omega)
        refine ⟨Sub.child hp.sub hpc hc1, by rw [swap_length]; exact hcn, ?_, ?_⟩
        · intro j hj1 hjn hdom hjne hpjne
          rw [swap_length] at hjn
          unfold Rel
          by_cases e1 : j = pos
          · subst e1
            have hpp := par_lt hj1
            rw [swap_at_left _ _ _ hp.lt hcn, swap_at_other _ _ _ _ (by omega) (by omega)]
            exact hp.bridge (by omega) c' hc1 hcn hpc
          · by_cases e2 : par j = pos
            · -- the sibling of c'
              rw [e2, swap_at_left _ _ _ hp.lt hcn, swap_at_other _ _ _ _ e1 hjne]
              exact hmin j hj1 hjn e2
            · rw [swap_at_other _ _ _ _ e2 hpjne, swap_at_other _ _ _ _ e1 hjne]
              exact hp.rel j hj1 hjn hdom e1 e2
        · intro _ j hj1 hjn hpj
          rw [swap_length] at hjn
          have hjc : c' < j := by rw [← hpj]; exact par_lt hj1
          rw [hpc, swap_at_left _ _ _ hp.lt hcn, swap_at_other _ _ _ _ (by omega) (by omega)]
          have := hp.rel j hj1 hjn (by rw [hpj]; omega) (by omega) (by rw [hpj]; omega)
          unfold Rel at this
          rw [hpj] at this
          exact this
      split
      · rename_i hr
        simp only [Bool.and_eq_true, decide_eq_true_eq, Bool.not_eq_true', lt, decide_eq_false_iff_not,
          Nat.not_lt] at hr
        apply key (2 * pos + 1 + 1) (Or.inr rfl) hr.1
        intro j hj1 hjn hpj
        rcases par_child j hj1 with e | e
        · rw [hpj] at e; rw [e]; exact hr.2
        · rw [hpj] at e; rw [e]; exact Nat.le_refl _
      · rename_i hr
        simp only [Bool.and_eq_true, decide_eq_true_eq, Bool.not_eq_true', lt, decide_eq_false_iff_not,
          Nat.not_lt, not_and, Nat.not_le] at hr
        apply key (2 * pos + 1) (Or.inl rfl) hc
        intro j hj1 hjn hpj
        rcases par_child j hj1 with e | e
        · rw [hpj] at e; rw [e]; exact Nat.le_refl _
        · rw [hpj] at e
          have hjn' : 2 * pos + 1 + 1 < h.length := by omega
          have := hr hjn'
          have e2 : 2 * pos + 1 + 1 = 2 * pos + 2 := by omega
          rw [e2] at this
          rw [e]; omega
    · rename_i hc
      -- a leaf: no child inside the list
      show SdPre start h pos
      refine ⟨hp.sub, hp.lt, ?_, ?_⟩
      · intro j hj1 hjn hdom hjne
        apply hp.rel j hj1 hjn hdom hjne
        intro e
        rcases par_child j hj1 with e' | e' <;> (rw [e] at e'; omega)
      · intro _ j hj1 hjn hpj
        rcases par_child j hj1 with e' | e' <;> (rw [hpj] at e'; omega)

theorem siftup_length (h : H) (pos : Nat) : (siftup h pos).length = h.length := by
  unfold siftup
  dsimp only
  rw [siftdown_length, descend_length]

/-- `_siftup(heap, i)` makes a heap at `i` out of heaps at its children -/
theorem siftup_ok (h : H) (i : Nat) (hi : i < h.length) (hh : HeapFrom h (i + 1)) : HeapFrom (siftup h i) i := by
  unfold siftup
  dsimp only
  have hd := descend_ok i h.length h i (by omega)
    ⟨Sub.refl, hi, fun j hj1 hjn hdom _ hpj => hh j hj1 hjn (by omega), fun h' => absurd h' (Nat.lt_irrefl _)⟩
  exact siftdown_ok i _ _ _ (Nat.lt_succ_self _) hd

/-! ### push, pop, heapify -/

theorem at_append_left (h : H) (x : Entry) (j : Nat) (hj : j < h.length) : at_ (h ++ [x]) j = at_ h j := by
  simp [at_, List.getD_eq_getElem?_getD, List.getElem?_append_left hj]

theorem heappush_length (h : H) (x : Entry) : (heappush h x).length = h.length + 1 := by
  unfold heappush; rw [siftdown_length]; simp

theorem heappush_ok (h : H) (x : Entry) (hh : HeapFrom h 0) : HeapFrom (heappush h x) 0 := by
  unfold heappush
  apply siftdown_ok 0 _ _ _ (Nat.lt_succ_self _)
  refine ⟨Sub.zero _, by simp, ?_, ?_⟩
  · intro j hj1 hjn _ hjne
    have hjn' : j < h.length := by simp at hjn; omega
    unfold Rel
    rw [at_append_left _ _ _ hjn', at_append_left _ _ _ (Nat.lt_of_le_of_lt (par_le j) hjn')]
    exact hh j hj1 hjn' (Nat.zero_le _)
  · intro _ j hj1 hjn hpj
    simp at hjn
    rcases par_child j hj1 with e | e <;> (rw [hpj] at e; omega)

/-- the root of a heap is a minimum -/
theorem heap_min (h : H) (hh : HeapFrom h 0) : ∀ i, i < h.length → (at_ h 0).t ≤ (at_ h i).t := by
  intro i
  induction i using Nat.strongRecOn with
  | _ i ih =>
    intro hi
    by_cases h0 : i = 0
    · subst h0; exact Nat.le_refl _
    · have hp := par_lt (i := i) (by omega)
      have := ih (par i) hp (by omega)
      have hr := hh i (by omega) hi (Nat.zero_le _)
      unfold Rel at hr
      omega

theorem heapifyFrom_ok : ∀ (i : Nat) (h : H), i ≤ h.length → HeapFrom h i →
    HeapFrom (heapifyFrom i h) 0 ∧ (heapifyFrom i h).length = h.length
  | 0, h, _, hh => ⟨hh, rfl⟩
  | i + 1, h, hi, hh => by
    unfold heapifyFrom
    have h1 := siftup_ok h i (by omega) hh
    have h2 := heapifyFrom_ok i (siftup h i) (by rw [siftup_length]; omega) h1
    exact ⟨h2.1, by rw [h2.2, siftup_length]⟩

/-- `heapify` turns any list into a heap -/
theorem heapify_ok (h : H) : HeapFrom (heapify h) 0 ∧ (heapify h).length = h.length := by
  unfold heapify
  apply heapifyFrom_ok _ _ (Nat.div_le_self _ _)
  intro j hj1 hjn hdom
  exfalso
  unfold par at hdom
  omega

/-! ### the heap is a permutation of what was put in -/

theorem at_eq_getElem (h : H) (i : Nat) (hi : i < h.length) : at_ h i = h[i] := by
  simp [at_, List.getD_eq_getElem?_getD, hi]

theorem swap_perm (h : H) (i j : Nat) (hi : i < h.length) (hj : j < h.length) : (swap h i j).Perm h := by
  rw [perm_iff_count]
  intro b
  unfold swap
  have hj' : j < (h.set i (at_ h j)).length := by simp [hj]
  rw [count_set hj', count_set hi]
  have e1 : (h.set i (at_ h j))[j] = h[j] := by
    rw [getElem_set]; split
    · rename_i e; subst e; exact at_eq_getElem h i hi
    · rfl
  rw [e1, at_eq_getElem h j hj, at_eq_getElem h i hi]
  have c1 : (h[i] == b) = true → 0 < count b h := by
    intro e; have : h[i] = b := by simpa using e
    rw [← this]; exact count_pos_iff.mpr (getElem_mem hi)
  cases a : (h[i] == b) <;> cases c : (h[j] == b) <;> simp only [Bool.false_eq_true, if_true, if_false] <;>
    (try have := c1 a) <;> omega

theorem siftdown_perm (start : Nat) : ∀ (f : Nat) (h : H) (pos : Nat), pos < h.length →
    (siftdown start f h pos).Perm h
  | 0, h, _, _ => Perm.refl h
  | f + 1, h, pos, hp => by
    unfold siftdown
    split
    · have hpp : par pos < h.length := Nat.lt_of_le_of_lt (par_le pos) hp
      exact (siftdown_perm start f _ (par pos) (by rw [swap_length]; exact hpp)).trans (swap_perm h pos (par pos) hp hpp)
    · exact Perm.refl h

theorem descend_perm : ∀ (f : Nat) (h : H) (pos : Nat), pos < h.length →
    (descend f h pos).1.Perm h ∧ (descend f h pos).2 < h.length
  | 0, h, _, hp => ⟨Perm.refl h, hp⟩
  | f + 1, h, pos, hp => by
    unfold descend
    dsimp only
    split
    · rename_i hc
      split
      · rename_i hr
        simp only [Bool.and_eq_true, decide_eq_true_eq] at hr
        have := descend_perm f (swap h pos (2 * pos + 1 + 1)) (2 * pos + 1 + 1) (by rw [swap_length]; exact hr.1)
        rw [swap_length] at this
        exact ⟨this.1.trans (swap_perm h pos _ hp hr.1), this.2⟩
      · have := descend_perm f (swap h pos (2 * pos + 1)) (2 * pos + 1) (by rw [swap_length]; exact hc)
        rw [swap_length] at this
        exact ⟨this.1.trans (swap_perm h pos _ hp hc), this.2⟩
    · exact ⟨Perm.refl h, hp⟩

theorem siftup_perm (h : H) (pos : Nat) (hp : pos < h.length) : (siftup h pos).Perm h := by
  unfold siftup
  dsimp only
  obtain ⟨a, b⟩ := descend_perm h.length h pos hp
  exact (siftdown_perm pos _ _ _ (by rw [descend_length]; exact b)).trans a

theorem heappush_perm (h : H) (x : Entry) : (heappush h x).Perm (x :: h) := by
  unfold heappush
  exact (siftdown_perm 0 _ _ _ (by simp)).trans (perm_append_comm)

theorem heapifyFrom_perm : ∀ (i : Nat) (h : H), i ≤ h.length → (heapifyFrom i h).Perm h
  | 0, h, _ => Perm.refl h
  | i + 1, h, hi => by
    unfold heapifyFrom
    exact (heapifyFrom_perm i _ (by rw [siftup_length]; omega)).trans (siftup_perm h i (by omega))

theorem heapify_perm (h : H) : (heapify h).Perm h := heapifyFrom_perm _ h (Nat.div_le_self _ _)

theorem dropLast_getLast' : ∀ (l : List Entry) (e : Entry), l.getLast? = some e → l.dropLast ++ [e] = l
  | [], _, h => by cases h
  | [a], e, h => by simp at h; subst h; rfl
  | a :: b :: r, e, h => by
    have : (b :: r).getLast? = some e := by simpa [getLast?_cons_cons] using h
    have ih := dropLast_getLast' (b :: r) e this
    simp only [dropLast_cons_cons, cons_append]
    rw [ih]

/-- **`heappop`**: on a heap it returns an entry of minimal due time, what remains is a heap and,
with the returned entry, a permutation of the heap before -/
theorem heappop_ok (h : H) (hh : HeapFrom h 0) (x : Entry) (h2 : H) (hp : heappop h = some (x, h2)) :
    HeapFrom h2 0 ∧ (∀ i, i < h.length → x.t ≤ (at_ h i).t) ∧ h.Perm (x :: h2) := by
  unfold heappop at hp
  cases hl : h.getLast? with
  | none => rw [hl] at hp; cases hp
  | some last =>
    rw [hl] at hp
    dsimp only at hp
    have hsplit : h = h.dropLast ++ [last] := (dropLast_getLast' h last hl).symm
    have hlen : h.length = h.dropLast.length + 1 := by
      conv => lhs; rw [hsplit]
      simp
    have hat : ∀ j, j < h.dropLast.length → at_ h.dropLast j = at_ h j := by
      intro j hj
      conv => rhs; rw [hsplit]
      exact (at_append_left _ _ _ hj).symm
    split at hp
    · rename_i he
      injection hp with hp; injection hp with h1 h2'
      have hd : h.dropLast = [] := by simpa using he
      have hx : h = [x] := by rw [hsplit, hd, h1]; rfl
      rw [← h2', hx]
      refine ⟨(by intro j _ hj; simp at hj), ?_, Perm.refl _⟩
      intro i hi
      have : i = 0 := by simp at hi; exact hi
      subst this
      simp [at_]
    · rename_i he
      injection hp with hp; injection hp with h1 h2'
      have hne : 0 < h.dropLast.length := by
        cases hd : h.dropLast with
        | nil => rw [hd] at he; simp at he
        | cons a l => simp
      -- the list before sifting: the last entry moved to the root
      have hpre : HeapFrom (h.dropLast.set 0 last) 1 := by
        intro j hj1 hjn hdom
        simp only [length_set] at hjn
        have hpj : par j ≠ 0 := by omega
        unfold Rel
        rw [at_set_ne h.dropLast 0 j last (by omega), at_set_ne h.dropLast 0 (par j) last (fun e => hpj e.symm)]
        rw [hat j hjn, hat (par j) (Nat.lt_of_le_of_lt (par_le j) hjn)]
        exact hh j hj1 (by omega) (Nat.zero_le _)
      have hset : 0 < (h.dropLast.set 0 last).length := by rw [length_set]; exact hne
      have hok := siftup_ok (h.dropLast.set 0 last) 0 hset hpre
      have hperm := siftup_perm (h.dropLast.set 0 last) 0 hset
      rw [h2'] at hok hperm
      refine ⟨hok, ?_, ?_⟩
      · intro i hi
        rw [← h1, hat 0 hne]
        exact heap_min h hh i hi
      · -- h = dropLast ++ [last];  dropLast = x :: tail;  set 0 last = last :: tail
        cases hd : h.dropLast with
        | nil => rw [hd] at hne; simp at hne
        | cons a tl =>
          have hx : x = a := by rw [← h1, hd]; simp [at_]
          subst hx
          rw [hd] at hperm
          simp only [set_cons_zero] at hperm
          have e1 : h.Perm (last :: x :: tl) := by
            rw [hsplit, hd]
            exact perm_append_comm
          exact e1.trans ((Perm.swap x last tl).trans (Perm.cons x hperm.symm))

/-! ### the heap's choice is a pick `runPicks` accepts -/

theorem minDue_attained : ∀ (l : List Entry) (m : Nat), minDue l = some m → ∃ e ∈ l, e.t = m
  | [], _, h => by cases h
  | x :: xs, m, h => by
    simp only [minDue] at h
    split at h
    · injection h with h; exact ⟨x, mem_cons_self, h⟩
    · rename_i m' hm
      injection h with h
      split at h
      · exact ⟨x, mem_cons_self, h⟩
      · obtain ⟨e, he, het⟩ := minDue_attained xs m' hm
        exact ⟨e, mem_cons_of_mem _ he, by omega⟩

theorem minDue_of_least (l : List Entry) (x : Entry) (hx : x ∈ l) (hmin : ∀ y ∈ l, x.t ≤ y.t) :
    minDue l = some x.t := by
  cases hm : minDue l with
  | none => rw [(minDue_none_iff l).mp hm] at hx; cases hx
  | some m =>
    have h1 := minDue_le l m hm x hx
    obtain ⟨e, he, het⟩ := minDue_attained l m hm
    have h2 := hmin e he
    congr 1; omega

/-- what `heappop` hands out of a heap that holds the schedule is an entry of the schedule with
the least due time — exactly what `runPicks` / `popAtom` require of a pick — and the rest is the
schedule without it -/
theorem heappop_valid_pick (h : H) (sched : List Entry) (hh : HeapFrom h 0) (hperm : h.Perm sched)
    (x : Entry) (h2 : H) (hp : heappop h = some (x, h2)) :
    x ∈ sched ∧ some x.t = minDue sched ∧ HeapFrom h2 0 ∧ h2.Perm (sched.erase x) := by
  obtain ⟨a, b, c⟩ := heappop_ok h hh x h2 hp
  have hxh : x ∈ h := c.mem_iff.mpr mem_cons_self
  have hxs : x ∈ sched := hperm.mem_iff.mp hxh
  have hmin : ∀ y ∈ sched, x.t ≤ y.t := by
    intro y hy
    have hyh := hperm.mem_iff.mpr hy
    obtain ⟨i, hi, e⟩ := mem_iff_getElem.mp hyh
    have := b i hi
    rw [at_eq_getElem h i hi, e] at this
    exact this
  refine ⟨hxs, (minDue_of_least sched x hxs hmin).symm, a, ?_⟩
  have h1 : (x :: h2).Perm sched := c.symm.trans hperm
  have h2' : (x :: h2).Perm (x :: sched.erase x) := h1.trans (perm_cons_erase hxs)
  exact (Perm.cons_inv h2')

end C18.Heap
