/-
C18 — helper lemmas: the name invariant (heap names = dict keys, no name twice) is kept by every
call, also by event functions that call back into the scheduler; `run()` never raises.
-/
import LimnoriaModel.C18.Model
namespace C18
open Py List

def names (l : List Entry) : List Name := l.map (·.name)
def keys (d : List (Name × FnRef)) : List Name := d.map (·.1)

/-- every scheduled name is a key of `events` and vice versa; no name occurs twice -/
structure NameInv (s : Sched) : Prop where
  schedNodup : (names s.sched).Nodup
  keysNodup : (keys s.events).Nodup
  same : ∀ n, n ∈ names s.sched ↔ n ∈ keys s.events

theorem hasKey_iff (d : List (Name × FnRef)) (n : Name) : hasKey d n = true ↔ n ∈ keys d := by
  simp [hasKey, keys]

theorem dictPop_none_iff (d : List (Name × FnRef)) (n : Name) : dictPop d n = none ↔ n ∉ keys d := by
  unfold dictPop
  constructor
  · intro h
    split at h
    · rename_i hf
      simp only [find?_eq_none, decide_eq_true_eq] at hf
      intro hm
      simp only [keys, mem_map] at hm
      obtain ⟨p, hp, e⟩ := hm
      exact hf p hp e
    · cases h
  · intro h
    split
    · rfl
    · rename_i p hf
      have := find?_some hf
      have hm := mem_of_find?_eq_some hf
      simp only [decide_eq_true_eq] at this
      exact absurd (by simp only [keys, mem_map]; exact ⟨p, hm, this⟩) h

theorem dictPop_some {d d' : List (Name × FnRef)} {n : Name} {f : FnRef} (h : dictPop d n = some (f, d')) :
    (n, f) ∈ d ∧ d' = d.filter (fun q => !(q.1 = n)) := by
  unfold dictPop at h
  split at h
  · cases h
  · rename_i p hf
    injection h with h; injection h with h1 h2
    have := find?_some hf
    have hm := mem_of_find?_eq_some hf
    simp only [decide_eq_true_eq] at this
    subst h1
    refine ⟨?_, h2.symm⟩
    have : p = (n, p.2) := by rw [← this]
    rw [← this]; exact hm

theorem keys_filter (d : List (Name × FnRef)) (n : Name) :
    keys (d.filter (fun q => !(q.1 = n))) = (keys d).filter (fun k => !(k = n)) := by
  induction d with
  | nil => rfl
  | cons p d ih =>
    by_cases h : p.1 = n
    · simp [keys, h] at ih ⊢; exact ih
    · simp [keys, h] at ih ⊢; exact ih

theorem names_filter (l : List Entry) (n : Name) :
    names (l.filter (fun e => !(e.name = n))) = (names l).filter (fun k => !(k = n)) := by
  induction l with
  | nil => rfl
  | cons p d ih =>
    by_cases h : p.name = n
    · simp [names, h] at ih ⊢; exact ih
    · simp [names, h] at ih ⊢; exact ih

/-- removing a name from both sides keeps the invariant -/
theorem NameInv.remove {s : Sched} (hi : NameInv s) (n : Name) (s' : Sched)
    (h1 : s'.sched = s.sched.filter (fun e => !(e.name = n)))
    (h2 : s'.events = s.events.filter (fun q => !(q.1 = n))) : NameInv s' := by
  refine ⟨?_, ?_, ?_⟩
  · rw [h1, names_filter]; exact hi.schedNodup.filter _
  · rw [h2, keys_filter]; exact hi.keysNodup.filter _
  · intro k
    rw [h1, h2, names_filter, keys_filter]
    simp only [mem_filter, hi.same k]

/-- adding a fresh name to both sides keeps the invariant -/
theorem NameInv.add {s : Sched} (hi : NameInv s) (e : Entry) (f : FnRef) (hn : e.name ∉ keys s.events)
    (s' : Sched) (h1 : s'.sched = s.sched ++ [e]) (h2 : s'.events = s.events ++ [(e.name, f)]) :
    NameInv s' := by
  have hn' : e.name ∉ names s.sched := fun h => hn ((hi.same _).mp h)
  refine ⟨?_, ?_, ?_⟩
  · rw [h1]; simp only [names, map_append, map_cons, map_nil]
    apply nodup_append.mpr
    refine ⟨hi.schedNodup, by simp, ?_⟩
    intro a ha b hb; simp at hb; subst hb
    intro e'; subst e'; exact hn' ha
  · rw [h2]; simp only [keys, map_append, map_cons, map_nil]
    apply nodup_append.mpr
    refine ⟨hi.keysNodup, by simp, ?_⟩
    intro a ha b hb; simp at hb; subst hb
    intro e'; subst e'; exact hn ha
  · intro k
    rw [h1, h2]
    simp only [names, keys, map_append, mem_append, map_cons, map_nil, mem_singleton]
    have := hi.same k
    simp only [names, keys] at this
    rw [this]

theorem NameInv.congr {s s' : Sched} (hi : NameInv s) (h1 : s'.sched = s.sched) (h2 : s'.events = s.events) :
    NameInv s' :=
  ⟨by rw [h1]; exact hi.schedNodup, by rw [h2]; exact hi.keysNodup, by rw [h1, h2]; exact hi.same⟩

/-! ### the calls keep the invariant -/

theorem addEvent_inv (s : Sched) (f : FnRef) (t : Nat) (name : Option Name) (args : Args) (rid : Option Nat)
    (hi : NameInv s) : NameInv (addEvent s f t name args rid).1.1 := by
  have hk' : ∀ nm, ¬ hasKey s.events nm = true → nm ∉ keys s.events :=
    fun nm h hm => h ((hasKey_iff _ _).mpr hm)
  cases name with
  | none =>
    unfold addEvent
    dsimp only
    split
    · exact hi.congr rfl rfl
    · rename_i hk
      cases rid with
      | some r => exact hi.add ⟨t, .num s.counter, args, r⟩ f (hk' _ hk) _ rfl rfl
      | none => exact hi.add ⟨t, .num s.counter, args, s.nextRid⟩ f (hk' _ hk) _ rfl rfl
  | some n =>
    unfold addEvent
    dsimp only
    split
    · exact hi.congr rfl rfl
    · rename_i hk
      cases rid with
      | some r => exact hi.add ⟨t, n, args, r⟩ f (hk' _ hk) _ rfl rfl
      | none => exact hi.add ⟨t, n, args, s.nextRid⟩ f (hk' _ hk) _ rfl rfl

theorem removeEvent_inv (s : Sched) (n : Name) (hi : NameInv s) : NameInv (removeEvent s n).1 := by
  unfold removeEvent
  split
  · exact hi
  · rename_i f d hp
    exact hi.remove n _ rfl (dictPop_some hp).2

theorem removeOp_inv (s : Sched) (n : Name) (hi : NameInv s) : NameInv (removeOp s n).1 := by
  have := removeEvent_inv s n hi
  unfold removeOp
  split
  · exact hi
  · rename_i s1 f gone h; rw [h] at this; exact this

theorem reschedOp_inv (s : Sched) (n : Name) (t : Nat) (hi : NameInv s) : NameInv (reschedOp s n t).1 := by
  have := removeEvent_inv s n hi
  unfold reschedOp
  split
  · exact hi
  · rename_i s1 f gone h
    rw [h] at this
    split <;> exact addEvent_inv _ _ _ _ _ _ this

theorem execAct_inv (s : Sched) (a : Act) (hi : NameInv s) : NameInv (execAct s a).1 := by
  cases a with
  | add fn t name args => exact addEvent_inv _ _ _ _ _ _ hi
  | remove n => exact removeOp_inv s n hi
  | resched n t => exact reschedOp_inv s n _ hi
  | addPeriodic fn period name args count => exact addEvent_inv _ _ _ _ _ _ hi
  | raise => exact hi

theorem execActs_inv : ∀ (acts : List Act) (s : Sched), NameInv s → NameInv (execActs s acts).1
  | [], _, hi => hi
  | a :: rest, s, hi => by
    unfold execActs
    have h1 := execAct_inv s a hi
    split
    · rename_i s1 ev e h; rw [h] at h1; exact h1
    · rename_i s1 ev h; rw [h] at h1; exact execActs_inv rest s1 h1

theorem call_inv (P : Prog) (s : Sched) (f : FnRef) (rid : Option Nat) (due : Nat) (args : Args)
    (hi : NameInv s) : NameInv (call P s f rid due args).1 := by
  unfold call
  cases f with
  | plain fn => exact execActs_inv _ s hi
  | wrapper fn period name wargs count =>
    dsimp only
    split <;>
      first
        | exact addEvent_inv _ _ _ _ _ _ (execActs_inv _ s hi)
        | exact execActs_inv _ s hi

/-! ### run -/

theorem minDue_none_iff (l : List Entry) : minDue l = none ↔ l = [] := by
  cases l with
  | nil => simp [minDue]
  | cons e es => simp only [minDue]; split <;> simp

theorem minDue_le : ∀ (l : List Entry) (m : Nat), minDue l = some m → ∀ e ∈ l, m ≤ e.t
  | [], _, h, _, _ => by cases h
  | x :: xs, m, h, e, he => by
    simp only [minDue] at h
    split at h
    · rename_i hn
      injection h with h; subst h
      rw [(minDue_none_iff xs).mp hn] at he
      simp at he; subst he; exact Nat.le_refl _
    · rename_i m' hm
      injection h with h
      have ih := minDue_le xs m' hm
      rcases mem_cons.mp he with he | he
      · subst he; subst h; split <;> omega
      · have := ih e he
        subst h; split <;> omega

theorem names_erase_of_nodup {l : List Entry} (hn : (names l).Nodup) {e : Entry} (he : e ∈ l) :
    names (l.erase e) = (names l).filter (fun k => !(k = e.name)) := by
  induction l with
  | nil => cases he
  | cons x xs ih =>
    simp only [names, map_cons, nodup_cons] at hn
    by_cases hx : x = e
    · subst hx
      simp only [erase_cons_head, names, map_cons, filter_cons, decide_true, Bool.not_true]
      simp only [Bool.false_eq_true, if_false]
      symm
      apply filter_eq_self.mpr
      intro k hk
      simp only [Bool.not_eq_true', decide_eq_false_iff_not]
      intro e'; subst e'; exact hn.1 hk
    · have he' : e ∈ xs := by
        rcases mem_cons.mp he with h | h
        · exact absurd h.symm hx
        · exact h
      have hne : ¬ x.name = e.name := by
        intro h'
        apply hn.1
        simp only [mem_map]
        exact ⟨e, he', h'.symm⟩
      rw [erase_cons_tail (by simpa using hx)]
      simp only [names, map_cons, filter_cons, hne, decide_false, Bool.not_false, if_true]
      congr 1
      exact ih hn.2 he'

/-- the run ended normally in a state satisfying `Q` (or the picks were not an execution) -/
def RunRes.Good (Q : Sched → Prop) : RunRes → Prop
  | .ok s' _ => Q s'
  | .crashed _ _ => False
  | .invalid => True

theorem RunRes.good_prepend (Q : Sched → Prop) (x : RunRes) (a : List Ev) :
    RunRes.Good Q (x.prepend a) ↔ RunRes.Good Q x := by
  cases x <;> rfl

/-- `run()` keeps the invariant and `self.events.pop(name)` never raises -/
theorem runPicks_inv (P : Prog) : ∀ (picks : List Name) (s : Sched), NameInv s →
    RunRes.Good NameInv (runPicks P s picks)
  | [], s, hi => by
    unfold runPicks; split
    · trivial
    · exact hi
  | p :: ps, s, hi => by
    unfold runPicks
    split
    · trivial
    · split
      · trivial
      · rename_i e hf
        have hmem := mem_of_find?_eq_some hf
        have hp := find?_some hf
        simp only [decide_eq_true_eq] at hp
        have hname : e.name = p := hp.1
        dsimp only
        split
        · rename_i hpop
          -- impossible: the name of a scheduled entry is a key of `events`
          have : p ∉ keys s.events := (dictPop_none_iff _ _).mp hpop
          apply this
          apply (hi.same p).mp
          simp only [names, mem_map]
          exact ⟨e, hmem, hname⟩
        · rename_i f d hpop
          have hd := (dictPop_some hpop).2
          have hi1 : NameInv { s with sched := s.sched.erase e, events := d } := by
            refine ⟨?_, ?_, ?_⟩
            · show (names (s.sched.erase e)).Nodup
              rw [names_erase_of_nodup hi.schedNodup hmem]
              exact hi.schedNodup.filter _
            · show (keys d).Nodup
              rw [hd, keys_filter]; exact hi.keysNodup.filter _
            · intro k
              show k ∈ names (s.sched.erase e) ↔ k ∈ keys d
              rw [names_erase_of_nodup hi.schedNodup hmem, hd, keys_filter, hname]
              simp only [mem_filter, hi.same k]
          have hi2 := call_inv P _ f (some e.rid) e.t e.args hi1
          rw [RunRes.good_prepend]
          exact runPicks_inv P ps _ hi2

/-- the invariant is kept by every operation, and `run()` does not raise -/
theorem step_nameInv (P : Prog) (s : Sched) (op : Op) (r : Res) (h : step P s op = some r) (hi : NameInv s) :
    NameInv r.1 := by
  cases op with
  | add fn t name args => injection h with h; subst h; exact addEvent_inv _ _ _ _ _ _ hi
  | remove n => injection h with h; subst h; exact removeOp_inv s n hi
  | resched n t => injection h with h; subst h; exact reschedOp_inv s n _ hi
  | addPeriodic fn period name now args count =>
    simp only [step] at h
    split at h
    · injection h with h; subst h; exact call_inv P s _ none s.now [] hi
    · injection h with h; subst h; exact addEvent_inv _ _ _ _ _ _ hi
  | run picks =>
    simp only [step] at h
    have := runPicks_inv P picks s hi
    split at h
    · rename_i s' evs hr
      injection h with h; subst h
      rw [hr] at this; exact this
    · rename_i s' evs hr
      rw [hr] at this; exact absurd this (by simp [RunRes.Good])
    · cases h
  | tick dt => injection h with h; subst h; exact hi.congr rfl rfl
  | reset =>
    injection h with h; subst h
    exact ⟨by simp [names], by simp [keys], by intro n; simp [names, keys]⟩

theorem runOps_nameInv (P : Prog) : ∀ (ops : List Op) (s : Sched) (r : Sched × List Ev),
    runOps P s ops = some r → NameInv s → NameInv r.1
  | [], s, r, h, hi => by injection h with h; subst h; exact hi
  | op :: ops, s, r, h, hi => by
    unfold runOps at h
    split at h
    · cases h
    · rename_i r1 h1
      split at h
      · cases h
      · rename_i r2 h2
        injection h with h; subst h
        exact runOps_nameInv P ops r1.1 r2 h2 (step_nameInv P s op r1 h1 hi)

theorem init_nameInv (now : Nat) : NameInv (init now) :=
  ⟨by simp [init, names], by simp [init, keys], by intro n; simp [init, names, keys]⟩

end C18
