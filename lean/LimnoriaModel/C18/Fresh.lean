/-
C18 — helper lemmas: registration ids are handed out consecutively (so no id is registered twice).
-/
import LimnoriaModel.C18.Cons
namespace C18
open Py List

/-- the registrations of these events are exactly the ids from `s.nextRid` up to `s'.nextRid` -/
def Fresh (s s' : Sched) (evs : List Ev) : Prop :=
  s.nextRid ≤ s'.nextRid ∧ regOf evs = range' s.nextRid (s'.nextRid - s.nextRid)

theorem Fresh.refl (s : Sched) : Fresh s s [] := ⟨Nat.le_refl _, by simp [regOf]⟩

theorem Fresh.of_same {s s' : Sched} {evs : List Ev} (h : s'.nextRid = s.nextRid) (hr : regOf evs = []) :
    Fresh s s' evs := ⟨by omega, by rw [hr, h]; simp⟩

theorem range_split (a b c : Nat) (h1 : a ≤ b) (h2 : b ≤ c) :
    range' a (b - a) ++ range' b (c - b) = range' a (c - a) := by
  obtain ⟨k, rfl⟩ := Nat.exists_eq_add_of_le h1
  obtain ⟨m, rfl⟩ := Nat.exists_eq_add_of_le h2
  have e1 : a + k - a = k := by omega
  have e2 : a + k + m - (a + k) = m := by omega
  have e3 : a + k + m - a = k + m := by omega
  rw [e1, e2, e3]
  exact range'_append_1

theorem Fresh.trans {s s1 s2 : Sched} {e1 e2 : List Ev} (h1 : Fresh s s1 e1) (h2 : Fresh s1 s2 e2) :
    Fresh s s2 (e1 ++ e2) := by
  refine ⟨Nat.le_trans h1.1 h2.1, ?_⟩
  rw [regOf_append, h1.2, h2.2]
  exact range_split _ _ _ h1.1 h2.1

theorem addEvent_fresh (s : Sched) (f : FnRef) (t : Nat) (name : Option Name) (args : Args) (rid : Option Nat) :
    Fresh s (addEvent s f t name args rid).1.1 (addEvent s f t name args rid).1.2.1 := by
  cases name <;> cases rid <;> (unfold addEvent; dsimp only; split) <;>
    first
      | exact Fresh.of_same rfl rfl
      | exact ⟨Nat.le_succ _, by simp [regOf]⟩

theorem removeOp_fresh (s : Sched) (n : Name) : Fresh s (removeOp s n).1 (removeOp s n).2.1 := by
  unfold removeOp removeEvent
  split
  · exact Fresh.of_same rfl rfl
  · rename_i s1 f gone h
    split at h
    · cases h
    · injection h with h1 h2; injection h2 with h2 h3
      subst h1 h3
      exact Fresh.of_same rfl (removed_reg _)

theorem reschedOp_fresh (s : Sched) (n : Name) (t : Nat) :
    Fresh s (reschedOp s n t).1 (reschedOp s n t).2.1 := by
  unfold reschedOp removeEvent
  split
  · exact Fresh.of_same rfl rfl
  · rename_i s1 f gone h
    split at h
    · cases h
    · rename_i f' d hp
      injection h with h1 h2; injection h2 with h2 h3
      subst h1 h3
      split
      · rename_i e hl
        have h0 : Fresh s { s with events := d, sched := s.sched.filter fun e => !(e.name = n) }
            ((s.sched.filter fun e => e.name = n).dropLast.map fun g => Ev.removed g.rid) :=
          Fresh.of_same rfl (removed_reg _)
        exact Fresh.trans h0 (addEvent_fresh _ _ _ _ _ _)
      · have := addEvent_fresh { s with events := d, sched := s.sched.filter fun e => !(e.name = n) }
          f t (some n) [] none
        exact ⟨this.1, this.2⟩

theorem execAct_fresh (s : Sched) (a : Act) : Fresh s (execAct s a).1 (execAct s a).2.1 := by
  cases a with
  | add fn t name args => exact addEvent_fresh _ _ _ _ _ _
  | remove n => exact removeOp_fresh s n
  | resched n t => exact reschedOp_fresh s n _
  | addPeriodic fn period name args count => exact addEvent_fresh _ _ _ _ _ _
  | raise => exact Fresh.of_same rfl rfl

theorem execActs_fresh : ∀ (acts : List Act) (s : Sched), Fresh s (execActs s acts).1 (execActs s acts).2.1
  | [], s => Fresh.refl s
  | a :: rest, s => by
    unfold execActs
    have h1 := execAct_fresh s a
    split
    · rename_i s1 ev e h; rw [h] at h1; exact h1
    · rename_i s1 ev h; rw [h] at h1
      exact Fresh.trans h1 (execActs_fresh rest s1)

theorem Fresh.cons_fired {s s' : Sched} {evs : List Ev} (h : Fresh s s' evs) (rid : Option Nat) (a b c : Nat)
    (d : Args) : Fresh s s' (Ev.fired rid a b c d :: evs) := ⟨h.1, by simpa [regOf] using h.2⟩

theorem call_fresh (P : Prog) (s : Sched) (f : FnRef) (rid : Option Nat) (due : Nat) (args : Args) :
    Fresh s (call P s f rid due args).1 (call P s f rid due args).2.1 := by
  unfold call
  cases f with
  | plain fn => exact (execActs_fresh _ s).cons_fired _ _ _ _ _
  | wrapper fn period name wargs count =>
    dsimp only
    split <;>
      first
        | exact (Fresh.trans (execActs_fresh _ s) (addEvent_fresh _ _ _ _ _ _)).cons_fired _ _ _ _ _
        | exact (execActs_fresh _ s).cons_fired _ _ _ _ _

theorem runPicks_fresh (P : Prog) : ∀ (picks : List Name) (s s' : Sched) (evs : List Ev),
    runPicks P s picks = .ok s' evs → Fresh s s' evs
  | [], s, s', evs, h => by
    unfold runPicks at h
    split at h
    · cases h
    · injection h with h1 h2; subst h1 h2; exact Fresh.refl s
  | p :: ps, s, s', evs, h => by
    obtain ⟨e, f, d, evs2, _, _, _, _, _, hrec, hev⟩ := runPicks_cons_ok h
    have ih := runPicks_fresh P ps _ s' evs2 hrec
    have h1 := call_fresh P { s with sched := s.sched.erase e, events := d } f (some e.rid) e.t e.args
    subst hev
    exact Fresh.trans (s := s) ⟨h1.1, h1.2⟩ ih

theorem step_fresh (P : Prog) (s : Sched) (op : Op) (r : Res) (h : step P s op = some r) (hi : NameInv s) :
    Fresh s r.1 r.2.1 := by
  cases op with
  | add fn t name args => injection h with h; subst h; exact addEvent_fresh _ _ _ _ _ _
  | remove n => injection h with h; subst h; exact removeOp_fresh s n
  | resched n t => injection h with h; subst h; exact reschedOp_fresh s n _
  | addPeriodic fn period name now args count =>
    simp only [step] at h
    split at h
    · injection h with h; subst h; exact call_fresh P s _ none s.now []
    · injection h with h; subst h; exact addEvent_fresh _ _ _ _ _ _
  | run picks =>
    simp only [step] at h
    split at h
    · rename_i s' evs hr
      injection h with h; subst h
      exact runPicks_fresh P picks s s' evs hr
    · rename_i s' evs hr
      have := runPicks_inv P picks s hi
      rw [hr] at this; exact absurd this (by simp [RunRes.Good])
    · cases h
  | tick dt => injection h with h; subst h; exact Fresh.refl _
  | reset => injection h with h; subst h; exact Fresh.of_same rfl rfl

theorem runOps_fresh (P : Prog) : ∀ (ops : List Op) (s : Sched) (r : Sched × List Ev),
    runOps P s ops = some r → NameInv s → Fresh s r.1 r.2
  | [], s, r, h, _ => by injection h with h; subst h; exact Fresh.refl s
  | op :: ops, s, r, h, hi => by
    unfold runOps at h
    split at h
    · cases h
    · rename_i r1 h1
      split at h
      · cases h
      · rename_i r2 h2
        injection h with h; subst h
        exact Fresh.trans (step_fresh P s op r1 h1 hi)
          (runOps_fresh P ops r1.1 r2 h2 (step_nameInv P s op r1 h1 hi))

end C18
