/-
C18 — helper lemmas for the Scheduler plugin layer: the table/schedule invariant.
-/
import LimnoriaModel.C18.Plugin
namespace C18.Plug
open Py List

/-! ### the dict -/

theorem mem_tkeys {tb : Table} {k : Key} : k ∈ tkeys tb ↔ ∃ r, (k, r) ∈ tb := by
  simp only [tkeys, mem_map]
  constructor
  · rintro ⟨p, hp, rfl⟩; exact ⟨p.2, hp⟩
  · rintro ⟨r, hr⟩; exact ⟨(k, r), hr, rfl⟩

theorem mem_tdel {tb : Table} {k : Key} {p : Key × Rec} : p ∈ tdel tb k ↔ p ∈ tb ∧ p.1 ≠ k := by
  simp [tdel]

theorem tkeys_tdel_nodup {tb : Table} (h : (tkeys tb).Nodup) (k : Key) : (tkeys (tdel tb k)).Nodup := by
  have : tkeys (tdel tb k) = (tkeys tb).filter (fun x => !(x = k)) := by
    induction tb with
    | nil => rfl
    | cons p tb ih =>
      simp only [tkeys, map_cons, nodup_cons] at h
      by_cases hp : p.1 = k
      · simp [tkeys, tdel, hp] at ih ⊢; exact ih h.2
      · simp [tkeys, tdel, hp] at ih ⊢; exact ih h.2
  rw [this]; exact h.filter _

theorem tset_sub {tb : Table} {k : Key} {r : Rec} {p : Key × Rec} (h : p ∈ tset tb k r) :
    p = (k, r) ∨ p ∈ tb := by
  induction tb with
  | nil => simp [tset] at h; exact Or.inl h
  | cons q tb ih =>
    obtain ⟨k', r'⟩ := q
    by_cases hk : k' = k
    · simp only [tset, hk, if_true, mem_cons] at h
      rcases h with h | h
      · exact Or.inl h
      · exact Or.inr (mem_cons_of_mem _ h)
    · simp only [tset, hk, if_false, mem_cons] at h
      rcases h with h | h
      · exact Or.inr (by rw [h]; exact mem_cons_self)
      · rcases ih h with h | h
        · exact Or.inl h
        · exact Or.inr (mem_cons_of_mem _ h)

theorem tset_mem_new (tb : Table) (k : Key) (r : Rec) : (k, r) ∈ tset tb k r := by
  induction tb with
  | nil => simp [tset]
  | cons q tb ih =>
    obtain ⟨k', r'⟩ := q
    by_cases hk : k' = k
    · simp [tset, hk]
    · simp only [tset, hk, if_false, mem_cons]; exact Or.inr ih

theorem tset_mem_old {tb : Table} {k : Key} {r : Rec} {p : Key × Rec} (hp : p ∈ tb) (hk : p.1 ≠ k) :
    p ∈ tset tb k r := by
  induction tb with
  | nil => cases hp
  | cons q tb ih =>
    obtain ⟨k', r'⟩ := q
    by_cases hq : k' = k
    · simp only [tset, hq, if_true, mem_cons]
      rcases mem_cons.mp hp with h | h
      · subst h; exact absurd hq hk
      · exact Or.inr h
    · simp only [tset, hq, if_false, mem_cons]
      rcases mem_cons.mp hp with h | h
      · exact Or.inl h
      · exact Or.inr (ih h)

theorem mem_tkeys_tset {tb : Table} {k x : Key} {r : Rec} :
    x ∈ tkeys (tset tb k r) ↔ x = k ∨ x ∈ tkeys tb := by
  constructor
  · intro h
    obtain ⟨r', hr⟩ := mem_tkeys.mp h
    rcases tset_sub hr with h | h
    · injection h with h1 _; exact Or.inl h1
    · exact Or.inr (mem_tkeys.mpr ⟨r', h⟩)
  · rintro (h | h)
    · subst h; exact mem_tkeys.mpr ⟨r, tset_mem_new tb x r⟩
    · by_cases hx : x = k
      · subst hx; exact mem_tkeys.mpr ⟨r, tset_mem_new tb x r⟩
      · obtain ⟨r', hr⟩ := mem_tkeys.mp h
        exact mem_tkeys.mpr ⟨r', tset_mem_old hr hx⟩

theorem tset_append {tb : Table} {k : Key} (r : Rec) (h : k ∉ tkeys tb) : tset tb k r = tb ++ [(k, r)] := by
  induction tb with
  | nil => rfl
  | cons q tb ih =>
    obtain ⟨k', r'⟩ := q
    simp only [tkeys, map_cons, mem_cons, not_or] at h
    have hk : ¬ k' = k := fun e => h.1 e.symm
    simp only [tset, hk, if_false, cons_append]
    rw [ih (by simpa [tkeys] using h.2)]

theorem tkeys_tset_nodup {tb : Table} (h : (tkeys tb).Nodup) (k : Key) (r : Rec) :
    (tkeys (tset tb k r)).Nodup := by
  induction tb with
  | nil => simp [tset, tkeys]
  | cons q tb ih =>
    obtain ⟨k', r'⟩ := q
    simp only [tkeys, map_cons, nodup_cons] at h
    by_cases hk : k' = k
    · subst hk
      simp only [tset, if_true, tkeys, map_cons, nodup_cons]; exact h
    · simp only [tset, hk, if_false, tkeys, map_cons, nodup_cons]
      refine ⟨?_, ih h.2⟩
      intro hm
      have : k' ∈ tkeys (tset tb k r) := hm
      rcases mem_tkeys_tset.mp this with e | e
      · exact hk e
      · exact h.1 e

/-- with distinct keys, the entry of a key is unique -/
theorem table_unique {tb : Table} (h : (tkeys tb).Nodup) {k : Key} {r r' : Rec}
    (h1 : (k, r) ∈ tb) (h2 : (k, r') ∈ tb) : r = r' := by
  induction tb with
  | nil => cases h1
  | cons q tb ih =>
    simp only [tkeys, map_cons, nodup_cons] at h
    have key : ∀ g, (k, g) ∈ tb → q.1 ≠ k := by
      intro g hg e
      exact h.1 (by simp only [mem_map]; exact ⟨(k, g), hg, e.symm⟩)
    rcases mem_cons.mp h1 with a | a <;> rcases mem_cons.mp h2 with b | b
    · rw [← a] at b; injection b with _ e; exact e.symm
    · exact absurd (by rw [← a]) (key r' b)
    · exact absurd (by rw [← b]) (key r a)
    · exact ih h.2 a b

theorem tget_some {tb : Table} {k : Key} {r : Rec} (h : tget tb k = some r) : (k, r) ∈ tb := by
  unfold tget at h
  cases hf : tb.find? (fun p => p.1 = k) with
  | none => rw [hf] at h; cases h
  | some p =>
    rw [hf] at h
    injection h with h
    have hm := mem_of_find?_eq_some hf
    have hp := find?_some hf
    simp only [decide_eq_true_eq] at hp
    have : p = (k, r) := by rw [← hp, ← h]
    rw [← this]; exact hm

theorem tget_none {tb : Table} {k : Key} (h : tget tb k = none) : k ∉ tkeys tb := by
  unfold tget at h
  cases hf : tb.find? (fun p => p.1 = k) with
  | some p => rw [hf] at h; cases h
  | none =>
    simp only [find?_eq_none, decide_eq_true_eq] at hf
    intro hm
    obtain ⟨r, hr⟩ := mem_tkeys.mp hm
    exact hf _ hr rfl

theorem tget_of_mem {tb : Table} (hn : (tkeys tb).Nodup) {k : Key} {r : Rec} (h : (k, r) ∈ tb) :
    tget tb k = some r := by
  cases hg : tget tb k with
  | none => exact absurd (mem_tkeys.mpr ⟨r, h⟩) (tget_none hg)
  | some r' => rw [table_unique hn (tget_some hg) h]

/-! ### the invariant -/

/-- ids of the one-shot entries, in table order -/
def ids : Table → List Nat
  | [] => []
  | (.id i, _) :: tb => i :: ids tb
  | (.name _, _) :: tb => ids tb

theorem mem_ids {tb : Table} {i : Nat} : i ∈ ids tb ↔ ∃ r, (Key.id i, r) ∈ tb := by
  induction tb with
  | nil => simp [ids]
  | cons p tb ih =>
    obtain ⟨k, r⟩ := p
    cases k with
    | id j =>
      simp only [ids, mem_cons, ih]
      constructor
      · rintro (h | ⟨r', h⟩)
        · subst h; exact ⟨r, Or.inl rfl⟩
        · exact ⟨r', Or.inr h⟩
      · rintro ⟨r', h | h⟩
        · injection h with h1 _; injection h1 with h1; exact Or.inl h1
        · exact Or.inr ⟨r', h⟩
    | name nm =>
      simp only [ids, ih, mem_cons]
      constructor
      · rintro ⟨r', h⟩; exact ⟨r', Or.inr h⟩
      · rintro ⟨r', h | h⟩
        · injection h with h1 _; cases h1
        · exact ⟨r', h⟩

theorem ids_append (a b : Table) : ids (a ++ b) = ids a ++ ids b := by
  induction a with
  | nil => rfl
  | cons p a ih => obtain ⟨k, r⟩ := p; cases k <;> simp [ids, ih]

theorem ids_tdel_sublist (tb : Table) (k : Key) : (ids (tdel tb k)).Sublist (ids tb) := by
  induction tb with
  | nil => exact Sublist.slnil
  | cons p tb ih =>
    obtain ⟨k', r⟩ := p
    by_cases h : k' = k
    · subst h
      have : tdel ((k', r) :: tb) k' = tdel tb k' := by simp [tdel]
      rw [this]
      cases k' with
      | id i => simp only [ids]; exact ih.cons _
      | name nm => simpa only [ids] using ih
    · have : tdel ((k', r) :: tb) k = (k', r) :: tdel tb k := by simp [tdel, h]
      rw [this]
      cases k' with
      | id i => simp only [ids]; exact ih.cons₂ _
      | name nm => simpa only [ids] using ih

theorem toName_inj {a b : Key} (h : a.toName = b.toName) : a = b := by
  cases a <;> cases b <;> simp [Key.toName] at h <;> simp [h]

/-- what a scheduled closure of the plugin needs from the live instance's table -/
def Own (s : PState) (e : PEntry) : Prop :=
  match e.fn with
  | .single inst id cmd =>
    s.loaded = true ∧ inst = s.inst ∧ e.name = .num id ∧ (Key.id id, (⟨e.t, cmd, 0⟩ : Rec)) ∈ s.table
  | .repeating inst nm p cmd =>
    s.loaded = true ∧ inst = s.inst ∧ e.name = .str nm ∧ ∃ fr, (Key.name nm, (⟨p, cmd, fr⟩ : Rec)) ∈ s.table
  | .foreign _ => True

structure PInv (s : PState) : Prop where
  names : (snames s.sched).Nodup
  numLt : ∀ e ∈ s.sched, ∀ n, e.name = .num n → n < s.counter
  keys : (tkeys s.table).Nodup
  idLt : ∀ i r, (Key.id i, r) ∈ s.table → i < s.counter ∧ r.firstRun = 0
  asc : (ids s.table).Pairwise (· < ·)
  own : ∀ e ∈ s.sched, Own s e
  unl : s.loaded = false → s.table = []
  town : ∀ k ∈ tkeys s.table, ∃ e ∈ s.sched, e.name = k.toName ∧ ∀ tag, e.fn ≠ .foreign tag

/-- the saved table is well formed; while the plugin is not loaded none of its events is scheduled
and the counter is past the saved ids -/
def PickleInv (s : PState) : Prop :=
  ∀ tb, s.pickle = some tb →
    (tkeys tb).Nodup ∧ (ids tb).Pairwise (· < ·) ∧ (∀ i r, (Key.id i, r) ∈ tb → r.firstRun = 0) ∧
    (s.loaded = false → (∀ k ∈ tkeys tb, k.toName ∉ snames s.sched) ∧ ∀ i ∈ ids tb, i < s.counter)

theorem PInv.sch {s : PState} (h : PInv s) : ∀ k ∈ tkeys s.table, k.toName ∈ snames s.sched := by
  intro k hk
  obtain ⟨e, he, hn, _⟩ := h.town k hk
  simp only [snames, mem_map]; exact ⟨e, he, hn⟩

/-- entries with the same name are the same entry -/
theorem entry_unique {l : List PEntry} (hn : (snames l).Nodup) {a b : PEntry} (ha : a ∈ l) (hb : b ∈ l)
    (h : a.name = b.name) : a = b := by
  induction l with
  | nil => cases ha
  | cons x xs ih =>
    simp only [snames, map_cons, nodup_cons] at hn
    rcases mem_cons.mp ha with ha | ha <;> rcases mem_cons.mp hb with hb | hb
    · rw [ha, hb]
    · exact absurd (by simp only [mem_map]; exact ⟨b, hb, by rw [← h, ha]⟩) hn.1
    · exact absurd (by simp only [mem_map]; exact ⟨a, ha, by rw [h, hb]⟩) hn.1
    · exact ih hn.2 ha hb

/-- a new closure of the live instance and its table entry are added together -/
theorem PInv.add_entry {s : PState} (hi : PInv s) (hl : s.loaded = true) (e : PEntry) (k : Key) (r : Rec)
    (c' : Nat) (hc : s.counter ≤ c') (hname : e.name = k.toName) (hfresh : k.toName ∉ snames s.sched)
    (hk : k ∉ tkeys s.table)
    (hown : ∀ s' : PState, s'.loaded = true → s'.inst = s.inst → (k, r) ∈ s'.table → Own s' e)
    (hnf : ∀ tag, e.fn ≠ .foreign tag)
    (hnum : ∀ n, e.name = .num n → n < c')
    (hid : ∀ i, k = .id i → i < c' ∧ r.firstRun = 0 ∧ ∀ j ∈ ids s.table, j < i) :
    PInv { s with sched := s.sched ++ [e], table := tset s.table k r, counter := c' } := by
  have happ := tset_append r hk
  refine ⟨?_, ?_, tkeys_tset_nodup hi.keys k r, ?_, ?_, ?_, ?_, ?_⟩
  · simp only [snames, map_append, map_cons, map_nil]
    apply nodup_append.mpr
    refine ⟨hi.names, by simp, ?_⟩
    intro a ha b hb; simp at hb; subst hb
    intro e'; subst e'; rw [hname] at ha; exact hfresh ha
  · intro x hx n hn
    rcases mem_append.mp hx with hx | hx
    · exact Nat.lt_of_lt_of_le (hi.numLt x hx n hn) hc
    · simp at hx; subst hx; exact hnum n hn
  · intro i r' hm
    rcases tset_sub hm with h | h
    · injection h with h1 h2; subst h2
      obtain ⟨a, b, _⟩ := hid i h1.symm
      exact ⟨a, b⟩
    · obtain ⟨a, b⟩ := hi.idLt i r' h
      exact ⟨Nat.lt_of_lt_of_le a hc, b⟩
  · show (ids (tset s.table k r)).Pairwise (· < ·)
    rw [happ, ids_append]
    cases k with
    | name nm => simpa [ids] using hi.asc
    | id i =>
      simp only [ids]
      apply pairwise_append.mpr
      refine ⟨hi.asc, by simp, ?_⟩
      intro a ha b hb; simp at hb; rw [hb]
      exact (hid i rfl).2.2 a ha
  · intro x hx
    rcases mem_append.mp hx with hx | hx
    · have ho := hi.own x hx
      unfold Own at ho ⊢
      split at ho
      · rename_i inst id cmd hf
        refine ⟨ho.1, ho.2.1, ho.2.2.1, tset_mem_old ho.2.2.2 ?_⟩
        intro hk'
        exact hk (by rw [← hk']; exact mem_tkeys.mpr ⟨_, ho.2.2.2⟩)
      · rename_i inst nm p cmd hf
        obtain ⟨fr, hfr⟩ := ho.2.2.2
        refine ⟨ho.1, ho.2.1, ho.2.2.1, fr, tset_mem_old hfr ?_⟩
        intro hk'
        exact hk (by rw [← hk']; exact mem_tkeys.mpr ⟨_, hfr⟩)
      · trivial
    · simp at hx; subst hx
      exact hown _ hl rfl (tset_mem_new _ _ _)
  · intro h; rw [hl] at h; cases h
  · intro k' hk'
    rcases mem_tkeys_tset.mp hk' with h | h
    · subst h; exact ⟨e, by simp, hname, hnf⟩
    · obtain ⟨x, hx, h1, h2⟩ := hi.town k' h
      exact ⟨x, mem_append_left _ hx, h1, h2⟩

/-- a table entry and the schedule entry of its name go together -/
theorem PInv.remove_key {s : PState} (hi : PInv s) (k : Key) :
    PInv { s with sched := s.sched.filter (fun e => !(e.name = k.toName)), table := tdel s.table k } := by
  have hsub : ∀ x, x ∈ s.sched.filter (fun e => !(e.name = k.toName)) → x ∈ s.sched ∧ x.name ≠ k.toName := by
    intro x hx; simpa using hx
  refine ⟨?_, ?_, tkeys_tdel_nodup hi.keys k, ?_, ?_, ?_, ?_, ?_⟩
  · have : snames (s.sched.filter (fun e => !(e.name = k.toName)))
        = (snames s.sched).filter (fun n => !(n = k.toName)) := by
      simp [snames, filter_map, Function.comp_def]
    rw [this]; exact hi.names.filter _
  · intro x hx n hn; exact hi.numLt x (hsub x hx).1 n hn
  · intro i r hm; exact hi.idLt i r (mem_tdel.mp hm).1
  · exact hi.asc.sublist (ids_tdel_sublist _ _)
  · intro x hx
    obtain ⟨hx1, hx2⟩ := hsub x hx
    have ho := hi.own x hx1
    unfold Own at ho ⊢
    split at ho
    · rename_i inst id cmd hf
      refine ⟨ho.1, ho.2.1, ho.2.2.1, mem_tdel.mpr ⟨ho.2.2.2, ?_⟩⟩
      intro hk'; apply hx2; rw [ho.2.2.1, ← hk']; rfl
    · rename_i inst nm p cmd hf
      obtain ⟨fr, hfr⟩ := ho.2.2.2
      refine ⟨ho.1, ho.2.1, ho.2.2.1, fr, mem_tdel.mpr ⟨hfr, ?_⟩⟩
      intro hk'; apply hx2; rw [ho.2.2.1, ← hk']; rfl
    · trivial
  · intro h; show tdel s.table k = []; rw [hi.unl h]; rfl
  · intro k' hk'
    obtain ⟨r, hr⟩ := mem_tkeys.mp hk'
    obtain ⟨h1, h2⟩ := mem_tdel.mp hr
    obtain ⟨x, hx, hn, hf⟩ := hi.town k' (mem_tkeys.mpr ⟨r, h1⟩)
    refine ⟨x, ?_, hn, hf⟩
    simp only [mem_filter, Bool.not_eq_true', decide_eq_false_iff_not]
    refine ⟨hx, ?_⟩
    rw [hn]; intro e'; exact h2 (toName_inj e')

/-! ### the commands keep the invariant -/

def Inv (s : PState) : Prop := PInv s ∧ PickleInv s

theorem PickleInv.of_loaded {s s' : PState} (h : PickleInv s) (hp : s'.pickle = s.pickle)
    (hl : s'.loaded = true) : PickleInv s' := by
  intro tb htb
  rw [hp] at htb
  obtain ⟨a, b, c, _⟩ := h tb htb
  exact ⟨a, b, c, fun h' => by rw [hl] at h'; cases h'⟩

theorem num_fresh {s : PState} (hi : PInv s) : Name.num s.counter ∉ snames s.sched := by
  intro h
  simp only [snames, mem_map] at h
  obtain ⟨e, he, hn⟩ := h
  exact Nat.lt_irrefl _ (hi.numLt e he _ hn)

theorem cmdAdd_inv (s : PState) (sec cmd : Nat) (h : Inv s) : Inv (cmdAdd s sec cmd).1 := by
  obtain ⟨hi, hp⟩ := h
  unfold cmdAdd
  split
  · exact ⟨hi, hp⟩
  · rename_i hl
    have hl' : s.loaded = true := by simpa using hl
    unfold addEv
    simp only
    rw [if_neg (num_fresh hi)]
    simp only [idOf]
    have hk : Key.id s.counter ∉ tkeys s.table := by
      intro hm
      obtain ⟨r, hr⟩ := mem_tkeys.mp hm
      exact Nat.lt_irrefl _ (hi.idLt _ r hr).1
    refine ⟨hi.add_entry hl' ⟨s.now + sec, .num s.counter, .single s.inst s.counter cmd⟩ (.id s.counter)
      ⟨s.now + sec, cmd, 0⟩ (s.counter + 1) (Nat.le_succ _) rfl (num_fresh hi) hk ?_ (by intro t h; cases h)
      ?_ ?_, hp.of_loaded rfl hl'⟩
    · intro s' h1 h2 h3; exact ⟨h1, h2.symm, rfl, h3⟩
    · intro n hn; injection hn with hn; omega
    · intro i hi'
      injection hi' with hi'
      subst hi'
      refine ⟨Nat.lt_succ_self _, rfl, ?_⟩
      intro j hj
      obtain ⟨r, hr⟩ := mem_ids.mp hj
      exact (hi.idLt j r hr).1

theorem filter_name_self {l : List PEntry} {n : Name} (h : n ∉ snames l) :
    l.filter (fun e => !(e.name = n)) = l := by
  apply filter_eq_self.mpr
  intro e he
  simp only [Bool.not_eq_true', decide_eq_false_iff_not]
  intro hn; apply h; simp only [snames, mem_map]; exact ⟨e, he, hn⟩

theorem cmdRemove_inv (s : PState) (k : Key) (h : Inv s) : Inv (cmdRemove s k).1 := by
  obtain ⟨hi, hp⟩ := h
  unfold cmdRemove
  split
  · exact ⟨hi, hp⟩
  · rename_i hl
    have hl' : s.loaded = true := by simpa using hl
    split
    · exact ⟨hi, hp⟩
    · have key := hi.remove_key k
      by_cases hn : k.toName ∈ snames s.sched
      · have e : removeEv { s with table := tdel s.table k } k.toName
            = some { s with sched := s.sched.filter (fun e => !(e.name = k.toName)), table := tdel s.table k } := by
          simp [removeEv, hn]
        simp only [e]
        exact ⟨key, hp.of_loaded rfl hl'⟩
      · have e : removeEv { s with table := tdel s.table k } k.toName = none := by
          simp [removeEv, hn]
        simp only [e]
        rw [filter_name_self hn] at key
        exact ⟨key, hp.of_loaded rfl hl'⟩

theorem cmdRepeat_inv (s : PState) (nm : Str) (period cmd delay : Nat) (h : Inv s) :
    Inv (cmdRepeat s nm period cmd delay).1 := by
  obtain ⟨hi, hp⟩ := h
  unfold cmdRepeat
  split
  · exact ⟨hi, hp⟩
  · rename_i hl
    have hl' : s.loaded = true := by simpa using hl
    split
    · exact ⟨hi, hp⟩
    · rename_i hg
      have hk := tget_none hg
      by_cases hfresh : Name.str nm ∈ snames s.sched
      · have e : addEv s (fun _ => PFn.repeating s.inst nm period cmd) (s.now + delay) (some (.str nm))
            = (s, none) := by simp [addEv, hfresh]
        simp only [e]
        exact ⟨hi, hp⟩
      · have e : addEv s (fun _ => PFn.repeating s.inst nm period cmd) (s.now + delay) (some (.str nm))
            = ({ s with sched := s.sched ++ [⟨s.now + delay, .str nm, .repeating s.inst nm period cmd⟩] },
               some (.str nm)) := by simp [addEv, hfresh]
        simp only [e]
        refine ⟨hi.add_entry hl' ⟨s.now + delay, .str nm, .repeating s.inst nm period cmd⟩ (.name nm)
          ⟨period, cmd, s.now + delay⟩ s.counter (Nat.le_refl _) rfl hfresh hk ?_ (by intro t h; cases h)
          (by intro n hn; cases hn) (by intro i hi'; cases hi'), hp.of_loaded rfl hl'⟩
        intro s' h1 h2 h3; exact ⟨h1, h2.symm, rfl, _, h3⟩

/-! ### run -/

theorem PickleInv.of_sub {s s' : PState} (h : PickleInv s) (hp : s'.pickle = s.pickle)
    (hl : s'.loaded = s.loaded) (hc : s.counter ≤ s'.counter)
    (hs : s'.loaded = false → ∀ n, n ∈ snames s'.sched → n ∈ snames s.sched ∨ ∃ j, n = .num j ∧ s.counter ≤ j) :
    PickleInv s' := by
  intro tb htb
  rw [hp] at htb
  obtain ⟨a, b, c, d⟩ := h tb htb
  refine ⟨a, b, c, ?_⟩
  intro hu
  obtain ⟨d1, d2⟩ := d (by rw [← hl]; exact hu)
  refine ⟨?_, fun i hi => Nat.lt_of_lt_of_le (d2 i hi) hc⟩
  intro k hk hn
  rcases hs hu _ hn with h1 | ⟨j, h1, h2⟩
  · exact d1 k hk h1
  · cases k with
    | name nm => cases h1
    | id i =>
      injection h1 with h1; subst h1
      obtain ⟨r, hr⟩ := mem_tkeys.mp hk
      have := d2 i (mem_ids.mpr ⟨r, hr⟩)
      omega

theorem snames_filter (l : List PEntry) (n : Name) :
    snames (l.filter (fun e => !(e.name = n))) = (snames l).filter (fun m => !(m = n)) := by
  simp [snames, filter_map, Function.comp_def]

/-- a foreign entry leaves the schedule -/
theorem PInv.drop_foreign {s : PState} (hi : PInv s) (e : PEntry) (he : e ∈ s.sched) (tag : Nat)
    (hf : e.fn = .foreign tag) : PInv { s with sched := s.sched.filter (fun x => !(x.name = e.name)) } := by
  have hsub : ∀ x, x ∈ s.sched.filter (fun x => !(x.name = e.name)) → x ∈ s.sched ∧ x.name ≠ e.name := by
    intro x hx; simpa using hx
  refine ⟨?_, ?_, hi.keys, hi.idLt, hi.asc, ?_, hi.unl, ?_⟩
  · rw [snames_filter]; exact hi.names.filter _
  · intro x hx n hn; exact hi.numLt x (hsub x hx).1 n hn
  · intro x hx
    have ho := hi.own x (hsub x hx).1
    unfold Own at ho ⊢
    split at ho
    · exact ho
    · exact ho
    · trivial
  · intro k hk
    obtain ⟨x, hx, hn, hnf⟩ := hi.town k hk
    refine ⟨x, ?_, hn, hnf⟩
    simp only [mem_filter, Bool.not_eq_true', decide_eq_false_iff_not]
    refine ⟨hx, ?_⟩
    intro hxe
    have := entry_unique hi.names hx he hxe
    subst this
    exact hnf tag hf

/-- a repeating closure is re-scheduled under its name -/
theorem PInv.retime {s : PState} (hi : PInv s) (e : PEntry) (he : e ∈ s.sched) (inst : Nat) (nm : Str)
    (period cmd : Nat) (hf : e.fn = .repeating inst nm period cmd) (t : Nat) :
    PInv { s with sched := s.sched.filter (fun x => !(x.name = e.name)) ++ [⟨t, e.name, e.fn⟩] } := by
  have hsub : ∀ x, x ∈ s.sched.filter (fun x => !(x.name = e.name)) → x ∈ s.sched ∧ x.name ≠ e.name := by
    intro x hx; simpa using hx
  have hoe := hi.own e he
  refine ⟨?_, ?_, hi.keys, hi.idLt, hi.asc, ?_, hi.unl, ?_⟩
  · simp only [snames, map_append, map_cons, map_nil]
    apply nodup_append.mpr
    refine ⟨?_, by simp, ?_⟩
    · have := snames_filter s.sched e.name
      simp only [snames] at this
      rw [this]; exact hi.names.filter _
    · intro a ha b hb; simp at hb; subst hb
      intro e'; subst e'
      simp only [mem_map] at ha
      obtain ⟨x, hx, hn⟩ := ha
      exact (hsub x hx).2 hn
  · intro x hx n hn
    rcases mem_append.mp hx with hx | hx
    · exact hi.numLt x (hsub x hx).1 n hn
    · simp at hx; subst hx; exact hi.numLt e he n hn
  · intro x hx
    rcases mem_append.mp hx with hx | hx
    · have ho := hi.own x (hsub x hx).1
      unfold Own at ho ⊢
      split at ho
      · exact ho
      · exact ho
      · trivial
    · simp at hx; subst hx
      unfold Own at hoe ⊢
      simp only [hf] at hoe ⊢
      exact hoe
  · intro k hk
    obtain ⟨x, hx, hn, hnf⟩ := hi.town k hk
    by_cases hxe : x.name = e.name
    · refine ⟨⟨t, e.name, e.fn⟩, by simp, by rw [← hxe]; exact hn, ?_⟩
      intro tag h; rw [hf] at h; cases h
    · refine ⟨x, mem_append_left _ ?_, hn, hnf⟩
      simp only [mem_filter, Bool.not_eq_true', decide_eq_false_iff_not]
      exact ⟨hx, hxe⟩

/-- no closure runs on behalf of a dead instance, none finds its table entry gone -/
def PEv.clean : PEv → Bool
  | .ranStale _ _ => false
  | .skipped _ => false
  | _ => true

theorem fire_inv (s : PState) (h : Inv s) (e : PEntry) (he : e ∈ s.sched) :
    Inv (fire { s with sched := s.sched.filter (fun x => !(x.name = e.name)) } e).1 ∧
    ∀ ev ∈ (fire { s with sched := s.sched.filter (fun x => !(x.name = e.name)) } e).2, ev.clean = true := by
  obtain ⟨hi, hp⟩ := h
  have hoe := hi.own e he
  have hpk : ∀ s' : PState, s'.pickle = s.pickle → s'.loaded = s.loaded → s'.counter = s.counter →
      (s.loaded = false → ∀ n, n ∈ snames s'.sched → n ∈ snames s.sched) → PickleInv s' := by
    intro s' a b c d
    exact hp.of_sub a b (by omega) (fun hu n hn => Or.inl (d (by rw [← b]; exact hu) n hn))
  unfold fire
  cases hf : e.fn with
  | single inst id cmd =>
    unfold Own at hoe
    simp only [hf] at hoe
    obtain ⟨o1, o2, o3, o4⟩ := hoe
    have hg := tget_of_mem hi.keys o4
    have hc : (s.loaded && decide (inst = s.inst)) = true := by simp [o1, o2]
    dsimp only
    rw [if_pos hc, hg]
    dsimp only
    have key := hi.remove_key (.id id)
    have hn : (Key.id id).toName = e.name := o3.symm
    rw [hn] at key
    refine ⟨⟨key, hp.of_loaded rfl o1⟩, ?_⟩
    intro ev hev; simp at hev; subst hev; rfl
  | repeating inst nm period cmd =>
    unfold Own at hoe
    simp only [hf] at hoe
    obtain ⟨o1, o2, o3, o4⟩ := hoe
    have hfresh : Name.str nm ∉ snames (s.sched.filter (fun x => !(x.name = e.name))) := by
      rw [snames_filter, ← o3]; simp
    have e1 : addEv { s with sched := s.sched.filter (fun x => !(x.name = e.name)) }
        (fun _ => PFn.repeating inst nm period cmd) (s.now + period) (some (.str nm))
        = ({ s with sched := s.sched.filter (fun x => !(x.name = e.name)) ++
              [⟨s.now + period, .str nm, .repeating inst nm period cmd⟩] }, some (.str nm)) := by
      simp [addEv, hfresh]
    simp only [e1]
    have key := hi.retime e he inst nm period cmd hf (s.now + period)
    rw [o3, hf] at key
    refine ⟨⟨by rw [o3]; exact key, hp.of_loaded rfl o1⟩, ?_⟩
    intro ev hev
    have hc : (s.loaded && decide (inst = s.inst)) = true := by simp [o1, o2]
    simp only [mem_singleton] at hev
    rw [if_pos hc] at hev
    subst hev; rfl
  | foreign tag =>
    refine ⟨⟨hi.drop_foreign e he tag hf, hpk _ rfl rfl rfl ?_⟩, by intro ev hev; cases hev⟩
    intro _ n hn
    rw [snames_filter] at hn
    exact (mem_filter.mp hn).1

theorem runP_inv : ∀ (picks : List Name) (s : PState) (r : PState × List PEv), Inv s → runP s picks = some r →
    Inv r.1 ∧ ∀ ev ∈ r.2, ev.clean = true
  | [], s, r, h, hr => by
    unfold runP at hr
    split at hr
    · cases hr
    · injection hr with hr; subst hr
      exact ⟨h, by intro ev hev; cases hev⟩
  | p :: ps, s, r, h, hr => by
    unfold runP at hr
    split at hr
    · cases hr
    · split at hr
      · cases hr
      · rename_i e hf
        have hmem := mem_of_find?_eq_some hf
        have hp := find?_some hf
        simp only [decide_eq_true_eq] at hp
        have hname : e.name = p := hp.1
        dsimp only at hr
        split at hr
        · cases hr
        · rename_i r2 h2
          injection hr with hr; subst hr
          have hfi := fire_inv s h e hmem
          rw [hname] at hfi
          obtain ⟨a, b⟩ := runP_inv ps _ r2 hfi.1 h2
          refine ⟨a, ?_⟩
          intro ev hev
          rcases mem_append.mp hev with hev | hev
          · exact hfi.2 ev hev
          · exact b ev hev

/-! ### die -/

def tnames (tb : Table) : List Name := (tkeys tb).map Key.toName

theorem unschedule_eq : ∀ (ks : List Key) (s : PState),
    unschedule s ks = { s with sched := s.sched.filter (fun e => !(decide (e.name ∈ ks.map Key.toName))) }
  | [], s => by
    cases s
    simp only [unschedule, map_nil, not_mem_nil, decide_false, Bool.not_false]
    congr 1
    exact (filter_eq_self.mpr (fun _ _ => rfl)).symm
  | k :: ks, s => by
    unfold unschedule removeEv
    by_cases hn : k.toName ∈ snames s.sched
    · simp only [hn, if_true]
      rw [unschedule_eq ks]
      simp only [filter_filter, map_cons, mem_cons]
      congr 1
      apply filter_congr
      intro e _
      by_cases h1 : e.name = k.toName <;> by_cases h2 : e.name ∈ map Key.toName ks <;> simp [h1, h2]
    · simp only [hn, if_false]
      rw [unschedule_eq ks]
      congr 1
      apply filter_congr
      intro e he
      have : e.name ≠ k.toName := by
        intro h; apply hn; simp only [snames, mem_map]; exact ⟨e, he, h⟩
      simp [this]

/-- the state after `die()` -/
def died (s : PState) : PState :=
  { s with sched := s.sched.filter (fun e => !(decide (e.name ∈ tnames s.table))),
           loaded := false, table := [], pickle := some s.table }

theorem die_inv (s : PState) (h : Inv s) (hl : s.loaded = true) :
    Inv (die s) ∧ (die s).loaded = false ∧ (die s).pickle = some s.table ∧ (die s).counter = s.counter ∧
    (die s).inst = s.inst ∧ (die s).now = s.now ∧ (die s).table = [] ∧
    (die s).sched = s.sched.filter (fun e => !(decide (e.name ∈ tnames s.table))) := by
  obtain ⟨hi, hp⟩ := h
  have hd : die s = died s := by
    unfold die flush died
    simp only [hl, if_true]
    rw [unschedule_eq]
    rfl
  rw [hd]
  unfold died
  refine ⟨⟨?_, ?_⟩, rfl, rfl, rfl, rfl, rfl, rfl, rfl⟩
  · have hsub : ∀ x, x ∈ s.sched.filter (fun e => !(decide (e.name ∈ tnames s.table))) →
        x ∈ s.sched ∧ x.name ∉ tnames s.table := by
      intro x hx; simpa using hx
    refine ⟨?_, ?_, (by simp [tkeys]), (by intro i r h; cases h), (by simp [ids]), ?_, fun _ => rfl,
      (by intro k hk; simp [tkeys] at hk)⟩
    · have : snames (s.sched.filter (fun e => !(decide (e.name ∈ tnames s.table))))
          = (snames s.sched).filter (fun n => !(decide (n ∈ tnames s.table))) := by
        simp [snames, filter_map, Function.comp_def]
      rw [this]; exact hi.names.filter _
    · intro x hx n hn; exact hi.numLt x (hsub x hx).1 n hn
    · intro x hx
      obtain ⟨hx1, hx2⟩ := hsub x hx
      have ho := hi.own x hx1
      unfold Own at ho ⊢
      split at ho
      · exfalso; apply hx2
        simp only [tnames, mem_map]
        exact ⟨_, mem_tkeys.mpr ⟨_, ho.2.2.2⟩, ho.2.2.1.symm⟩
      · exfalso; apply hx2
        obtain ⟨fr, hfr⟩ := ho.2.2.2
        simp only [tnames, mem_map]
        exact ⟨_, mem_tkeys.mpr ⟨_, hfr⟩, ho.2.2.1.symm⟩
      · trivial
  · intro tb htb
    injection htb with htb; subst htb
    refine ⟨hi.keys, hi.asc, fun i r hr => (hi.idLt i r hr).2, fun _ => ⟨?_, ?_⟩⟩
    · intro k hk hn
      simp only [snames, mem_map, mem_filter, Bool.not_eq_true', decide_eq_false_iff_not] at hn
      obtain ⟨e, ⟨_, he2⟩, he3⟩ := hn
      apply he2; rw [he3]; simp only [tnames, mem_map]; exact ⟨k, hk, rfl⟩
    · intro i hi'
      obtain ⟨r, hr⟩ := mem_ids.mp hi'
      exact (hi.idLt i r hr).1

/-! ### restoring the saved events -/

/-- loop invariant of `_restoreEvents`: `R` is what is still to be restored -/
structure RInv (s : PState) (R : Table) : Prop where
  pinv : PInv s
  loaded : s.loaded = true
  notSched : ∀ k ∈ tkeys R, k.toName ∉ snames s.sched
  rkeys : (tkeys R).Nodup
  rasc : (ids R).Pairwise (· < ·)
  below : ∀ i ∈ ids s.table, ∀ j ∈ ids R, i < j
  disj : ∀ k ∈ tkeys R, k ∉ tkeys s.table

/-- the entry `_restoreEvents` schedules for a saved event whose id is still below the counter -/
def entryOf (inst now : Nat) (p : Key × Rec) : PEntry :=
  match p.1 with
  | .id i => ⟨p.2.time, .num i, .single inst i p.2.cmd⟩
  | .name nm => ⟨now + nextRunIn p.2.firstRun now p.2.time, .str nm, .repeating inst nm p.2.time p.2.cmd⟩

theorem restoreOne_kept (s : PState) (i : Nat) (r : Rec) (hlt : i < s.counter)
    (hf : Name.num i ∉ snames s.sched) :
    restoreOne s (.id i) r =
      ({ s with sched := s.sched ++ [⟨r.time, .num i, .single s.inst i r.cmd⟩],
                table := tset s.table (.id i) ⟨r.time, r.cmd, 0⟩ }, []) := by
  simp [restoreOne, addEv, hlt, hf, idOf]

theorem restoreOne_new (s : PState) (i : Nat) (r : Rec) (hge : ¬ i < s.counter)
    (hf : Name.num s.counter ∉ snames s.sched) :
    restoreOne s (.id i) r =
      ({ s with counter := s.counter + 1,
                sched := s.sched ++ [⟨r.time, .num s.counter, .single s.inst s.counter r.cmd⟩],
                table := tset s.table (.id s.counter) ⟨r.time, r.cmd, 0⟩ }, []) := by
  simp [restoreOne, addEv, hge, hf, idOf]

theorem restoreOne_name (s : PState) (nm : Str) (r : Rec) (hf : Name.str nm ∉ snames s.sched) :
    restoreOne s (.name nm) r =
      ({ s with sched := s.sched ++ [⟨s.now + nextRunIn r.firstRun s.now r.time, .str nm,
                                      .repeating s.inst nm r.time r.cmd⟩],
                table := tset s.table (.name nm) ⟨r.time, r.cmd, r.firstRun⟩ }, []) := by
  simp [restoreOne, addEv, hf]

theorem restoreOne_rinv (s : PState) (k : Key) (r : Rec) (R : Table) (h : RInv s ((k, r) :: R)) :
    RInv (restoreOne s k r).1 R ∧ (restoreOne s k r).1.pickle = s.pickle ∧
    (restoreOne s k r).1.inst = s.inst ∧ (restoreOne s k r).1.now = s.now ∧ (restoreOne s k r).2 = [] := by
  obtain ⟨hi, hl, hns, hrk, hra, hbel, hdj⟩ := h
  have hrk' : k ∉ tkeys R ∧ (tkeys R).Nodup := by simpa [tkeys] using hrk
  have hkt : k ∉ tkeys s.table := hdj k (by simp [tkeys])
  have hkn : k.toName ∉ snames s.sched := hns k (by simp [tkeys])
  have hR : ∀ k' ∈ tkeys R, k' ∈ tkeys ((k, r) :: R) := by intro k' h'; simp [tkeys] at h' ⊢; exact Or.inr h'
  cases k with
  | name nm =>
    rw [restoreOne_name s nm r hkn]
    refine ⟨⟨?_, hl, ?_, hrk'.2, by simpa [ids] using hra, ?_, ?_⟩, rfl, rfl, rfl, rfl⟩
    · refine hi.add_entry hl _ (.name nm) _ s.counter (Nat.le_refl _) rfl hkn hkt ?_ (by intro t h; cases h)
        (by intro n hn; cases hn) (by intro i h; cases h)
      intro s' h1 h2 h3; exact ⟨h1, h2.symm, rfl, _, h3⟩
    · intro k' hk' hm
      simp only [snames, map_append, mem_append, map_cons, map_nil, mem_singleton] at hm
      rcases hm with hm | hm
      · exact hns k' (hR k' hk') (by simpa [snames] using hm)
      · have : k' = .name nm := toName_inj hm
        subst this; exact hrk'.1 hk'
    · intro i hi' j hj
      have : ids (tset s.table (.name nm) ⟨r.time, r.cmd, r.firstRun⟩) = ids s.table := by
        rw [tset_append _ hkt, ids_append]; simp [ids]
      rw [this] at hi'
      exact hbel i hi' j (by simpa [ids] using hj)
    · intro k' hk' hm
      rcases mem_tkeys_tset.mp hm with h | h
      · subst h; exact hrk'.1 hk'
      · exact hdj k' (hR k' hk') h
  | id i =>
    have hra' : (∀ j ∈ ids R, i < j) ∧ (ids R).Pairwise (· < ·) := by simpa [ids] using hra
    have hbel' : ∀ a ∈ ids s.table, a < i := fun a ha => hbel a ha i (by simp [ids])
    by_cases hlt : i < s.counter
    · rw [restoreOne_kept s i r hlt hkn]
      refine ⟨⟨?_, hl, ?_, hrk'.2, hra'.2, ?_, ?_⟩, rfl, rfl, rfl, rfl⟩
      · refine hi.add_entry hl _ (.id i) _ s.counter (Nat.le_refl _) rfl hkn hkt ?_ (by intro t h; cases h)
          (by intro n hn; injection hn with hn; omega) ?_
        · intro s' h1 h2 h3; exact ⟨h1, h2.symm, rfl, h3⟩
        · intro i' h'; injection h' with h'; subst h'; exact ⟨hlt, rfl, hbel'⟩
      · intro k' hk' hm
        simp only [snames, map_append, mem_append, map_cons, map_nil, mem_singleton] at hm
        rcases hm with hm | hm
        · exact hns k' (hR k' hk') (by simpa [snames] using hm)
        · have : k' = .id i := toName_inj hm
          subst this; exact hrk'.1 hk'
      · intro a ha j hj
        rw [tset_append _ hkt, ids_append] at ha
        simp only [ids, mem_append, mem_singleton] at ha
        rcases ha with ha | ha
        · exact hbel a ha j (by simp [ids, hj])
        · subst ha; exact hra'.1 j hj
      · intro k' hk' hm
        rcases mem_tkeys_tset.mp hm with h | h
        · subst h; exact hrk'.1 hk'
        · exact hdj k' (hR k' hk') h
    · have hfresh := num_fresh hi
      have hkc : Key.id s.counter ∉ tkeys s.table := by
        intro hm
        obtain ⟨r', hr'⟩ := mem_tkeys.mp hm
        exact Nat.lt_irrefl _ (hi.idLt _ r' hr').1
      have hci : s.counter ≤ i := Nat.le_of_not_lt hlt
      rw [restoreOne_new s i r hlt hfresh]
      refine ⟨⟨?_, hl, ?_, hrk'.2, hra'.2, ?_, ?_⟩, rfl, rfl, rfl, rfl⟩
      · refine hi.add_entry hl _ (.id s.counter) _ (s.counter + 1) (Nat.le_succ _) rfl hfresh hkc ?_
          (by intro t h; cases h) (by intro n hn; injection hn with hn; omega) ?_
        · intro s' h1 h2 h3; exact ⟨h1, h2.symm, rfl, h3⟩
        · intro i' h'; injection h' with h'; subst h'
          refine ⟨Nat.lt_succ_self _, rfl, ?_⟩
          intro j hj
          obtain ⟨r', hr'⟩ := mem_ids.mp hj
          exact (hi.idLt j r' hr').1
      · intro k' hk' hm
        simp only [snames, map_append, mem_append, map_cons, map_nil, mem_singleton] at hm
        rcases hm with hm | hm
        · exact hns k' (hR k' hk') (by simpa [snames] using hm)
        · have : k' = .id s.counter := toName_inj hm
          subst this
          obtain ⟨r', hr'⟩ := mem_tkeys.mp hk'
          have := hra'.1 _ (mem_ids.mpr ⟨r', hr'⟩)
          omega
      · intro a ha j hj
        rw [tset_append _ hkc, ids_append] at ha
        simp only [ids, mem_append, mem_singleton] at ha
        have hij := hra'.1 j hj
        rcases ha with ha | ha
        · have := hbel' a ha; omega
        · subst ha; omega
      · intro k' hk' hm
        rcases mem_tkeys_tset.mp hm with h | h
        · subst h
          obtain ⟨r', hr'⟩ := mem_tkeys.mp hk'
          have := hra'.1 _ (mem_ids.mpr ⟨r', hr'⟩)
          omega
        · exact hdj k' (hR k' hk') h

theorem restore_rinv : ∀ (R : Table) (s : PState), RInv s R →
    PInv (restore s R).1 ∧ (restore s R).1.loaded = true ∧ (restore s R).1.pickle = s.pickle ∧
    (restore s R).1.inst = s.inst ∧ (restore s R).1.now = s.now ∧ (restore s R).2 = []
  | [], s, h => ⟨h.pinv, h.loaded, rfl, rfl, rfl, rfl⟩
  | (k, r) :: R, s, h => by
    obtain ⟨h1, h2, h3, h4, h5⟩ := restoreOne_rinv s k r R h
    obtain ⟨a, b, c, d, e, f⟩ := restore_rinv R _ h1
    unfold restore
    dsimp only
    exact ⟨a, b, c.trans h2, d.trans h3, e.trans h4, by rw [h5, f]; rfl⟩

/-! ### load / reload / restart -/

/-- what loading needs: the plugin is not loaded, nothing of it is scheduled, the pickle is well formed -/
structure LoadPre (s : PState) : Prop where
  unloaded : s.loaded = false
  names : (snames s.sched).Nodup
  numLt : ∀ e ∈ s.sched, ∀ n, e.name = .num n → n < s.counter
  foreign : ∀ e ∈ s.sched, ∃ tag, e.fn = .foreign tag
  pickle : ∀ tb, s.pickle = some tb → (tkeys tb).Nodup ∧ (ids tb).Pairwise (· < ·) ∧
    (∀ i r, (Key.id i, r) ∈ tb → r.firstRun = 0) ∧ ∀ k ∈ tkeys tb, k.toName ∉ snames s.sched

theorem LoadPre.of_inv {s : PState} (h : Inv s) (hu : s.loaded = false) : LoadPre s := by
  obtain ⟨hi, hp⟩ := h
  refine ⟨hu, hi.names, hi.numLt, ?_, ?_⟩
  · intro e he
    have ho := hi.own e he
    unfold Own at ho
    split at ho
    · rw [hu] at ho; cases ho.1
    · rw [hu] at ho; cases ho.1
    · rename_i tag hf; exact ⟨tag, hf⟩
  · intro tb htb
    obtain ⟨a, b, c, d⟩ := hp tb htb
    exact ⟨a, b, c, (d hu).1⟩

/-- the new instance before it restores anything -/
def fresh (s : PState) : PState := { s with loaded := true, inst := s.inst + 1, table := [] }

theorem fresh_rinv {s : PState} (h : LoadPre s) : RInv (fresh s) (s.pickle.getD []) := by
  have hp : PInv (fresh s) := by
    refine ⟨h.names, h.numLt, (by simp [fresh, tkeys]), (by intro i r hm; cases hm), (by simp [fresh, ids]), ?_,
      (by intro hl; cases hl), (by intro k hk; simp [fresh, tkeys] at hk)⟩
    intro e he
    obtain ⟨tag, hf⟩ := h.foreign e he
    unfold Own; rw [hf]; trivial
  cases hpk : s.pickle with
  | none =>
    exact ⟨hp, rfl, by intro k hk; simp [tkeys] at hk, by simp [tkeys], by simp [ids],
      by intro i _ j hj; simp [ids] at hj, by intro k hk; simp [tkeys] at hk⟩
  | some tb =>
    obtain ⟨a, b, _, d⟩ := h.pickle tb hpk
    exact ⟨hp, rfl, d, a, b, by intro i hi; simp [fresh, ids] at hi, by intro k _ hk; simp [fresh, tkeys] at hk⟩

theorem load_inv (s : PState) (h : LoadPre s) :
    Inv (load s).1 ∧ (load s).1.loaded = true ∧ (load s).2.1 = [] := by
  have hr := fresh_rinv h
  obtain ⟨a, b, c, _, _, f⟩ := restore_rinv _ _ hr
  unfold load
  simp only [h.unloaded, Bool.false_eq_true, if_false]
  refine ⟨⟨a, ?_⟩, b, f⟩
  intro tb htb
  have : (restore (fresh s) (s.pickle.getD [])).1.pickle = s.pickle := c
  rw [show (restore { s with loaded := true, inst := s.inst + 1, table := [] } (s.pickle.getD [])).1.pickle
      = s.pickle from this] at htb
  obtain ⟨x, y, z, _⟩ := h.pickle tb htb
  exact ⟨x, y, z, fun hl => by
    have hb : (restore { s with loaded := true, inst := s.inst + 1, table := [] } (s.pickle.getD [])).1.loaded = true := b
    rw [hb] at hl; cases hl⟩

/-- restoring events whose ids are all below the counter re-creates exactly the saved table and
schedules exactly one entry per saved event -/
theorem restore_exact : ∀ (R : Table) (s : PState), RInv s R → (∀ i ∈ ids R, i < s.counter) →
    (∀ i r, (Key.id i, r) ∈ R → r.firstRun = 0) →
    (restore s R).1 = { s with sched := s.sched ++ R.map (entryOf s.inst s.now), table := s.table ++ R }
  | [], s, _, _, _ => by cases s; simp [restore]
  | (k, r) :: R, s, h, hlt, hfr => by
    obtain ⟨h1, _, h3, h4, _⟩ := restoreOne_rinv s k r R h
    have hkt : k ∉ tkeys s.table := h.disj k (by simp [tkeys])
    have hkn : k.toName ∉ snames s.sched := h.notSched k (by simp [tkeys])
    unfold restore
    dsimp only
    cases k with
    | name nm =>
      have e1 := restoreOne_name s nm r hkn
      rw [e1] at h1 ⊢
      have ih := restore_exact R _ h1 (fun i hi => hlt i (by simp [ids, hi]))
        (fun i r' hm => hfr i r' (mem_cons_of_mem _ hm))
      rw [ih]
      simp only [tset_append _ hkt, map_cons, entryOf, append_assoc, singleton_append]
    | id i =>
      have hi' : i < s.counter := hlt i (by simp [ids])
      have e1 := restoreOne_kept s i r hi' hkn
      rw [e1] at h1 ⊢
      have ih := restore_exact R _ h1 (fun j hj => hlt j (by simp [ids, hj]))
        (fun j r' hm => hfr j r' (mem_cons_of_mem _ hm))
      rw [ih]
      have hr0 : r.firstRun = 0 := hfr i r mem_cons_self
      have hrec : (⟨r.time, r.cmd, 0⟩ : Rec) = r := by cases r; simp at hr0; subst hr0; rfl
      simp only [tset_append _ hkt, map_cons, entryOf, append_assoc, singleton_append, hrec]

/-! ### every operation keeps the invariant -/

theorem flush_inv (s : PState) (h : Inv s) : Inv (flush s) := by
  obtain ⟨hi, hp⟩ := h
  unfold flush
  split
  · rename_i hl
    refine ⟨⟨hi.names, hi.numLt, hi.keys, hi.idLt, hi.asc, hi.own, hi.unl, hi.town⟩, ?_⟩
    intro tb htb
    injection htb with htb; subst htb
    exact ⟨hi.keys, hi.asc, fun i r hr => (hi.idLt i r hr).2, fun h' => by rw [hl] at h'; cases h'⟩
  · exact ⟨hi, hp⟩

theorem foreignAdd_inv (s : PState) (tag t : Nat) (h : Inv s) : Inv (foreignAdd s tag t).1 := by
  obtain ⟨hi, hp⟩ := h
  have hfresh := num_fresh hi
  have e1 : addEv s (fun _ => PFn.foreign tag) t none
      = ({ s with counter := s.counter + 1, sched := s.sched ++ [⟨t, .num s.counter, .foreign tag⟩] },
         some (.num s.counter)) := by simp [addEv, hfresh]
  unfold foreignAdd
  rw [e1]
  refine ⟨⟨?_, ?_, hi.keys, ?_, hi.asc, ?_, hi.unl, ?_⟩, ?_⟩
  · simp only [snames, map_append, map_cons, map_nil]
    apply nodup_append.mpr
    refine ⟨hi.names, by simp, ?_⟩
    intro a ha b hb; simp at hb; subst hb
    intro e'; subst e'; exact hfresh ha
  · intro x hx n hn
    rcases mem_append.mp hx with hx | hx
    · exact Nat.lt_succ_of_lt (hi.numLt x hx n hn)
    · simp at hx; subst hx; injection hn with hn
      show n < s.counter + 1
      omega
  · intro i r hr
    obtain ⟨a, b⟩ := hi.idLt i r hr
    exact ⟨Nat.lt_succ_of_lt a, b⟩
  · intro x hx
    rcases mem_append.mp hx with hx | hx
    · have ho := hi.own x hx
      unfold Own at ho ⊢
      split at ho
      · exact ho
      · exact ho
      · trivial
    · simp at hx; subst hx; unfold Own; trivial
  · intro k hk
    obtain ⟨x, hx, a, b⟩ := hi.town k hk
    exact ⟨x, mem_append_left _ hx, a, b⟩
  · refine hp.of_sub rfl rfl (Nat.le_succ _) ?_
    intro _ n hn
    simp only [snames, map_append, mem_append, map_cons, map_nil, mem_singleton] at hn
    rcases hn with hn | hn
    · exact Or.inl (by simpa [snames] using hn)
    · exact Or.inr ⟨s.counter, hn, Nat.le_refl _⟩

theorem unload_inv (s : PState) (h : Inv s) : Inv (unload s).1 := by
  unfold unload
  split
  · exact h
  · rename_i hl
    exact (die_inv s h (by simpa using hl)).1

theorem load_op_inv (s : PState) (h : Inv s) : Inv (load s).1 := by
  cases hl : s.loaded
  · exact (load_inv s (LoadPre.of_inv h hl)).1
  · unfold load; simp only [hl, if_true]; exact h

theorem reload_inv (s : PState) (h : Inv s) : Inv (reload s).1 := by
  unfold reload
  split
  · exact h
  · rename_i hl
    obtain ⟨a, b, _⟩ := die_inv s h (by simpa using hl)
    exact (load_inv _ (LoadPre.of_inv a b)).1

theorem restart_inv (s : PState) (h : Inv s) : Inv (restart s).1 := by
  unfold restart
  have key : ∀ s1 : PState, Inv s1 → s1.loaded = false →
      Inv (load { s1 with sched := [], counter := 0 }).1 := by
    intro s1 h1 hu
    apply (load_inv _ _).1
    refine ⟨hu, (by simp [snames]), (by intro e he; cases he), (by intro e he; cases he), ?_⟩
    intro tb htb
    obtain ⟨a, b, c, _⟩ := h1.2 tb htb
    exact ⟨a, b, c, (by intro k _ hk; simp [snames] at hk)⟩
  cases hl : s.loaded
  · simp only [Bool.false_eq_true, if_false]
    exact key s h hl
  · simp only [if_true]
    obtain ⟨a, b, _⟩ := die_inv s h hl
    exact key _ a b

theorem pstep_inv (s : PState) (op : POp) (r : PRes) (h : Inv s) (hr : pstep s op = some r) :
    Inv r.1 ∧ ∀ ev ∈ r.2.1, ev.clean = true := by
  have plain : ∀ evs : List PEv, (∀ ev ∈ evs, ∀ c t, ev ≠ .ranStale c t) → (∀ ev ∈ evs, ∀ c, ev ≠ .skipped c) →
      ∀ ev ∈ evs, ev.clean = true := by
    intro evs h1 h2 ev hev
    cases ev with
    | ranStale c t => exact absurd rfl (h1 _ hev c t)
    | skipped c => exact absurd rfl (h2 _ hev c)
    | _ => rfl
  cases op with
  | add sec cmd =>
    injection hr with hr; subst hr
    refine ⟨cmdAdd_inv s sec cmd h, ?_⟩
    intro ev hev
    unfold cmdAdd at hev
    split at hev
    · cases hev
    · split at hev
      · cases hev
      · simp at hev; subst hev; rfl
  | remove k =>
    injection hr with hr; subst hr
    refine ⟨cmdRemove_inv s k h, ?_⟩
    intro ev hev
    unfold cmdRemove at hev
    split at hev
    · cases hev
    · split at hev
      · cases hev
      · dsimp only at hev
        split at hev <;> (simp at hev; subst hev; rfl)
  | repeat_ nm p c d =>
    injection hr with hr; subst hr
    refine ⟨cmdRepeat_inv s nm p c d h, ?_⟩
    intro ev hev
    unfold cmdRepeat at hev
    split at hev
    · cases hev
    · split at hev
      · cases hev
      · split at hev
        · cases hev
        · simp at hev; subst hev; rfl
  | list =>
    injection hr with hr; subst hr
    unfold cmdList
    split <;> exact ⟨h, by intro ev hev; cases hev⟩
  | flush => injection hr with hr; subst hr; exact ⟨flush_inv s h, by intro ev hev; cases hev⟩
  | load =>
    injection hr with hr; subst hr
    refine ⟨load_op_inv s h, ?_⟩
    cases hl : s.loaded
    · rw [(load_inv s (LoadPre.of_inv h hl)).2.2]; intro ev hev; cases hev
    · unfold load; simp only [hl, if_true]; intro ev hev; cases hev
  | unload =>
    injection hr with hr; subst hr
    refine ⟨unload_inv s h, ?_⟩
    unfold unload; split <;> (intro ev hev; cases hev)
  | reload =>
    injection hr with hr; subst hr
    refine ⟨reload_inv s h, ?_⟩
    unfold reload
    split
    · intro ev hev; cases hev
    · rename_i hl
      obtain ⟨a, b, _⟩ := die_inv s h (by simpa using hl)
      rw [(load_inv _ (LoadPre.of_inv a b)).2.2]; intro ev hev; cases hev
  | restart =>
    injection hr with hr; subst hr
    refine ⟨restart_inv s h, ?_⟩
    have key : ∀ s1 : PState, Inv s1 → s1.loaded = false →
        (load { s1 with sched := [], counter := 0 }).2.1 = [] := by
      intro s1 h1 hu
      apply (load_inv _ _).2.2
      refine ⟨hu, (by simp [snames]), (by intro e he; cases he), (by intro e he; cases he), ?_⟩
      intro tb htb
      obtain ⟨a, b, c, _⟩ := h1.2 tb htb
      exact ⟨a, b, c, (by intro k _ hk; simp [snames] at hk)⟩
    unfold restart
    cases hl : s.loaded
    · simp only [Bool.false_eq_true, if_false]
      rw [key s h hl]; intro ev hev; cases hev
    · simp only [if_true]
      obtain ⟨a, b, _⟩ := die_inv s h hl
      rw [key _ a b]; intro ev hev; cases hev
  | foreign tag t =>
    injection hr with hr; subst hr
    exact ⟨foreignAdd_inv s tag t h, by intro ev hev; cases hev⟩
  | tick dt =>
    injection hr with hr; subst hr
    obtain ⟨hi, hp⟩ := h
    refine ⟨⟨⟨hi.names, hi.numLt, hi.keys, hi.idLt, hi.asc, ?_, hi.unl, hi.town⟩,
      hp.of_sub rfl rfl (Nat.le_refl _) (fun _ n hn => Or.inl hn)⟩, by intro ev hev; cases hev⟩
    intro e he
    have ho := hi.own e he
    unfold Own at ho ⊢
    split at ho
    · exact ho
    · exact ho
    · trivial
  | run picks =>
    simp only [pstep, Option.map_eq_some_iff] at hr
    obtain ⟨r2, h2, e2⟩ := hr
    subst e2
    exact runP_inv picks s r2 h h2

theorem prun_inv : ∀ (ops : List POp) (s : PState) (r : PState × List PEv), Inv s → prun s ops = some r →
    Inv r.1 ∧ ∀ ev ∈ r.2, ev.clean = true
  | [], s, r, h, hr => by
    injection hr with hr; subst hr; exact ⟨h, by intro ev hev; cases hev⟩
  | op :: ops, s, r, h, hr => by
    unfold prun at hr
    split at hr
    · cases hr
    · rename_i r1 h1
      split at hr
      · cases hr
      · rename_i r2 h2
        injection hr with hr; subst hr
        obtain ⟨a1, b1⟩ := pstep_inv s op r1 h h1
        obtain ⟨a2, b2⟩ := prun_inv ops r1.1 r2 a1 h2
        refine ⟨a2, ?_⟩
        intro ev hev
        rcases mem_append.mp hev with hev | hev
        · exact b1 ev hev
        · exact b2 ev hev

theorem pinit_inv (now : Nat) : Inv (pinit now) := by
  refine ⟨⟨(by simp [pinit, snames]), (by intro e he; cases he), (by simp [pinit, tkeys]),
    (by intro i r h; cases h), (by simp [pinit, ids]), (by intro e he; cases he), (by intro h; cases h),
    (by intro k hk; simp [pinit, tkeys] at hk)⟩, ?_⟩
  intro tb htb; cases htb

/-! ### reload, exactly -/

/-- the state after `reload Scheduler`: same table, same counter, a new instance; the schedule keeps
the other plugins' entries and has exactly one new entry per saved event -/
def reloaded (s : PState) : PState :=
  { s with inst := s.inst + 1, pickle := some s.table,
           sched := s.sched.filter (fun e => !(decide (e.name ∈ tnames s.table))) ++
             s.table.map (entryOf (s.inst + 1) s.now) }

theorem reload_exact (s : PState) (h : Inv s) (hl : s.loaded = true) : (reload s).1 = reloaded s := by
  obtain ⟨a, b, c, d, e, f, g, hs⟩ := die_inv s h hl
  have hpre := LoadPre.of_inv a b
  have hr := fresh_rinv hpre
  rw [c] at hr
  have hx := restore_exact s.table (fresh (die s)) hr
    (by intro i hi; obtain ⟨r, hr'⟩ := mem_ids.mp hi; show i < (die s).counter; rw [d]; exact (h.1.idLt i r hr').1)
    (fun i r hr' => (h.1.idLt i r hr').2)
  have hnl : ¬ (!s.loaded) = true := by simp [hl]
  have hnb : ¬ (die s).loaded = true := by simp [b]
  unfold reload
  rw [if_neg hnl]
  unfold load
  rw [if_neg hnb]
  dsimp only
  have hg : (die s).pickle.getD [] = s.table := by rw [c]; rfl
  rw [hg]
  change (restore (fresh (die s)) s.table).1 = _
  rw [hx]
  unfold reloaded
  simp only [fresh, hs, d, e, f, c, nil_append]
  cases s; simp_all

theorem pentry_filter_unique : ∀ (l : List PEntry), (snames l).Nodup → ∀ e ∈ l,
    l.filter (fun x => decide (x.name = e.name)) = [e]
  | [], _, _, he => by cases he
  | x :: xs, hn, e, he => by
    simp only [snames, map_cons, nodup_cons] at hn
    rcases mem_cons.mp he with he | he
    · subst he
      have : xs.filter (fun y => decide (y.name = e.name)) = [] := by
        apply filter_eq_nil_iff.mpr
        intro y hy
        simp only [decide_eq_true_eq]
        intro h
        exact hn.1 (by simp only [mem_map]; exact ⟨y, hy, h⟩)
      simp [this]
    · have hne : ¬ x.name = e.name := by
        intro h
        exact hn.1 (by simp only [mem_map]; exact ⟨e, he, h.symm⟩)
      simp only [filter_cons, hne, decide_false, Bool.false_eq_true, if_false]
      exact pentry_filter_unique xs hn.2 e he

theorem entryOf_name (inst now : Nat) (p : Key × Rec) : (entryOf inst now p).name = p.1.toName := by
  obtain ⟨k, r⟩ := p; cases k <;> rfl

end C18.Plug
