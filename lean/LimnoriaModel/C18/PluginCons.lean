/-
C18 — the whole-history law of the Scheduler plugin layer: one-shot commands added =
ran + removed + pending (helper lemmas).
-/
import LimnoriaModel.C18.PluginLemmas
namespace C18.Plug
open Py List

/-- the commands of the one-shot entries of a table -/
def singles : Table → List Nat
  | [] => []
  | (.id _, r) :: tb => r.cmd :: singles tb
  | (.name _, _) :: tb => singles tb

theorem singles_append (a b : Table) : singles (a ++ b) = singles a ++ singles b := by
  induction a with
  | nil => rfl
  | cons p a ih => obtain ⟨k, r⟩ := p; cases k <;> simp [singles, ih]

/-- what is still to run: the live table, or the saved one while the plugin is not loaded -/
def pendingCmds (s : PState) : List Nat :=
  if s.loaded then singles s.table else singles (s.pickle.getD [])

def addedCmds : List PEv → List Nat
  | [] => []
  | .added (.id _) c :: r => c :: addedCmds r
  | _ :: r => addedCmds r

def ranCmds : List PEv → List Nat
  | [] => []
  | .ran (.id _) c _ :: r => c :: ranCmds r
  | _ :: r => ranCmds r

def removedCmds : List PEv → List Nat
  | [] => []
  | .removed (.id _) c :: r => c :: removedCmds r
  | _ :: r => removedCmds r

theorem addedCmds_append (a b : List PEv) : addedCmds (a ++ b) = addedCmds a ++ addedCmds b := by
  induction a with
  | nil => rfl
  | cons e r ih =>
    cases e with
    | added k c => cases k <;> simp [addedCmds, ih]
    | _ => simp [addedCmds, ih]

theorem ranCmds_append (a b : List PEv) : ranCmds (a ++ b) = ranCmds a ++ ranCmds b := by
  induction a with
  | nil => rfl
  | cons e r ih =>
    cases e with
    | ran k c t => cases k <;> simp [ranCmds, ih]
    | _ => simp [ranCmds, ih]

theorem removedCmds_append (a b : List PEv) : removedCmds (a ++ b) = removedCmds a ++ removedCmds b := by
  induction a with
  | nil => rfl
  | cons e r ih =>
    cases e with
    | removed k c => cases k <;> simp [removedCmds, ih]
    | _ => simp [removedCmds, ih]

/-- `count x [c]`, opaque for `omega` -/
def one1 (x c : Nat) : Nat := count x [c]

theorem count_cons_one1 (x c : Nat) (l : List Nat) : count x (c :: l) = one1 x c + count x l := by
  simp [one1, count_cons]; omega

/-- the books of one step balance -/
def Bal (s s' : PState) (evs : List PEv) : Prop :=
  ∀ x, count x (pendingCmds s) + count x (addedCmds evs)
      = count x (ranCmds evs) + count x (removedCmds evs) + count x (pendingCmds s')

theorem Bal.refl (s : PState) : Bal s s [] := by intro x; simp [addedCmds, ranCmds, removedCmds]

theorem Bal.trans {s s1 s2 : PState} {e1 e2 : List PEv} (h1 : Bal s s1 e1) (h2 : Bal s1 s2 e2) :
    Bal s s2 (e1 ++ e2) := by
  intro x
  have a := h1 x; have b := h2 x
  simp only [addedCmds_append, ranCmds_append, removedCmds_append, count_append] at *
  omega

theorem Bal.of_pending {s s' : PState} (h : pendingCmds s' = pendingCmds s) : Bal s s' [] := by
  intro x; rw [h]; simp [addedCmds, ranCmds, removedCmds]

/-- what an entry contributes to the one-shot commands -/
def kcost (x : Nat) : Key → Rec → Nat
  | .id _, r => one1 x r.cmd
  | .name _, _ => 0

/-- deleting a key from a table with distinct keys -/
theorem singles_tdel {tb : Table} (hn : (tkeys tb).Nodup) {k : Key} {r : Rec} (hm : (k, r) ∈ tb) (x : Nat) :
    count x (singles tb) = count x (singles (tdel tb k)) + kcost x k r := by
  induction tb with
  | nil => cases hm
  | cons p tb ih =>
    obtain ⟨k', r'⟩ := p
    simp only [tkeys, map_cons, nodup_cons] at hn
    by_cases hk : k' = k
    · subst hk
      have hr : r' = r := by
        rcases mem_cons.mp hm with h | h
        · injection h with _ h; exact h.symm
        · exact absurd (mem_tkeys.mpr ⟨r, h⟩) hn.1
      subst hr
      have hdel : tdel ((k', r') :: tb) k' = tb := by
        simp only [tdel, filter_cons, decide_true, Bool.not_true, Bool.false_eq_true, if_false]
        apply filter_eq_self.mpr
        intro q hq
        simp only [Bool.not_eq_true', decide_eq_false_iff_not]
        intro e; apply hn.1; rw [← e]; exact mem_tkeys.mpr ⟨q.2, hq⟩
      rw [hdel]
      cases k' with
      | id i => simp only [singles, count_cons_one1, kcost]; omega
      | name nm => simp only [singles, kcost]; omega
    · have hm' : (k, r) ∈ tb := by
        rcases mem_cons.mp hm with h | h
        · injection h with h _; exact absurd h.symm hk
        · exact h
      have hdel : tdel ((k', r') :: tb) k = (k', r') :: tdel tb k := by simp [tdel, hk]
      rw [hdel]
      have := ih hn.2 hm'
      cases k' with
      | id i => simp only [singles, count_cons_one1]; omega
      | name nm => simpa only [singles] using this

macro "pcnt" : tactic =>
  `(tactic| (simp only [addedCmds, ranCmds, removedCmds, singles, singles_append, count_append,
      count_cons_one1, count_nil, kcost] at * <;> omega))

theorem cmdAdd_bal (s : PState) (sec cmd : Nat) (h : Inv s) :
    Bal s (cmdAdd s sec cmd).1 (cmdAdd s sec cmd).2.1 := by
  obtain ⟨hi, _⟩ := h
  unfold cmdAdd
  split
  · exact Bal.refl s
  · rename_i hl
    have hl' : s.loaded = true := by simpa using hl
    have e1 : addEv s (fun nm => PFn.single s.inst (idOf nm) cmd) (s.now + sec) none
        = ({ s with counter := s.counter + 1,
                    sched := s.sched ++ [⟨s.now + sec, .num s.counter, .single s.inst s.counter cmd⟩] },
           some (.num s.counter)) := by simp [addEv, num_fresh hi, idOf]
    rw [e1]
    have hk : Key.id s.counter ∉ tkeys s.table := by
      intro hm
      obtain ⟨r, hr⟩ := mem_tkeys.mp hm
      exact Nat.lt_irrefl _ (hi.idLt _ r hr).1
    intro x
    simp only [pendingCmds, hl', if_true, idOf, tset_append _ hk]
    pcnt

theorem cmdRemove_bal (s : PState) (k : Key) (h : Inv s) :
    Bal s (cmdRemove s k).1 (cmdRemove s k).2.1 := by
  obtain ⟨hi, _⟩ := h
  unfold cmdRemove
  split
  · exact Bal.refl s
  · rename_i hl
    have hl' : s.loaded = true := by simpa using hl
    split
    · exact Bal.refl s
    · rename_i r hg
      have hm := tget_some hg
      have hd := singles_tdel hi.keys hm
      have key : ∀ s2 : PState, s2.loaded = true → s2.table = tdel s.table k →
          Bal s s2 [PEv.removed k r.cmd] := by
        intro s2 a b x
        have := hd x
        simp only [pendingCmds, hl', a, b, if_true]
        cases k <;> pcnt
      by_cases hn : k.toName ∈ snames s.sched
      · have e : removeEv { s with table := tdel s.table k } k.toName
            = some { s with sched := s.sched.filter (fun e => !(e.name = k.toName)), table := tdel s.table k } := by
          simp [removeEv, hn]
        simp only [e]
        exact key _ hl' rfl
      · have e : removeEv { s with table := tdel s.table k } k.toName = none := by simp [removeEv, hn]
        simp only [e]
        exact key _ hl' rfl

theorem cmdRepeat_bal (s : PState) (nm : Str) (period cmd delay : Nat) (h : Inv s) :
    Bal s (cmdRepeat s nm period cmd delay).1 (cmdRepeat s nm period cmd delay).2.1 := by
  unfold cmdRepeat
  split
  · exact Bal.refl s
  · rename_i hl
    have hl' : s.loaded = true := by simpa using hl
    split
    · exact Bal.refl s
    · rename_i hg
      have hk := tget_none hg
      by_cases hfresh : Name.str nm ∈ snames s.sched
      · have e : addEv s (fun _ => PFn.repeating s.inst nm period cmd) (s.now + delay) (some (.str nm))
            = (s, none) := by simp [addEv, hfresh]
        simp only [e]; exact Bal.refl s
      · have e : addEv s (fun _ => PFn.repeating s.inst nm period cmd) (s.now + delay) (some (.str nm))
            = ({ s with sched := s.sched ++ [⟨s.now + delay, .str nm, .repeating s.inst nm period cmd⟩] },
               some (.str nm)) := by simp [addEv, hfresh]
        simp only [e]
        intro x
        simp only [pendingCmds, hl', if_true, tset_append _ hk]
        pcnt

theorem fire_bal (s : PState) (h : Inv s) (e : PEntry) (he : e ∈ s.sched) :
    Bal s (fire { s with sched := s.sched.filter (fun x => !(x.name = e.name)) } e).1
      (fire { s with sched := s.sched.filter (fun x => !(x.name = e.name)) } e).2 := by
  obtain ⟨hi, _⟩ := h
  have hoe := hi.own e he
  unfold fire
  cases hf : e.fn with
  | single inst id cmd =>
    unfold Own at hoe
    simp only [hf] at hoe
    obtain ⟨o1, o2, o3, o4⟩ := hoe
    have hg := tget_of_mem hi.keys o4
    have hc : (s.loaded && decide (inst = s.inst)) = true := by simp [o1, o2]
    dsimp only
    rw [if_pos hc, hg]
    dsimp only
    intro x
    have := singles_tdel hi.keys o4 x
    simp only [pendingCmds, o1, if_true]
    pcnt
  | repeating inst nm period cmd =>
    unfold Own at hoe
    simp only [hf] at hoe
    obtain ⟨o1, o2, o3, o4⟩ := hoe
    have hfresh : Name.str nm ∉ snames (s.sched.filter (fun x => !(x.name = e.name))) := by
      rw [snames_filter, ← o3]; simp
    have e1 : addEv { s with sched := s.sched.filter (fun x => !(x.name = e.name)) }
        (fun _ => PFn.repeating inst nm period cmd) (s.now + period) (some (.str nm))
        = ({ s with sched := s.sched.filter (fun x => !(x.name = e.name)) ++
              [⟨s.now + period, .str nm, .repeating inst nm period cmd⟩] }, some (.str nm)) := by
      simp [addEv, hfresh]
    simp only [e1]
    have hc : (s.loaded && decide (inst = s.inst)) = true := by simp [o1, o2]
    rw [if_pos hc]
    intro x
    simp only [pendingCmds]
    pcnt
  | foreign tag => intro x; simp only [pendingCmds]; pcnt

theorem runP_bal : ∀ (picks : List Name) (s : PState) (r : PState × List PEv), Inv s → runP s picks = some r →
    Bal s r.1 r.2
  | [], s, r, _, hr => by
    unfold runP at hr
    split at hr
    · cases hr
    · injection hr with hr; subst hr; exact Bal.refl s
  | p :: ps, s, r, h, hr => by
    unfold runP at hr
    split at hr
    · cases hr
    · split at hr
      · cases hr
      · rename_i e hf
        have hmem := mem_of_find?_eq_some hf
        have hp := find?_some hf
        simp only [decide_eq_true_eq] at hp
        have hname : e.name = p := hp.1
        dsimp only at hr
        split at hr
        · cases hr
        · rename_i r2 h2
          injection hr with hr; subst hr
          have hfi := fire_inv s h e hmem
          have hfb := fire_bal s h e hmem
          rw [hname] at hfi hfb
          exact Bal.trans hfb (runP_bal ps _ r2 hfi.1 h2)

/-- restoring appends one table entry, with the saved command, per saved event -/
theorem restore_singles : ∀ (R : Table) (s : PState), RInv s R → ∀ x,
    count x (singles (restore s R).1.table) = count x (singles s.table) + count x (singles R)
  | [], s, _, x => by simp [restore, singles]
  | (k, r) :: R, s, h, x => by
    obtain ⟨h1, _⟩ := restoreOne_rinv s k r R h
    have ih := restore_singles R _ h1 x
    have hkt : k ∉ tkeys s.table := h.disj k (by simp [tkeys])
    have hkn : k.toName ∉ snames s.sched := h.notSched k (by simp [tkeys])
    unfold restore
    dsimp only
    rw [ih]
    cases k with
    | name nm =>
      rw [restoreOne_name s nm r hkn]
      simp only [tset_append _ hkt]
      pcnt
    | id i =>
      by_cases hlt : i < s.counter
      · rw [restoreOne_kept s i r hlt hkn]
        simp only [tset_append _ hkt]
        pcnt
      · have hkc : Key.id s.counter ∉ tkeys s.table := by
          intro hm
          obtain ⟨r', hr'⟩ := mem_tkeys.mp hm
          exact Nat.lt_irrefl _ (h.pinv.idLt _ r' hr').1
        rw [restoreOne_new s i r hlt (num_fresh h.pinv)]
        simp only [tset_append _ hkc]
        pcnt

theorem load_bal (s : PState) (h : LoadPre s) : Bal s (load s).1 (load s).2.1 := by
  have hr := fresh_rinv h
  obtain ⟨_, b, _, _, _, f⟩ := restore_rinv _ _ hr
  have hs := restore_singles _ _ hr
  unfold load
  simp only [h.unloaded, Bool.false_eq_true, if_false]
  intro x
  have hx := hs x
  have hb : (restore { s with loaded := true, inst := s.inst + 1, table := [] } (s.pickle.getD [])).1.loaded = true := b
  have hf : (restore { s with loaded := true, inst := s.inst + 1, table := [] } (s.pickle.getD [])).2 = [] := f
  have hx' : count x (singles (restore { s with loaded := true, inst := s.inst + 1, table := [] }
      (s.pickle.getD [])).1.table) = count x (singles ([] : Table)) + count x (singles (s.pickle.getD [])) := hx
  simp only [pendingCmds, h.unloaded, hb, hf, if_true, Bool.false_eq_true, if_false]
  rw [hx']
  pcnt

theorem die_bal (s : PState) (h : Inv s) (hl : s.loaded = true) : Bal s (die s) [] := by
  obtain ⟨_, b, c, _⟩ := die_inv s h hl
  apply Bal.of_pending
  simp only [pendingCmds, b, c, hl, if_true, Bool.false_eq_true, if_false, Option.getD_some]

theorem pstep_bal (s : PState) (op : POp) (r : PRes) (h : Inv s) (hr : pstep s op = some r) :
    Bal s r.1 r.2.1 := by
  cases op with
  | add sec cmd => injection hr with hr; subst hr; exact cmdAdd_bal s sec cmd h
  | remove k => injection hr with hr; subst hr; exact cmdRemove_bal s k h
  | repeat_ nm p c d => injection hr with hr; subst hr; exact cmdRepeat_bal s nm p c d h
  | list =>
    injection hr with hr; subst hr
    unfold cmdList; split <;> exact Bal.refl s
  | flush =>
    injection hr with hr; subst hr
    apply Bal.of_pending
    unfold flush
    cases hl : s.loaded <;> simp [pendingCmds, hl]
  | load =>
    injection hr with hr; subst hr
    cases hl : s.loaded
    · exact load_bal s (LoadPre.of_inv h hl)
    · unfold load; simp only [hl, if_true]; exact Bal.refl s
  | unload =>
    injection hr with hr; subst hr
    unfold unload
    cases hl : s.loaded
    · simp only [Bool.not_false, if_true]; exact Bal.refl s
    · simp only [Bool.not_true, Bool.false_eq_true, if_false]; exact die_bal s h hl
  | reload =>
    injection hr with hr; subst hr
    unfold reload
    cases hl : s.loaded
    · simp only [Bool.not_false, if_true]; exact Bal.refl s
    · simp only [Bool.not_true, Bool.false_eq_true, if_false]
      obtain ⟨a, b, _⟩ := die_inv s h hl
      have := Bal.trans (die_bal s h hl) (load_bal _ (LoadPre.of_inv a b))
      simpa using this
  | restart =>
    injection hr with hr; subst hr
    have key : ∀ s1 : PState, Inv s1 → s1.loaded = false →
        Bal s1 (load { s1 with sched := [], counter := 0 }).1 (load { s1 with sched := [], counter := 0 }).2.1 := by
      intro s1 h1 hu
      have hpre : LoadPre { s1 with sched := [], counter := 0 } := by
        refine ⟨hu, (by simp [snames]), (by intro e he; cases he), (by intro e he; cases he), ?_⟩
        intro tb htb
        obtain ⟨a, b, c, _⟩ := h1.2 tb htb
        exact ⟨a, b, c, (by intro k _ hk; simp [snames] at hk)⟩
      have := load_bal _ hpre
      intro x
      have hx := this x
      simp only [pendingCmds, hu, Bool.false_eq_true, if_false] at hx ⊢
      exact hx
    unfold restart
    cases hl : s.loaded
    · simp only [Bool.false_eq_true, if_false]; exact key s h hl
    · simp only [if_true]
      obtain ⟨a, b, _⟩ := die_inv s h hl
      have := Bal.trans (die_bal s h hl) (key _ a b)
      simpa using this
  | foreign tag t =>
    injection hr with hr; subst hr
    apply Bal.of_pending
    unfold foreignAdd addEv
    dsimp only
    split <;> rfl
  | tick dt => injection hr with hr; subst hr; exact Bal.of_pending rfl
  | run picks =>
    simp only [pstep, Option.map_eq_some_iff] at hr
    obtain ⟨r2, h2, e2⟩ := hr
    subst e2
    exact runP_bal picks s r2 h h2

theorem prun_bal : ∀ (ops : List POp) (s : PState) (r : PState × List PEv), Inv s → prun s ops = some r →
    Bal s r.1 r.2
  | [], s, r, _, hr => by injection hr with hr; subst hr; exact Bal.refl s
  | op :: ops, s, r, h, hr => by
    unfold prun at hr
    split at hr
    · cases hr
    · rename_i r1 h1
      split at hr
      · cases hr
      · rename_i r2 h2
        injection hr with hr; subst hr
        exact Bal.trans (pstep_bal s op r1 h h1) (prun_bal ops r1.1 r2 (pstep_inv s op r1 h h1).1 h2)

end C18.Plug
