/-
C18 — helper lemmas about `run()`: nothing fires early, nothing due is left, the clock is not
touched, what the events of a call are.
-/
import LimnoriaModel.C18.Fresh
namespace C18
open Py List

def Ev.isFired : Ev → Bool
  | .fired _ _ _ _ _ => true
  | _ => false

/-! ### the scheduler calls never move the clock and never emit `fired` -/

theorem addEvent_now (s : Sched) (f : FnRef) (t : Nat) (name : Option Name) (args : Args) (rid : Option Nat) :
    (addEvent s f t name args rid).1.1.now = s.now ∧
    ∀ e ∈ (addEvent s f t name args rid).1.2.1, e.isFired = false := by
  cases name <;> cases rid <;> (unfold addEvent; dsimp only; split) <;>
    exact ⟨rfl, by intro e he; simp at he; subst he; rfl⟩

theorem removeOp_now (s : Sched) (n : Name) :
    (removeOp s n).1.now = s.now ∧ ∀ e ∈ (removeOp s n).2.1, e.isFired = false := by
  unfold removeOp removeEvent
  split
  · exact ⟨rfl, by intro e he; simp at he; subst he; rfl⟩
  · rename_i s1 f gone h
    split at h
    · cases h
    · injection h with h1 h2; injection h2 with h2 h3
      subst h1 h3
      refine ⟨rfl, ?_⟩
      intro e he
      simp only [mem_map] at he
      obtain ⟨g, _, rfl⟩ := he; rfl

theorem reschedOp_now (s : Sched) (n : Name) (t : Nat) :
    (reschedOp s n t).1.now = s.now ∧ ∀ e ∈ (reschedOp s n t).2.1, e.isFired = false := by
  unfold reschedOp removeEvent
  split
  · exact ⟨rfl, by intro e he; simp at he; subst he; rfl⟩
  · rename_i s1 f gone h
    split at h
    · cases h
    · rename_i f' d hp
      injection h with h1 h2; injection h2 with h2 h3
      subst h1 h3
      split
      · rename_i e hl
        have := addEvent_now { s with events := d, sched := s.sched.filter fun e => !(e.name = n) }
          f t (some n) e.args (some e.rid)
        refine ⟨this.1, ?_⟩
        intro x hx
        rcases mem_append.mp hx with hx | hx
        · simp only [mem_map] at hx
          obtain ⟨g, _, rfl⟩ := hx; rfl
        · exact this.2 x hx
      · have := addEvent_now { s with events := d, sched := s.sched.filter fun e => !(e.name = n) }
          f t (some n) [] none
        exact ⟨this.1, this.2⟩

theorem execAct_now (s : Sched) (a : Act) :
    (execAct s a).1.now = s.now ∧ ∀ e ∈ (execAct s a).2.1, e.isFired = false := by
  cases a with
  | add fn t name args => exact addEvent_now _ _ _ _ _ _
  | remove n => exact removeOp_now s n
  | resched n t => exact reschedOp_now s n _
  | addPeriodic fn period name args count => exact addEvent_now _ _ _ _ _ _
  | raise => exact ⟨rfl, by intro e he; simp [execAct] at he; subst he; rfl⟩

theorem execActs_now : ∀ (acts : List Act) (s : Sched),
    (execActs s acts).1.now = s.now ∧ ∀ e ∈ (execActs s acts).2.1, e.isFired = false
  | [], s => ⟨rfl, by intro e he; cases he⟩
  | a :: rest, s => by
    unfold execActs
    have h1 := execAct_now s a
    split
    · rename_i s1 ev e h; rw [h] at h1; exact h1
    · rename_i s1 ev h; rw [h] at h1
      have h2 := execActs_now rest s1
      refine ⟨by rw [h2.1, h1.1], ?_⟩
      intro e he
      rcases mem_append.mp he with he | he
      · exact h1.2 e he
      · exact h2.2 e he

/-- a call emits exactly one `fired` event, its first, for the registration it was made for -/
theorem call_events (P : Prog) (s : Sched) (f : FnRef) (rid : Option Nat) (due : Nat) (args : Args) :
    (call P s f rid due args).1.now = s.now ∧
    ∃ fn a rest, (call P s f rid due args).2.1 = Ev.fired rid due s.now fn a :: rest ∧
      (∀ e ∈ rest, e.isFired = false) ∧
      ((f = .plain fn ∧ a = args) ∨ ∃ p n c, f = .wrapper fn p n a c) := by
  unfold call
  cases f with
  | plain fn =>
    have := execActs_now (body P fn) s
    exact ⟨this.1, fn, args, _, rfl, this.2, Or.inl ⟨rfl, rfl⟩⟩
  | wrapper fn period name wargs count =>
    have h1 := execActs_now (body P fn) s
    dsimp only
    split
    all_goals first
      | (have h2 := addEvent_now (execActs s (body P fn)).1
            (.wrapper fn period name wargs (count.map (· - 1))) ((execActs s (body P fn)).1.now + period) name [] none
         refine ⟨by rw [h2.1, h1.1], fn, wargs, _, rfl, ?_, Or.inr ⟨_, _, _, rfl⟩⟩
         intro e he
         rcases mem_append.mp he with he | he
         · exact h1.2 e he
         · exact h2.2 e he)
      | exact ⟨h1.1, fn, wargs, _, rfl, h1.2, Or.inr ⟨_, _, _, rfl⟩⟩

/-! ### run -/

theorem loopCond_false {s : Sched} (h : loopCond s = false) : ∀ e ∈ s.sched, s.now ≤ e.t := by
  intro e he
  unfold loopCond at h
  split at h
  · rename_i hn
    rw [(minDue_none_iff _).mp hn] at he; cases he
  · rename_i m hm
    have := minDue_le _ m hm e he
    simp only [decide_eq_false_iff_not, Nat.not_lt] at h
    omega

/-- **nothing fires before its due time has passed; when the loop ends nothing due is left** -/
theorem runPicks_times (P : Prog) : ∀ (picks : List Name) (s s' : Sched) (evs : List Ev),
    runPicks P s picks = .ok s' evs →
    s'.now = s.now ∧ (∀ e ∈ s'.sched, s.now ≤ e.t) ∧
    (∀ rid due now fn a, Ev.fired rid due now fn a ∈ evs → due < now ∧ now = s.now ∧ rid ≠ none)
  | [], s, s', evs, h => by
    unfold runPicks at h
    split at h
    · cases h
    · rename_i hl
      injection h with h1 h2; subst h1 h2
      exact ⟨rfl, loopCond_false (by simpa using hl), by intro _ _ _ _ _ h; cases h⟩
  | p :: ps, s, s', evs, h => by
    obtain ⟨e, f, d, evs2, hl, hmem, _, hmin, _, hrec, hev⟩ := runPicks_cons_ok h
    obtain ⟨ih1, ih2, ih3⟩ := runPicks_times P ps _ s' evs2 hrec
    obtain ⟨c1, fn, a, rest, c2, c3, _⟩ :=
      call_events P { s with sched := s.sched.erase e, events := d } f (some e.rid) e.t e.args
    have hdue : e.t < s.now := by
      unfold loopCond at hl
      rw [← hmin] at hl
      simpa using hl
    refine ⟨by rw [ih1, c1], by rw [c1] at ih2; exact ih2, ?_⟩
    intro rid due now fn' a' hm
    rw [hev, c2] at hm
    rcases mem_append.mp hm with hm | hm
    · rcases mem_cons.mp hm with hm | hm
      · injection hm with e1 e2 e3 e4 e5
        subst e1 e2 e3
        exact ⟨hdue, rfl, by simp⟩
      · have := c3 _ hm; cases this
    · have := ih3 rid due now fn' a' hm
      rw [c1] at this; exact this

end C18
