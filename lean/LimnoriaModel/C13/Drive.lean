/-
C13 — line-protocol driver.  Ops (fields TAB-separated, strings hex of UTF-8):
  tok     <nested 0|1> <brackets> <pipeSyntax 0|1> <quotes> <input>   callbacks.tokenize
  T       <brackets> <pipe 0|1> <quotes> <input>                       Tokenizer(...).tokenize
  lex     <whitespace> <separators> <quotes> <input>                   shlex token stream
  handle  <quotes> <token>                                             Tokenizer._handleToken
  uesc    <bytes>                                                      unicode_escape decoder
  dqrepr  <s>                                                          utils.str.dqrepr
  quote   <s>                                                          manual quoting (the writer of `quote_roundtrip`)
  uname   <name bytes> <code point>                                    one entry of the Unicode name table (state)
Trees: leaf = `l` + decimal code points joined by `.`, node = `(` children joined by blank `)`.
-/
import LimnoriaModel.C13.Model
import LimnoriaModel.Driver.Core
namespace C13
open Py Wire

def encCps (t : List Nat) : String := ".".intercalate (t.map toString)

mutual
def encTree : Tree → String
  | .leaf t => "l" ++ encCps t
  | .node ts => "(" ++ encTrees ts ++ ")"
def encTrees : List Tree → String
  | [] => ""
  | [t] => encTree t
  | t :: ts => encTree t ++ " " ++ encTrees ts
end

def VErr.name : VErr → String
  | .noClosingQuotation => "noClosingQuotation" | .backslashAtEnd => "backslashAtEnd"
  | .truncatedX => "truncatedX" | .truncatedU => "truncatedU" | .truncatedBigU => "truncatedBigU"
  | .illegalUnicode => "illegalUnicode" | .malformedN => "malformedN" | .unknownName => "unknownName"
  | .surrogate => "surrogate"

def SErr.name : SErr → String
  | .missingRight => "missingRight" | .spuriousRight => "spuriousRight"
  | .pipeNothingBefore => "pipeNothingBefore" | .pipeNothingAfter => "pipeNothingAfter"

def Crash.name : Crash → String
  | .indexError => "IndexError" | .hang => "hang" | .fuel => "fuel"

def encPR {α : Type} (f : α → String) : PR α → String
  | .ok a => "ok\t" ++ f a
  | .valueError e => "ValueError\t" ++ e.name
  | .syntaxError e => "SyntaxError\t" ++ e.name
  | .crash c => "crash\t" ++ c.name

def encResult : Result → String
  | .tree ts => "tree\t" ++ encTrees ts
  | .syntaxError (.value e) => "syntax\t" ++ e.name
  | .syntaxError (.syn e) => "syntax\t" ++ e.name
  | .crash c => "crash\t" ++ c.name

def decBool (f : String) : Option Bool :=
  if f = "1" then some true else if f = "0" then some false else none

/-- all tokens `get_token` yields until `''` / ValueError (driver only: the stream of the lexer) -/
def lexAll (cfg : LexCfg) : Nat → Lexer → List Str → String
  | 0, _, _ => "fuel"
  | n + 1, lx, acc =>
    match getToken cfg lx with
    | .tok t lx' => if t = [] then encList acc.reverse ++ "\teof" else lexAll cfg n lx' (t :: acc)
    | .valueError => encList acc.reverse ++ "\tValueError"
    | .hang => "hang"

def lookupName (tab : List (List UInt8 × Nat)) : Names := fun n => tab.lookup n

def drive (tab : List (List UInt8 × Nat)) : List String → String
  | ["tok", n, b, p, q, s] =>
    match decBool n, dec b, decBool p, dec q, dec s with
    | some n, some b, some p, some q, some s => encResult (tokenize ⟨n, b, p, q, lookupName tab⟩ s)
    | _, _, _, _, _ => "bad-op"
  | ["T", b, p, q, s] =>
    match dec b, decBool p, dec q, dec s with
    | some b, some p, some q, some s =>
      (match mkTokenizer b p q (lookupName tab) with
       | .error c => "crash\t" ++ c.name
       | .ok T => encPR encTrees (tokenizeT T s))
    | _, _, _, _ => "bad-op"
  | ["lex", w, sp, q, s] =>
    match dec w, dec sp, dec q, dec s with
    | some w, some sp, some q, some s => lexAll ⟨w, sp, q⟩ (fuelFor s) (initLexer s) []
    | _, _, _, _ => "bad-op"
  | ["handle", q, t] =>
    match dec q, dec t with
    | some q, some t => encPR encCps (handleToken (lookupName tab) q t)
    | _, _ => "bad-op"
  | ["uesc", b] =>
    match decBytes b with
    | some bs =>
      (match uesc (lookupName tab) .normal bs with
       | .ok cps => "ok\t" ++ encCps cps
       | .error e => "ValueError\t" ++ e.name)
    | none => "bad-op"
  | ["dqrepr", s] => (match dec s with | some s => enc (dqrepr s) | none => "bad-op")
  | ["quote", s] => (match dec s with | some s => enc (quote s) | none => "bad-op")
  | _ => "bad-op"

def step (tab : List (List UInt8 × Nat)) : List String → List (List UInt8 × Nat) × String
  | ["uname", n, cp] =>
    match decBytes n, cp.toNat? with
    | some n, some cp => ((n, cp) :: tab, "ok")
    | _, _ => (tab, "bad-op")
  | fs => (tab, drive tab fs)

def handler : Driver.Handler := { σ := List (List UInt8 × Nat), init := [], step := step }
end C13
