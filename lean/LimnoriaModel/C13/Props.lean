/-
C13 — property theorems (helper lemmas live in `Lemmas.lean`).
-/
import LimnoriaModel.C13.Lemmas
namespace C13
open Py

/-- Facts about the *extracted* constants (shlex whitespace, `ValidBrackets.validStrings`, the
characters `ValidQuotes` accepts) on which the theorems below rest; re-checked by `decide`
against what `/repo` says now. -/
theorem tables_ok : TablesOk Gen.shlexWhitespace Gen.validBrackets Gen.validQuoteChars := by decide

/-- **Tokenising is total.**  For every input string, every configuration that passed the
registry's validation and every Unicode name table (`c.names`, the parameter through which
`\N{…}` escapes are decoded), `callbacks.tokenize` yields a tree of tokens or a `SyntaxError` —
never an `IndexError`, a hang of the lexer, unbounded recursion of the model, or any other failure. -/
theorem tokenize_total (c : Conf) (hv : c.Valid) (s : Str) :
    (∃ ts, tokenize c s = .tree ts) ∨ (∃ k, tokenize c s = .syntaxError k) := by
  unfold tokenize
  obtain ⟨T, hT, -, hTq, -⟩ := mkTokenizer_ok (effBrackets_ok hv tables_ok) (effPipe c) c.quotes c.names
  rw [hT]
  have h := tokenizeT_noCrash T (hTq ▸ hv.quotesOk tables_ok) s
  simp only
  generalize tokenizeT T s = r at h ⊢
  cases r with
  | ok ts => exact Or.inl ⟨ts, rfl⟩
  | valueError e => exact Or.inr ⟨_, rfl⟩
  | syntaxError e => exact Or.inr ⟨_, rfl⟩
  | crash cr => exact h.elim

/-- **Every token is a string of Unicode scalar values** (since fix d2d591c; before it
`help "\ud800"` produced a token holding a lone surrogate, a `str` that cannot be encoded). -/
theorem tokens_scalar (c : Conf) (s : Str) (ts : List Tree) (h : tokenize c s = .tree ts) : ScalarL ts := by
  unfold tokenize at h
  cases hm : mkTokenizer (effBrackets c) (effPipe c) c.quotes c.names with
  | error e => simp [hm] at h
  | ok T =>
    simp only [hm] at h
    cases ht : tokenizeT T s with
    | ok ts' => simp only [ht] at h; injection h with h; subst h; exact tokenizeT_scalar T s _ ht
    | _ => simp [ht] at h

/-- the former witness: `help "\ud800"` is now a syntax error -/
theorem surrogate_escape_rejected :
    tokenize ⟨true, ['[', ']'], false, ['"'], fun _ => none⟩ ['h', 'e', 'l', 'p', ' ', '"', '\\', 'u', 'd', '8', '0', '0', '"'] =
      .syntaxError (.value .surrogate) := rfl

/-- non-vacuity: the default configuration is valid -/
example : (⟨true, ['[', ']'], false, ['"'], fun _ => none⟩ : Conf).Valid := by decide

/-- **Quoting protects any argument.**  For every valid configuration whose quote set contains the
double quote (every bracket style, pipe on or off, nesting on or off) and every list of argument
strings over full Unicode (including NUL, CR, LF, brackets, pipes, quotes, backslashes, blanks),
the arguments written in double quotes with `\` and `"` backslash-escaped and joined by blanks
tokenise back to exactly that list: nothing inside the quotes is interpreted. -/
theorem quote_roundtrip (c : Conf) (hv : c.Valid) (hq : '"' ∈ c.quotes) (xs : List Str) :
    tokenize c (joinChar ' ' (xs.map quote)) = .tree (xs.map fun x => .leaf (toCps x)) := by
  unfold tokenize
  obtain ⟨T, hT, -⟩ := mkTokenizer_ok (effBrackets_ok hv tables_ok) (effPipe c) c.quotes c.names
  have hd := dqTok_of_mk tables_ok (effBrackets_ok hv tables_ok) hT hq
  rw [hT]
  have := tokenizeT_dq hd quoteBody toCps xs (fun x _ => goodWriter_quoteBody x)
  simp only [show dq quoteBody = quote from rfl] at this
  simp only [this]

/-- non-vacuity and a concrete instance: brackets, a pipe, a quote, a backslash and non-ASCII text -/
example : tokenize ⟨true, ['[', ']'], true, ['"'], fun _ => none⟩
      (joinChar ' ' ([['[', 'a', ']', ' ', '|'], ['"', '\\', 'é', '好']].map quote))
    = .tree [.leaf (toCps ['[', 'a', ']', ' ', '|']), .leaf (toCps ['"', '\\', 'é', '好'])] :=
  quote_roundtrip _ (by decide) (by decide) _

/-- **Unquoted brackets produce exactly the corresponding nesting.**  With nesting enabled and any
valid bracket pair `l r`, every tree of commands — leaves written in double quotes, sub-commands
between `l` and `r`, items separated by one blank — tokenises to exactly that tree (any depth,
any fan-out, any leaf text, pipe syntax on or off). -/
theorem nesting_exact (c : Conf) (hv : c.Valid) (hn : c.nested = true) (hq : '"' ∈ c.quotes)
    (l r : Char) (hb : c.brackets = [l, r]) (ts : List STree) :
    tokenize c (joinChar ' ' (ts.map (render l r))) = .tree (toTrees ts) := by
  have hb' : BracketOk Gen.shlexWhitespace Gen.validQuoteChars [l, r] := hb ▸ tables_ok.1 _ hv.1
  have he : effBrackets c = [l, r] := by simp [effBrackets, hn, hb]
  unfold tokenize
  obtain ⟨T, hT, -⟩ := mkTokenizer_ok hb' (effPipe c) c.quotes c.names
  have hbr := brTok_of_mk tables_ok hb' hv.2 hT hq
  rw [he, hT, ← renderList_eq_join]
  simp only [tokenizeT_render hbr ts]

/-- non-vacuity: `[[] "a" ["b ]" []]] "c"` under the default configuration -/
example : tokenize ⟨true, ['[', ']'], false, ['"'], fun _ => none⟩
      (joinChar ' ' ([STree.node [.node [], .leaf ['a'], .node [.leaf ['b', ' ', ']'], .node []]], .leaf ['c']].map (render '[' ']')))
    = .tree (toTrees [STree.node [.node [], .leaf ['a'], .node [.leaf ['b', ' ', ']'], .node []]], .leaf ['c']]) :=
  nesting_exact _ (by decide) rfl (by decide) '[' ']' rfl _

/-- shlex whitespace is among the Tokenizer's separators (extracted constants) -/
theorem ws_subset_seps : ∀ ch ∈ Gen.shlexWhitespace, ch ∈ Gen.tokenizerSeparators := by decide

/-- **… also with bare words**: the same for trees whose leaves are unquoted words (any non-empty
text free of blanks, NUL, brackets, quote characters and — with pipe syntax — `|`; `WordsOkL`, see
`wordOk_of_plain`) or quoted text, items separated by one blank, brackets directly adjacent to the
first and last item of a sub-command: `foo [bar "x y" [baz]] qux` tokenises to exactly
`[foo, [bar, x y, [baz]], qux]`.  (This is where the lexer's pushback of a bracket that ends a word
is exercised.) -/
theorem nesting_exact_words (c : Conf) (hv : c.Valid) (hn : c.nested = true) (hq : '"' ∈ c.quotes)
    (l r : Char) (hb : c.brackets = [l, r]) (ts : List WTree) (hw : WordsOkL c.lexCfg ts) :
    tokenize c (renderListW l r ts) = .tree (toTreesW ts) := by
  have he : effBrackets c = [l, r] := by simp [effBrackets, hn, hb]
  unfold tokenize
  obtain ⟨T, hT, -⟩ := mkTokenizer_ok (effBrackets_ok hv tables_ok) (effPipe c) c.quotes c.names
  obtain ⟨hwd, hlex⟩ := wdTok_of_mk tables_ok hv he hT hq
  rw [hT]
  simp only [tokenizeT_renderW hwd ts (hlex ▸ hw)]

/-- non-vacuity: `foo [bar "x y" [baz]] qux` under the default configuration -/
example : tokenize ⟨true, ['[', ']'], false, ['"'], fun _ => none⟩
      (renderListW '[' ']' [.word ['f', 'o', 'o'], .node [.word ['b', 'a', 'r'], .leaf ['x', ' ', 'y'], .node [.word ['b', 'a', 'z']]], .word ['q', 'u', 'x']])
    = .tree (toTreesW [.word ['f', 'o', 'o'], .node [.word ['b', 'a', 'r'], .leaf ['x', ' ', 'y'], .node [.word ['b', 'a', 'z']]], .word ['q', 'u', 'x']]) :=
  nesting_exact_words _ (by decide) rfl (by decide) '[' ']' rfl _
    (by
      have h : ∀ w, PlainWord ⟨true, ['[', ']'], false, ['"'], fun _ => none⟩ w → WordOk (Conf.lexCfg ⟨true, ['[', ']'], false, ['"'], fun _ => none⟩) w :=
        fun w => wordOk_of_plain ws_subset_seps _ w
      simp only [WordsOkL, WTree.WordsOk, and_true, true_and]
      exact ⟨h _ (by decide), ⟨h _ (by decide), h _ (by decide)⟩, h _ (by decide)⟩)

/-- **With nesting disabled brackets are literal text**: when `supybot.commands.nested` is off, or
the channel's bracket string is empty and pipes are off, the result of tokenising *any* string has
no sub-list — every item is a plain token. -/
theorem nesting_disabled_flat (c : Conf) (hoff : c.nested = false ∨ (c.brackets = [] ∧ c.pipeSyntax = false))
    (s : Str) (ts : List Tree) (h : tokenize c s = .tree ts) : ∀ t ∈ ts, t.isLeaf := by
  have he : effBrackets c = [] := by
    rcases hoff with h | ⟨h, _⟩ <;> simp [effBrackets, h]
  have hp : effPipe c = false := by
    rcases hoff with h | ⟨_, h⟩ <;> simp [effPipe, h]
  unfold tokenize at h
  rw [he, hp] at h
  simp only [mkTokenizer] at h
  generalize hT : (⟨Gen.tokenizerSeparators ++ c.quotes, [], [], false, c.quotes, c.names⟩ : TokCfg) = T at h
  have hl : T.left = [] := by rw [← hT]
  have hr : T.right = [] := by rw [← hT]
  have hpp : T.pipe = false := by rw [← hT]
  cases hr' : tokenizeT T s with
  | ok ts' =>
    simp only [Bool.false_eq_true, if_false, hT, hr'] at h
    cases h
    unfold tokenizeT at hr'
    cases ht : topLoop T (fuelFor s) (initLexer s) [] [] with
    | ok p =>
      obtain ⟨a, e⟩ := p
      rw [ht] at hr'
      obtain ⟨ha, rfl⟩ := topLoop_flat T hl hr hpp _ _ [] a e (by simp) ht
      simp [PR.bind, assemble] at hr'
      exact hr' ▸ ha
    | _ => simp [ht, PR.bind] at hr'
  | _ => simp [Bool.false_eq_true, hT, hr'] at h

/-- non-vacuity: `[a] <b>` with nesting off is two plain tokens -/
example : ∃ ts, tokenize ⟨false, ['[', ']'], true, ['"'], fun _ => none⟩ ['[', 'a', ']', ' ', '|'] = .tree ts ∧ ts.length = 2 :=
  ⟨_, rfl, rfl⟩

/-- **`utils.str.dqrepr` protects any argument** (since fix 2552894, which makes it escape only ASCII;
before it `dqrepr("Â\x80")` = `"\xc2\x80"` was re-read as U+0080): for every valid configuration
whose quote set contains the double quote and every list of argument strings, the arguments written
with `dqrepr` and joined by blanks tokenise back to exactly that list. -/
theorem dqrepr_roundtrip (c : Conf) (hv : c.Valid) (hq : '"' ∈ c.quotes) (xs : List Str) :
    tokenize c (joinChar ' ' (xs.map dqrepr)) = .tree (xs.map fun x => .leaf (toCps x)) := by
  unfold tokenize
  obtain ⟨T, hT, -⟩ := mkTokenizer_ok (effBrackets_ok hv tables_ok) (effPipe c) c.quotes c.names
  have hd := dqTok_of_mk tables_ok (effBrackets_ok hv tables_ok) hT hq
  rw [hT]
  have := tokenizeT_dq hd dqreprBody toCps xs (fun x _ => goodWriter_dqreprBody x)
  simp only [show dq dqreprBody = dqrepr from rfl] at this
  simp only [this]

/-- the former witness and its relatives now round-trip -/
example : tokenize ⟨true, ['[', ']'], false, ['"'], fun _ => none⟩
      (joinChar ' ' ([['Â', Char.ofNat 0x80], ['Ã', '©'], ['a', '"', '\\', '\n', Char.ofNat 0]].map dqrepr))
    = .tree ([['Â', Char.ofNat 0x80], ['Ã', '©'], ['a', '"', '\\', '\n', Char.ofNat 0]].map fun x => .leaf (toCps x)) :=
  dqrepr_roundtrip _ (by decide) (by decide) _

end C13
