/-
C13 — property theorems (helper lemmas live in `Lemmas.lean`).
-/
import LimnoriaModel.C13.Lemmas
namespace C13
open Py

/-- Facts about the *extracted* constants (shlex whitespace, `ValidBrackets.validStrings`, the
characters `ValidQuotes` accepts) on which the theorems below rest; re-checked by `decide`
against what `/repo` says now. -/
theorem tables_ok : TablesOk Gen.shlexWhitespace Gen.validBrackets Gen.validQuoteChars := by decide

/-- **Tokenising is total.**  For every input string and every configuration that passed the
registry's validation, `callbacks.tokenize` yields a tree of tokens or a `SyntaxError` — never an
`IndexError`, a hang of the lexer, unbounded recursion of the model, or any other failure.
(`outside` = the input contains a `\N{…}` escape inside quotes, which the model does not decode.) -/
theorem tokenize_total (c : Conf) (hv : c.Valid) (s : Str) :
    (∃ ts, tokenize c s = .tree ts) ∨ (∃ k, tokenize c s = .syntaxError k) ∨ tokenize c s = .outside := by
  unfold tokenize
  obtain ⟨T, hT, hTq, -⟩ := mkTokenizer_ok (effBrackets_ok hv tables_ok) (effPipe c) c.quotes
  rw [hT]
  have h := tokenizeT_noCrash T (hTq ▸ hv.quotesOk tables_ok) s
  simp only
  generalize tokenizeT T s = r at h ⊢
  cases r with
  | ok ts => exact Or.inl ⟨ts, rfl⟩
  | valueError e => exact Or.inr (Or.inl ⟨_, rfl⟩)
  | syntaxError e => exact Or.inr (Or.inl ⟨_, rfl⟩)
  | outside => exact Or.inr (Or.inr rfl)
  | crash cr => exact h.elim

/-- non-vacuity: the default configuration is valid -/
example : (⟨true, ['[', ']'], false, ['"']⟩ : Conf).Valid := by decide

/-- **Quoting protects any argument.**  For every valid configuration whose quote set contains the
double quote (every bracket style, pipe on or off, nesting on or off) and every list of argument
strings over full Unicode (including NUL, CR, LF, brackets, pipes, quotes, backslashes, blanks),
the arguments written in double quotes with `\` and `"` backslash-escaped and joined by blanks
tokenise back to exactly that list: nothing inside the quotes is interpreted. -/
theorem quote_roundtrip (c : Conf) (hv : c.Valid) (hq : '"' ∈ c.quotes) (xs : List Str) :
    tokenize c (joinChar ' ' (xs.map quote)) = .tree (xs.map fun x => .leaf (toCps x)) := by
  unfold tokenize
  obtain ⟨T, hT, -⟩ := mkTokenizer_ok (effBrackets_ok hv tables_ok) (effPipe c) c.quotes
  have hd := dqTok_of_mk tables_ok (effBrackets_ok hv tables_ok) hT hq
  rw [hT]
  have := tokenizeT_dq hd quoteBody toCps xs (fun x _ => goodWriter_quoteBody x)
  simp only [show dq quoteBody = quote from rfl] at this
  simp only [this]

/-- non-vacuity and a concrete instance: brackets, a pipe, a quote, a backslash and non-ASCII text -/
example : tokenize ⟨true, ['[', ']'], true, ['"']⟩
      (joinChar ' ' ([['[', 'a', ']', ' ', '|'], ['"', '\\', 'é', '好']].map quote))
    = .tree [.leaf (toCps ['[', 'a', ']', ' ', '|']), .leaf (toCps ['"', '\\', 'é', '好'])] :=
  quote_roundtrip _ (by decide) (by decide) _

/-- **Unquoted brackets produce exactly the corresponding nesting.**  With nesting enabled and any
valid bracket pair `l r`, every tree of commands — leaves written in double quotes, sub-commands
between `l` and `r`, items separated by one blank — tokenises to exactly that tree (any depth,
any fan-out, any leaf text, pipe syntax on or off). -/
theorem nesting_exact (c : Conf) (hv : c.Valid) (hn : c.nested = true) (hq : '"' ∈ c.quotes)
    (l r : Char) (hb : c.brackets = [l, r]) (ts : List STree) :
    tokenize c (joinChar ' ' (ts.map (render l r))) = .tree (toTrees ts) := by
  have hb' : BracketOk Gen.shlexWhitespace Gen.validQuoteChars [l, r] := hb ▸ tables_ok.1 _ hv.1
  have he : effBrackets c = [l, r] := by simp [effBrackets, hn, hb]
  unfold tokenize
  obtain ⟨T, hT, -⟩ := mkTokenizer_ok hb' (effPipe c) c.quotes
  have hbr := brTok_of_mk tables_ok hb' hv.2 hT hq
  rw [he, hT, ← renderList_eq_join]
  simp only [tokenizeT_render hbr ts]

/-- non-vacuity: `[[] "a" ["b ]" []]] "c"` under the default configuration -/
example : tokenize ⟨true, ['[', ']'], false, ['"']⟩
      (joinChar ' ' ([STree.node [.node [], .leaf ['a'], .node [.leaf ['b', ' ', ']'], .node []]], .leaf ['c']].map (render '[' ']')))
    = .tree (toTrees [STree.node [.node [], .leaf ['a'], .node [.leaf ['b', ' ', ']'], .node []]], .leaf ['c']]) :=
  nesting_exact _ (by decide) rfl (by decide) '[' ']' rfl _

/-- shlex whitespace is among the Tokenizer's separators (extracted constants) -/
theorem ws_subset_seps : ∀ ch ∈ Gen.shlexWhitespace, ch ∈ Gen.tokenizerSeparators := by decide

/-- **… also with bare words**: the same for trees whose leaves are unquoted words (any non-empty
text free of blanks, NUL, brackets, quote characters and — with pipe syntax — `|`; `WordsOkL`, see
`wordOk_of_plain`) or quoted text, items separated by one blank, brackets directly adjacent to the
first and last item of a sub-command: `foo [bar "x y" [baz]] qux` tokenises to exactly
`[foo, [bar, x y, [baz]], qux]`.  (This is where the lexer's pushback of a bracket that ends a word
is exercised.) -/
theorem nesting_exact_words (c : Conf) (hv : c.Valid) (hn : c.nested = true) (hq : '"' ∈ c.quotes)
    (l r : Char) (hb : c.brackets = [l, r]) (ts : List WTree) (hw : WordsOkL c.lexCfg ts) :
    tokenize c (renderListW l r ts) = .tree (toTreesW ts) := by
  have he : effBrackets c = [l, r] := by simp [effBrackets, hn, hb]
  unfold tokenize
  obtain ⟨T, hT, -⟩ := mkTokenizer_ok (effBrackets_ok hv tables_ok) (effPipe c) c.quotes
  obtain ⟨hwd, hlex⟩ := wdTok_of_mk tables_ok hv he hT hq
  rw [hT]
  simp only [tokenizeT_renderW hwd ts (hlex ▸ hw)]

/-- non-vacuity: `foo [bar "x y" [baz]] qux` under the default configuration -/
example : tokenize ⟨true, ['[', ']'], false, ['"']⟩
      (renderListW '[' ']' [.word ['f', 'o', 'o'], .node [.word ['b', 'a', 'r'], .leaf ['x', ' ', 'y'], .node [.word ['b', 'a', 'z']]], .word ['q', 'u', 'x']])
    = .tree (toTreesW [.word ['f', 'o', 'o'], .node [.word ['b', 'a', 'r'], .leaf ['x', ' ', 'y'], .node [.word ['b', 'a', 'z']]], .word ['q', 'u', 'x']]) :=
  nesting_exact_words _ (by decide) rfl (by decide) '[' ']' rfl _
    (by
      have h : ∀ w, PlainWord ⟨true, ['[', ']'], false, ['"']⟩ w → WordOk (Conf.lexCfg ⟨true, ['[', ']'], false, ['"']⟩) w :=
        fun w => wordOk_of_plain ws_subset_seps _ w
      simp only [WordsOkL, WTree.WordsOk, and_true, true_and]
      exact ⟨h _ (by decide), ⟨h _ (by decide), h _ (by decide)⟩, h _ (by decide)⟩)

/-- **With nesting disabled brackets are literal text**: when `supybot.commands.nested` is off, or
the channel's bracket string is empty and pipes are off, the result of tokenising *any* string has
no sub-list — every item is a plain token. -/
theorem nesting_disabled_flat (c : Conf) (hoff : c.nested = false ∨ (c.brackets = [] ∧ c.pipeSyntax = false))
    (s : Str) (ts : List Tree) (h : tokenize c s = .tree ts) : ∀ t ∈ ts, t.isLeaf := by
  have he : effBrackets c = [] := by
    rcases hoff with h | ⟨h, _⟩ <;> simp [effBrackets, h]
  have hp : effPipe c = false := by
    rcases hoff with h | ⟨_, h⟩ <;> simp [effPipe, h]
  unfold tokenize at h
  rw [he, hp] at h
  simp only [mkTokenizer] at h
  generalize hT : (⟨Gen.tokenizerSeparators ++ c.quotes, [], [], false, c.quotes⟩ : TokCfg) = T at h
  have hl : T.left = [] := by rw [← hT]
  have hr : T.right = [] := by rw [← hT]
  have hpp : T.pipe = false := by rw [← hT]
  cases hr' : tokenizeT T s with
  | ok ts' =>
    simp only [Bool.false_eq_true, if_false, hT, hr'] at h
    cases h
    unfold tokenizeT at hr'
    cases ht : topLoop T (fuelFor s) (initLexer s) [] [] with
    | ok p =>
      obtain ⟨a, e⟩ := p
      rw [ht] at hr'
      obtain ⟨ha, rfl⟩ := topLoop_flat T hl hr hpp _ _ [] a e (by simp) ht
      simp [PR.bind, assemble] at hr'
      exact hr' ▸ ha
    | _ => simp [ht, PR.bind] at hr'
  | _ => simp [Bool.false_eq_true, hT, hr'] at h

/-- non-vacuity: `[a] <b>` with nesting off is two plain tokens -/
example : ∃ ts, tokenize ⟨false, ['[', ']'], true, ['"']⟩ ['[', 'a', ']', ' ', '|'] = .tree ts ∧ ts.length = 2 :=
  ⟨_, rfl, rfl⟩

/-! ### `utils.str.dqrepr` as the writer

Full statement (FALSE on the pinned tree — see `dqrepr_roundtrip_counterexample`; recorded as known
finding `C13-dqrepr-latin1-reread`):

    theorem dqrepr_roundtrip (c : Conf) (hv : c.Valid) (hq : '"' ∈ c.quotes) (xs : List Str) :
        tokenize c (joinChar ' ' (xs.map dqrepr)) = .tree (xs.map fun x => .leaf (toCps x))

What is proved instead: the exact result for *every* argument list (`dqrepr_reread`), the round trip
for every argument outside the class `InRereadClass` (`dqrepr_roundtrip_partial`), and that every
argument inside the class comes back as different text (`dqrepr_class_exact`): the class is exact. -/

/-- What arguments written with `dqrepr` come back as, for every argument list: the code points of
each argument after `_handleToken`'s latin-1/utf-8 step (`reread`). -/
theorem dqrepr_reread (c : Conf) (hv : c.Valid) (hq : '"' ∈ c.quotes) (xs : List Str) :
    tokenize c (joinChar ' ' (xs.map dqrepr)) = .tree (xs.map fun x => .leaf (reread (toCps x))) := by
  unfold tokenize
  obtain ⟨T, hT, -⟩ := mkTokenizer_ok (effBrackets_ok hv tables_ok) (effPipe c) c.quotes
  have hd := dqTok_of_mk tables_ok (effBrackets_ok hv tables_ok) hT hq
  rw [hT]
  have := tokenizeT_dq hd dqreprBody (fun x => reread (toCps x)) xs (fun x _ => goodWriter_dqreprBody x)
  simp only [show dq dqreprBody = dqrepr from rfl] at this
  simp only [this]

/-- `dqrepr` protects every argument outside the class "all code points ≤ U+00FF, at least one
non-ASCII, and the code points read as bytes are valid UTF-8". -/
theorem dqrepr_roundtrip_partial (c : Conf) (hv : c.Valid) (hq : '"' ∈ c.quotes) (xs : List Str)
    (hx : ∀ x ∈ xs, ¬ InRereadClass x) :
    tokenize c (joinChar ' ' (xs.map dqrepr)) = .tree (xs.map fun x => .leaf (toCps x)) := by
  rw [dqrepr_reread c hv hq xs]
  congr 1
  apply List.map_congr_left
  intro x hxm
  rw [reread_of_not_class x (hx x hxm)]

/-- non-vacuity: text with a code point above U+00FF, pure ASCII with quote and backslash, and
Latin-1 text whose bytes are not UTF-8 are all outside the class -/
example : ∀ x ∈ [['é', '中'], ['a', '"', '\\', 'b'], []], ¬ InRereadClass x := by
  intro x hx
  simp only [List.mem_cons, List.not_mem_nil, or_false] at hx
  rcases hx with rfl | rfl | rfl
  · exact fun h => absurd (h.1 '中' (by simp)) (by decide)
  · exact fun h => by obtain ⟨_, ⟨c, hc, hge⟩, _⟩ := h; simp at hc; rcases hc with rfl | rfl | rfl | rfl <;> revert hge <;> decide
  · exact fun h => by obtain ⟨_, ⟨c, hc, _⟩, _⟩ := h; simp at hc

/-- the witness: `dqrepr("Â\x80")` = `"\xc2\x80"` is re-read as U+0080 — the round trip fails -/
theorem dqrepr_roundtrip_counterexample :
    tokenize ⟨true, ['[', ']'], false, ['"']⟩ (dqrepr ['Â', Char.ofNat 0x80]) = .tree [.leaf [0x80]] ∧
    ([0x80] : List Nat) ≠ toCps ['Â', Char.ofNat 0x80] := by
  refine ⟨?_, by decide⟩
  have h := dqrepr_reread ⟨true, ['[', ']'], false, ['"']⟩ (by decide) (by decide) [['Â', Char.ofNat 0x80]]
  simp only [List.map_cons, List.map_nil, joinChar] at h
  rw [h]
  have e1 : latin1? (toCps ['Â', Char.ofNat 0x80]) = some [0xC2, 0x80] := by decide
  have e2 : utf8Decode? [0xC2, 0x80] = some [Char.ofNat 0x80] := by
    rw [show ([0xC2, 0x80] : List UInt8) = utf8 [Char.ofNat 0x80] by decide, utf8Decode?_utf8]
  simp only [reread, e1, e2]
  rfl

/-- the class is exact: *every* argument inside it comes back as different text -/
theorem dqrepr_class_exact (c : Conf) (hv : c.Valid) (hq : '"' ∈ c.quotes) (x : Str) (h : InRereadClass x) :
    tokenize c (dqrepr x) ≠ .tree [.leaf (toCps x)] := by
  have h1 := dqrepr_reread c hv hq [x]
  simp only [List.map_cons, List.map_nil, joinChar] at h1
  rw [h1]
  intro he
  injection he with he
  injection he with he _
  injection he with he
  exact reread_of_class x h he

/-! ### tokens that are not strings of Unicode scalar values

`tokenize_total` says the result is a tree of *tokens*; a token is a list of code points (`List Nat`),
not a `Str`, because the implementation can return a Python `str` holding a lone surrogate: the
`unicode_escape` decoder accepts the escapes `\ud800`…`\udfff` (and `\U0000d800`…), the latin-1
re-encoding then fails and `_handleToken` keeps the decoded text.  Such a token cannot be encoded
(`irc.reply` of it raises `UnicodeEncodeError`).  Recorded as known finding
`C13-surrogate-escape-token`; the statement "every token is a string of Unicode scalar values"

    theorem tokens_scalar (c : Conf) (hv : c.Valid) (s : Str) (ts) (h : tokenize c s = .tree ts) : AllScalar ts

is FALSE on the pinned tree (witness below).  What is proved: everything the bot's own writers
(`quote`, `dqrepr`) produce comes back as scalar-value strings. -/

/-- the witness: `help "\ud800"` tokenises to `help` and a token holding the lone surrogate U+D800 -/
theorem surrogate_escape_token :
    tokenize ⟨true, ['[', ']'], false, ['"']⟩ ['h', 'e', 'l', 'p', ' ', '"', '\\', 'u', 'd', '8', '0', '0', '"'] =
      .tree [.leaf (toCps ['h', 'e', 'l', 'p']), .leaf [0xD800]] ∧
    ¬ ∃ x : Str, toCps x = [0xD800] := by
  refine ⟨rfl, ?_⟩
  rintro ⟨x, hx⟩
  cases x with
  | nil => simp [toCps] at hx
  | cons c t =>
    simp only [toCps, List.map_cons, List.cons.injEq] at hx
    have hv := c.valid
    simp only [UInt32.isValidChar, Nat.isValidChar] at hv
    have : c.val.toNat = 0xD800 := hx.1
    omega

/-- arguments written with `quote` or `dqrepr` always come back as strings of Unicode scalar values
(possibly *different* strings for `dqrepr`, see `dqrepr_reread`) -/
theorem writers_scalar (x : Str) : (∃ y : Str, toCps x = toCps y) ∧ ∃ y : Str, reread (toCps x) = toCps y := by
  refine ⟨⟨x, rfl⟩, ?_⟩
  unfold reread
  cases latin1? (toCps x) with
  | none => exact ⟨x, rfl⟩
  | some bs =>
    simp only
    cases utf8Decode? bs with
    | none => exact ⟨x, rfl⟩
    | some s => exact ⟨s, rfl⟩

end C13
