/-
C13 — property theorems (helper lemmas live in `Lemmas.lean`).
-/
import LimnoriaModel.C13.Lemmas
namespace C13
open Py

/-- Facts about the *extracted* constants (shlex whitespace, `ValidBrackets.validStrings`, the
characters `ValidQuotes` accepts) on which the theorems below rest; re-checked by `decide`
against what `/repo` says now. -/
theorem tables_ok : TablesOk Gen.shlexWhitespace Gen.validBrackets Gen.validQuoteChars := by decide

/-- **Tokenising is total.**  For every input string and every configuration that passed the
registry's validation, `callbacks.tokenize` yields a tree of tokens or a `SyntaxError` — never an
`IndexError`, a hang of the lexer, unbounded recursion of the model, or any other failure.
(`outside` = the input contains a `\N{…}` escape inside quotes, which the model does not decode.) -/
theorem tokenize_total (c : Conf) (hv : c.Valid) (s : Str) :
    (∃ ts, tokenize c s = .tree ts) ∨ (∃ k, tokenize c s = .syntaxError k) ∨ tokenize c s = .outside := by
  unfold tokenize
  obtain ⟨T, hT, hTq, -⟩ := mkTokenizer_ok (effBrackets_ok hv tables_ok) (effPipe c) c.quotes
  rw [hT]
  have h := tokenizeT_noCrash T (hTq ▸ hv.quotesOk tables_ok) s
  simp only
  generalize tokenizeT T s = r at h ⊢
  cases r with
  | ok ts => exact Or.inl ⟨ts, rfl⟩
  | valueError e => exact Or.inr (Or.inl ⟨_, rfl⟩)
  | syntaxError e => exact Or.inr (Or.inl ⟨_, rfl⟩)
  | outside => exact Or.inr (Or.inr rfl)
  | crash cr => exact h.elim

/-- non-vacuity: the default configuration is valid -/
example : (⟨true, ['[', ']'], false, ['"']⟩ : Conf).Valid := by decide

/-- **Quoting protects any argument.**  For every valid configuration whose quote set contains the
double quote (every bracket style, pipe on or off, nesting on or off) and every list of argument
strings over full Unicode (including NUL, CR, LF, brackets, pipes, quotes, backslashes, blanks),
the arguments written in double quotes with `\` and `"` backslash-escaped and joined by blanks
tokenise back to exactly that list: nothing inside the quotes is interpreted. -/
theorem quote_roundtrip (c : Conf) (hv : c.Valid) (hq : '"' ∈ c.quotes) (xs : List Str) :
    tokenize c (joinChar ' ' (xs.map quote)) = .tree (xs.map fun x => .leaf (toCps x)) := by
  unfold tokenize
  obtain ⟨T, hT, -⟩ := mkTokenizer_ok (effBrackets_ok hv tables_ok) (effPipe c) c.quotes
  have hd := dqTok_of_mk tables_ok (effBrackets_ok hv tables_ok) hT hq
  rw [hT]
  have := tokenizeT_dq hd quoteBody xs (fun x _ => goodWriter_quoteBody x)
  simp only [show dq quoteBody = quote from rfl] at this
  simp only [this]

/-- non-vacuity and a concrete instance: brackets, a pipe, a quote, a backslash and non-ASCII text -/
example : tokenize ⟨true, ['[', ']'], true, ['"']⟩
      (joinChar ' ' ([['[', 'a', ']', ' ', '|'], ['"', '\\', 'é', '好']].map quote))
    = .tree [.leaf (toCps ['[', 'a', ']', ' ', '|']), .leaf (toCps ['"', '\\', 'é', '好'])] :=
  quote_roundtrip _ (by decide) (by decide) _

end C13
