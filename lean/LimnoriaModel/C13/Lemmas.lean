/-
C13 — helper lemmas: lexer invariant and measure (no hang, fuel suffices), parser totality.
-/
import LimnoriaModel.C13.Model
namespace C13
open Py

/-- measure of a lexer at a `get_token` boundary -/
def mu (lx : Lexer) : Nat := 2 * lx.input.length + lx.pushback.length + (if lx.state = none then 0 else 1)

/-- invariant inside `read_token` -/
def Inv (cfg : LexCfg) (st : Option Char) (token : Str) : Prop :=
  st = none ∨ (st = some ' ' ∧ token = []) ∨ (st = some 'a' ∧ token ≠ []) ∨
  (∃ q, st = some q ∧ q ∈ cfg.quotes ∧ token ≠ [])

def Boundary (lx : Lexer) : Prop := lx.state = none ∨ lx.state = some ' '

def ReadSpec (input token : Str) (pb : List Str) : RT → Prop
  | .hang => False
  | .valueError => True
  | .tok t lx' => Boundary lx' ∧ (t ≠ [] → mu lx' + (if token = [] then 1 else 0) ≤ 2 * input.length + pb.length + 1)

theorem ReadSpec.step {cs token' : Str} {pb : List Str} {r : RT} (c : Char) (token : Str)
    (h : ReadSpec cs token' pb r) : ReadSpec (c :: cs) token pb r := by
  cases r with
  | hang => exact h
  | valueError => trivial
  | tok t lx =>
    refine ⟨h.1, fun ht => ?_⟩
    have := h.2 ht
    simp only [List.length_cons]
    split <;> split at this <;> omega

theorem readLoop_spec (cfg : LexCfg) (hs : ' ' ∉ cfg.quotes) (ha : 'a' ∉ cfg.quotes)
    (input : Str) (st : Option Char) (token : Str) (bs : Bool) (pb : List Str) (h : Inv cfg st token) :
    ReadSpec input token pb (readLoop cfg input st token bs pb) := by
  fun_induction readLoop cfg input st token bs pb
  all_goals (try (simp_all [ReadSpec, Boundary, mu, Inv]; done))
  all_goals (try (simp_all [ReadSpec, Boundary, mu, Inv]; omega))
  all_goals (try (apply ReadSpec.step; apply_assumption; simp_all [Inv]; done))
  · refine ⟨Or.inr rfl, fun _ => ?_⟩
    simp [mu]
    split <;> omega

theorem readLoop_none (cfg : LexCfg) (input token : Str) (bs : Bool) (pb : List Str) :
    ∃ lx, readLoop cfg input none token bs pb = .tok [] lx ∧ Boundary lx ∧ lx.pushback = pb ∧
      lx.input.length ≤ input.length := by
  cases input with
  | nil => exact ⟨_, rfl, Or.inl rfl, rfl, Nat.le_refl _⟩
  | cons c cs => exact ⟨_, rfl, Or.inl rfl, rfl, by simp⟩

/-- what one `get_token` call guarantees at a call boundary -/
def GetSpec (lx : Lexer) : RT → Prop
  | .hang => False
  | .valueError => True
  | .tok t lx' => Boundary lx' ∧ (t ≠ [] → mu lx' < mu lx)

theorem getToken_spec (cfg : LexCfg) (hs : ' ' ∉ cfg.quotes) (ha : 'a' ∉ cfg.quotes)
    (lx : Lexer) (hb : Boundary lx) : GetSpec lx (getToken cfg lx) := by
  unfold getToken
  split
  · rename_i t rest hpb
    refine ⟨hb, fun _ => ?_⟩
    simp [mu, hpb]
  · rename_i hpb
    rcases hb with hn | hsp
    · obtain ⟨lx', h1, h2, _, _⟩ := readLoop_none cfg lx.input [] lx.backslash []
      rw [hn, h1]
      exact ⟨h2, fun h => absurd rfl h⟩
    · have := readLoop_spec cfg hs ha lx.input lx.state [] lx.backslash [] (by simp [Inv, hsp])
      revert this
      cases readLoop cfg lx.input lx.state [] lx.backslash [] with
      | hang => exact id
      | valueError => intro _; trivial
      | tok t lx' =>
        intro h
        refine ⟨h.1, fun ht => ?_⟩
        have := h.2 ht
        simp [mu, hsp, hpb] at this ⊢
        omega

/-! ### parser totality -/

def PR.NoCrash {α : Type} : PR α → Prop
  | .crash _ => False
  | _ => True

theorem decodeQuoted_noCrash (content : Str) : (decodeQuoted content).NoCrash := by
  unfold decodeQuoted
  repeat' split
  all_goals trivial

theorem handleToken_noCrash (quotes token : Str) (h : token ≠ []) : (handleToken quotes token).NoCrash := by
  unfold handleToken
  split
  · split
    · exact decodeQuoted_noCrash _
    · trivial
  · rename_i h1
    exfalso
    cases token with
    | nil => exact h rfl
    | cons c cs =>
      have := h1 c ((c :: cs).getLast (by simp))
      simp [List.getLast?_eq_some_getLast] at this

/-- the quotes of the configuration never contain the two characters shlex uses as state names -/
def QuotesOk (q : Str) : Prop := ' ' ∉ q ∧ 'a' ∉ q

def InsideSpec (lx : Lexer) : PR (List Tree × Lexer) → Prop
  | .crash _ => False
  | .ok (_, lx') => Boundary lx' ∧ mu lx' < mu lx
  | _ => True

theorem insideBrackets_spec (T : TokCfg) (hq : QuotesOk T.quotes) :
    ∀ (n : Nat) (lx : Lexer), Boundary lx → mu lx < n → InsideSpec lx (insideBrackets T n lx) := by
  intro n
  induction n with
  | zero => intro lx _ h; omega
  | succ n ih =>
    intro lx hb hmu
    unfold insideBrackets
    have hg := getToken_spec T.lexCfg hq.1 hq.2 lx hb
    revert hg
    cases getToken T.lexCfg lx with
    | hang => exact id
    | valueError => intro _; trivial
    | tok token lx' =>
      intro hg
      simp only
      split
      · trivial
      · rename_i hne
        have hlt := hg.2 hne
        split
        · exact ⟨hg.1, hlt⟩
        · split
          · have h1 := ih lx' hg.1 (by omega)
            revert h1
            cases insideBrackets T n lx' with
            | ok p =>
              obtain ⟨sub, lx''⟩ := p
              intro h1
              simp only [PR.bind]
              have h2 := ih lx'' h1.1 (by have := h1.2; omega)
              revert h2
              cases insideBrackets T n lx'' with
              | ok p2 =>
                obtain ⟨rest, lx3⟩ := p2
                intro h2
                exact ⟨h2.1, Nat.lt_trans h2.2 (Nat.lt_trans h1.2 hlt)⟩
              | crash c => exact id
              | _ => intro _; trivial
            | crash c => exact id
            | _ => intro _; trivial
          · have h0 := handleToken_noCrash T.quotes token hne
            revert h0
            cases handleToken T.quotes token with
            | ok t =>
              intro _
              simp only [PR.bind]
              have h1 := ih lx' hg.1 (by omega)
              revert h1
              cases insideBrackets T n lx' with
              | ok p =>
                obtain ⟨rest, lx''⟩ := p
                intro h1
                exact ⟨h1.1, Nat.lt_trans h1.2 hlt⟩
              | crash c => exact id
              | _ => intro _; trivial
            | crash c => exact id
            | _ => intro _; trivial

theorem topLoop_noCrash (T : TokCfg) (hq : QuotesOk T.quotes) :
    ∀ (n : Nat) (lx : Lexer) (args : List Tree) (ends : List (List Tree)),
      Boundary lx → mu lx < n → (topLoop T n lx args ends).NoCrash := by
  intro n
  induction n with
  | zero => intro lx _ _ _ h; omega
  | succ n ih =>
    intro lx args ends hb hmu
    unfold topLoop
    have hg := getToken_spec T.lexCfg hq.1 hq.2 lx hb
    revert hg
    cases getToken T.lexCfg lx with
    | hang => exact id
    | valueError => intro _; trivial
    | tok token lx' =>
      intro hg
      simp only
      split
      · trivial
      · rename_i hne
        have hlt := hg.2 hne
        split
        · split
          · trivial
          · exact ih lx' _ _ hg.1 (by omega)
        · split
          · have h1 := insideBrackets_spec T hq n lx' hg.1 (by omega)
            revert h1
            cases insideBrackets T n lx' with
            | ok p =>
              obtain ⟨sub, lx''⟩ := p
              intro h1
              exact ih lx'' _ _ h1.1 (by have := h1.2; omega)
            | crash c => exact id
            | _ => intro _; trivial
          · split
            · trivial
            · have h0 := handleToken_noCrash T.quotes token hne
              revert h0
              cases handleToken T.quotes token with
              | ok t => intro _; exact ih lx' _ _ hg.1 (by omega)
              | crash c => exact id
              | _ => intro _; trivial

theorem assemble_noCrash (args : List Tree) (ends : List (List Tree)) : (assemble args ends).NoCrash := by
  unfold assemble
  repeat' split
  all_goals trivial

theorem tokenizeT_noCrash (T : TokCfg) (hq : QuotesOk T.quotes) (s : Str) : (tokenizeT T s).NoCrash := by
  unfold tokenizeT
  have h := topLoop_noCrash T hq (fuelFor s) (initLexer s) [] [] (Or.inr rfl)
    (by simp [mu, initLexer, fuelFor])
  revert h
  cases topLoop T (fuelFor s) (initLexer s) [] [] with
  | ok p => intro _; exact assemble_noCrash _ _
  | crash c => exact id
  | _ => intro _; trivial

/-! ### facts about the extracted tables on which the property theorems rest -/

def BracketOk (ws vq : Str) : Str → Prop
  | [] => True
  | [l, r] => l ≠ r ∧ l ∉ ws ∧ r ∉ ws ∧ l ∉ vq ∧ r ∉ vq ∧ l ≠ '|' ∧ r ≠ '|'
  | _ => False

instance (ws vq b : Str) : Decidable (BracketOk ws vq b) := by
  unfold BracketOk
  split <;> infer_instance

/-- `ws` = shlex whitespace, `vb` = ValidBrackets.validStrings, `vq` = characters ValidQuotes accepts -/
def TablesOk (ws : Str) (vb : List Str) (vq : Str) : Prop :=
  (∀ b ∈ vb, BracketOk ws vq b) ∧ ' ' ∈ ws ∧ '"' ∉ ws ∧ ' ' ∉ vq ∧ 'a' ∉ vq

instance (ws : Str) (vb : List Str) (vq : Str) : Decidable (TablesOk ws vb vq) := by
  unfold TablesOk; infer_instance

/-- a configuration that passed the registry's validation (`ValidBrackets`, `ValidQuotes`) -/
def Conf.Valid (c : Conf) : Prop :=
  c.brackets ∈ Gen.validBrackets ∧ ∀ q ∈ c.quotes, q ∈ Gen.validQuoteChars

instance (c : Conf) : Decidable c.Valid := by unfold Conf.Valid; infer_instance

theorem Conf.Valid.quotesOk {c : Conf} (hv : c.Valid)
    (ht : TablesOk Gen.shlexWhitespace Gen.validBrackets Gen.validQuoteChars) : QuotesOk c.quotes :=
  ⟨fun h => ht.2.2.2.1 (hv.2 _ h), fun h => ht.2.2.2.2 (hv.2 _ h)⟩

theorem effBrackets_ok {c : Conf} (hv : c.Valid)
    (ht : TablesOk Gen.shlexWhitespace Gen.validBrackets Gen.validQuoteChars) :
    BracketOk Gen.shlexWhitespace Gen.validQuoteChars (effBrackets c) := by
  unfold effBrackets
  split
  · exact ht.1 _ hv.1
  · trivial

theorem mkTokenizer_ok {ws vq b : Str} (hb : BracketOk ws vq b) (pipe : Bool) (quotes : Str) :
    ∃ T, mkTokenizer b pipe quotes = .ok T ∧ T.quotes = quotes ∧ T.pipe = pipe ∧
      ((b = [] ∧ T.left = [] ∧ T.right = []) ∨ (∃ l r, b = [l, r] ∧ T.left = [l] ∧ T.right = [r])) ∧
      T.separators = (if pipe then Gen.tokenizerSeparators ++ b ++ ['|'] else Gen.tokenizerSeparators ++ b) ++ quotes := by
  match b, hb with
  | [], _ => exact ⟨_, rfl, rfl, rfl, Or.inl ⟨rfl, rfl, rfl⟩, by simp⟩
  | [l, r], _ => exact ⟨_, rfl, rfl, rfl, Or.inr ⟨l, r, rfl, rfl, rfl⟩, rfl⟩

/-! ### UTF-8 facts (from the core encoder) -/

theorem or_ge (x m : UInt8) (hm : 128 ≤ m.toNat) : 128 ≤ (x ||| m).toNat := by
  rw [UInt8.toNat_or]; exact Nat.le_trans hm Nat.right_le_or

/-- a byte below 0x80 in the UTF-8 encoding of `c` is the whole encoding, and `c` is that ASCII character -/
theorem ascii_byte_of_utf8 (c : Char) (b : UInt8) (hb : b ∈ String.utf8EncodeChar c) (hlt : b.toNat < 128) :
    String.utf8EncodeChar c = [b] ∧ c.toNat = b.toNat := by
  have h1 := c.utf8Size_pos
  have h4 := c.utf8Size_le_four
  rcases (by omega : c.utf8Size = 1 ∨ c.utf8Size = 2 ∨ c.utf8Size = 3 ∨ c.utf8Size = 4) with h | h | h | h
  · rw [String.utf8EncodeChar_eq_singleton h] at hb ⊢
    simp only [List.mem_cons, List.not_mem_nil, or_false] at hb
    subst hb
    refine ⟨rfl, ?_⟩
    have := Char.utf8Size_eq_one_iff.1 h
    rw [UInt32.le_iff_toNat_le] at this
    show c.val.toNat = c.val.toUInt8.toNat
    rw [UInt32.toNat_toUInt8]
    simp only [UInt32.reduceToNat] at this
    omega
  · rw [String.utf8EncodeChar_eq_cons_cons h] at hb
    simp only [List.mem_cons, List.not_mem_nil, or_false] at hb
    rcases hb with rfl | rfl
    · have := or_ge ((c.val >>> 6).toUInt8 &&& 0x1f) 0xc0 (by decide); omega
    · have := or_ge (c.val.toUInt8 &&& 0x3f) 0x80 (by decide); omega
  · rw [String.utf8EncodeChar_eq_cons_cons_cons h] at hb
    simp only [List.mem_cons, List.not_mem_nil, or_false] at hb
    rcases hb with rfl | rfl | rfl
    · have := or_ge ((c.val >>> 12).toUInt8 &&& 0x0f) 0xe0 (by decide); omega
    · have := or_ge ((c.val >>> 6).toUInt8 &&& 0x3f) 0x80 (by decide); omega
    · have := or_ge (c.val.toUInt8 &&& 0x3f) 0x80 (by decide); omega
  · rw [String.utf8EncodeChar_eq_cons_cons_cons_cons h] at hb
    simp only [List.mem_cons, List.not_mem_nil, or_false] at hb
    rcases hb with rfl | rfl | rfl | rfl
    · have := or_ge ((c.val >>> 18).toUInt8 &&& 0x07) 0xf0 (by decide); omega
    · have := or_ge ((c.val >>> 12).toUInt8 &&& 0x3f) 0x80 (by decide); omega
    · have := or_ge ((c.val >>> 6).toUInt8 &&& 0x3f) 0x80 (by decide); omega
    · have := or_ge (c.val.toUInt8 &&& 0x3f) 0x80 (by decide); omega

theorem utf8_append (a b : Str) : utf8 (a ++ b) = utf8 a ++ utf8 b := by simp [utf8]

theorem utf8_cons (c : Char) (s : Str) : utf8 (c :: s) = String.utf8EncodeChar c ++ utf8 s := by simp [utf8]

theorem utf8Decode?_utf8 (s : Str) : utf8Decode? (utf8 s) = some s := by
  have : (utf8 s).toByteArray = s.utf8Encode := rfl
  simp [utf8Decode?, this]

theorem char_eq_of_toNat {c d : Char} (h : c.toNat = d.toNat) : c = d := by
  apply Char.ext
  apply UInt32.toNat_inj.1
  exact h

theorem no_backslash_byte (c : Char) (hc : c ≠ '\\') : ∀ b ∈ String.utf8EncodeChar c, b ≠ 0x5C := by
  intro b hb h
  subst h
  have := (ascii_byte_of_utf8 c 0x5C hb (by decide)).2
  exact hc (char_eq_of_toNat this)

/-! ### the `unicode_escape` decoder on escape-free bytes -/

def prependR (l : List Nat) (r : Except UErr (List Nat)) : Except UErr (List Nat) := l.foldr consR r

theorem prependR_ok (l m : List Nat) : prependR l (.ok m) = .ok (l ++ m) := by
  induction l with
  | nil => rfl
  | cons a l ih => simp [prependR, consR] at ih ⊢; rw [ih]

theorem uesc_normal_plain (bs r : List UInt8) (h : ∀ b ∈ bs, b ≠ 0x5C) :
    uesc .normal (bs ++ r) = prependR (bs.map UInt8.toNat) (uesc .normal r) := by
  induction bs with
  | nil => rfl
  | cons b bs ih =>
    have hb : b ≠ 0x5C := h b (by simp)
    have := ih (fun b' hb' => h b' (by simp [hb']))
    simp only [List.cons_append, uesc, hb, if_false, this, List.map_cons, prependR, List.foldr_cons]

theorem latin1?_bytes (bs : List UInt8) : latin1? (bs.map UInt8.toNat) = some bs := by
  induction bs with
  | nil => rfl
  | cons b bs ih =>
    have : b.toNat < 256 := b.toNat_lt
    simp [latin1?, ih, this]

/-! ### the codec chain on manually quoted text -/

theorem utf8_backslash : String.utf8EncodeChar '\\' = [0x5C] := by decide
theorem utf8_dq : String.utf8EncodeChar '"' = [0x22] := by decide

theorem quoteBody_cons (c : Char) (x : Str) :
    quoteBody (c :: x) = (if c = '\\' ∨ c = '"' then ['\\', c] else [c]) ++ quoteBody x := by
  simp [quoteBody]

theorem prependR_append (a b : List Nat) (r) : prependR (a ++ b) r = prependR a (prependR b r) := by
  simp [prependR]

theorem uesc_quoteBody_append (x : Str) (r : List UInt8) :
    uesc .normal (utf8 (quoteBody x) ++ r) = prependR ((utf8 x).map UInt8.toNat) (uesc .normal r) := by
  induction x with
  | nil => rfl
  | cons c x ih =>
    rw [quoteBody_cons, utf8_append, List.append_assoc, utf8_cons c x, List.map_append, prependR_append]
    by_cases h1 : c = '\\'
    · subst h1
      have e : utf8 ['\\', '\\'] = [0x5C, 0x5C] := by decide
      simp only [true_or, if_true, e, utf8_backslash, List.cons_append, List.nil_append]
      simp [uesc, simpleEsc, ih, prependR]
    · by_cases h2 : c = '"'
      · subst h2
        have e : utf8 ['\\', '"'] = [0x5C, 0x22] := by decide
        simp only [or_true, if_true, e, utf8_dq, List.cons_append, List.nil_append]
        simp [uesc, simpleEsc, ih, prependR]
      · have e : utf8 [c] = String.utf8EncodeChar c := by simp [utf8]
        simp only [h1, h2, or_self, if_false, e]
        rw [uesc_normal_plain _ _ (no_backslash_byte c h1), ih]

theorem decodeQuoted_quoteBody (x : Str) : decodeQuoted (quoteBody x) = .ok (toCps x) := by
  have h := uesc_quoteBody_append x []
  simp only [List.append_nil, uesc, prependR_ok] at h
  simp [decodeQuoted, h, latin1?_bytes, utf8Decode?_utf8]

/-! ### lexing quoted tokens -/

/-- text between double quotes in which every `\` and `"` is preceded by an (unescaped) backslash -/
inductive Safe : Str → Prop
  | nil : Safe []
  | plain (c : Char) (s : Str) : c ≠ '\\' → c ≠ '"' → Safe s → Safe (c :: s)
  | esc (d : Char) (s : Str) : Safe s → Safe ('\\' :: d :: s)

theorem Safe.append {a b : Str} (ha : Safe a) (hb : Safe b) : Safe (a ++ b) := by
  induction ha with
  | nil => exact hb
  | plain c s h1 h2 _ ih => exact .plain c _ h1 h2 ih
  | esc d s _ ih => exact .esc d _ ih

theorem safe_quoteBody (x : Str) : Safe (quoteBody x) := by
  induction x with
  | nil => exact .nil
  | cons c x ih =>
    rw [quoteBody_cons]
    by_cases h : c = '\\' ∨ c = '"'
    · simp only [h, if_true]; exact .esc c _ ih
    · simp only [h, if_false]
      exact .plain c _ (fun e => h (Or.inl e)) (fun e => h (Or.inr e)) ih

theorem readLoop_safe (cfg : LexCfg) (hq : '"' ∈ cfg.quotes) (body rest : Str) (hs : Safe body)
    (token : Str) (pb : List Str) :
    readLoop cfg (body ++ '"' :: rest) (some '"') token false pb =
      .tok (token ++ body ++ ['"']) ⟨rest, some ' ', false, pb⟩ := by
  induction hs generalizing token with
  | nil => simp [readLoop, hq]
  | plain c s h1 h2 _ ih =>
    simp only [List.cons_append, readLoop, hq, h1, h2]
    simp [ih]
  | esc d s _ ih =>
    simp only [List.cons_append, readLoop, hq]
    by_cases hd : d = '\\'
    · subst hd; simp [ih]
    · simp [hd, ih]

/-- the lexer configuration facts the round-trip theorems use -/
structure DqCfg (cfg : LexCfg) : Prop where
  sp_ws : ' ' ∈ cfg.whitespace
  dq_ws : '"' ∉ cfg.whitespace
  dq_sep : '"' ∈ cfg.separators
  dq_q : '"' ∈ cfg.quotes

def bnd (inp : Str) : Lexer := ⟨inp, some ' ', false, []⟩

theorem getToken_quoted {cfg : LexCfg} (h : DqCfg cfg) (body rest : Str) (hs : Safe body) :
    getToken cfg (bnd ('"' :: body ++ '"' :: rest)) = .tok ('"' :: body ++ ['"']) (bnd rest) := by
  simp only [getToken, bnd, List.cons_append, readLoop, h.dq_ws, h.dq_sep, h.dq_q]
  simp [readLoop_safe cfg h.dq_q body rest hs]

theorem getToken_space {cfg : LexCfg} (h : DqCfg cfg) (inp : Str) :
    getToken cfg (bnd (' ' :: inp)) = getToken cfg (bnd inp) := by
  simp [getToken, bnd, readLoop, h.sp_ws]

theorem getToken_eof (cfg : LexCfg) : getToken cfg (bnd []) = .tok [] ⟨[], none, false, []⟩ := by
  simp [getToken, bnd, readLoop]

theorem getToken_punct {cfg : LexCfg} (l : Char) (hw : l ∉ cfg.whitespace) (hsep : l ∈ cfg.separators)
    (hq : l ∉ cfg.quotes) (inp : Str) :
    getToken cfg (bnd (l :: inp)) = .tok [l] (bnd inp) := by
  simp [getToken, bnd, readLoop, hw, hsep, hq]

theorem handleToken_quoted (quotes : Str) (hq : '"' ∈ quotes) (body : Str) :
    handleToken quotes ('"' :: body ++ ['"']) = decodeQuoted body := by
  have h1 : ('"' :: body ++ ['"']).getLast? = some '"' := by
    rw [show '"' :: body ++ ['"'] = ('"' :: body) ++ ['"'] from rfl, List.getLast?_append]; rfl
  have h2 : (List.drop 1 ('"' :: body ++ ['"'])).dropLast = body := by simp
  unfold handleToken
  rw [h1, h2]
  simp [hq]

/-! ### parsing a blank-separated list of quoted tokens -/

/-- a quoted token written with body-writer `w` -/
def dq (w : Str → Str) (x : Str) : Str := '"' :: w x ++ ['"']

/-- every item preceded by one blank -/
def spaced (w : Str → Str) (xs : List Str) : Str := xs.flatMap fun x => ' ' :: dq w x

theorem joinChar_dq (w : Str → Str) (x : Str) (xs : List Str) :
    joinChar ' ' ((x :: xs).map (dq w)) = dq w x ++ spaced w xs := by
  induction xs generalizing x with
  | nil => simp [joinChar, spaced]
  | cons y ys ih =>
    simp only [List.map_cons, joinChar] at ih ⊢
    rw [ih y]
    simp [spaced]

/-- what the parser needs to know about the Tokenizer instance for quoted tokens -/
structure DqTok (T : TokCfg) : Prop where
  lex : DqCfg T.lexCfg
  q : '"' ∈ T.quotes
  left : T.left.length ≤ 1
  right : T.right.length ≤ 1

/-- a writer whose output is lexed as one token and decoded back to the argument -/
def GoodWriter (w : Str → Str) (x : Str) : Prop := Safe (w x) ∧ decodeQuoted (w x) = .ok (toCps x)

theorem dq_ne_short (w : Str → Str) (x : Str) (t : Str) (h : t.length ≤ 1) : dq w x ≠ t := by
  intro e
  have := congrArg List.length e
  simp [dq] at this
  omega

theorem topLoop_step_dq {T : TokCfg} (hT : DqTok T) (w : Str → Str) (x : Str) (hx : GoodWriter w x)
    (n : Nat) (rest : Str) (args : List Tree) (ends : List (List Tree)) :
    topLoop T (n + 1) (bnd (dq w x ++ rest)) args ends =
      topLoop T n (bnd rest) (args ++ [.leaf (toCps x)]) ends := by
  have hg : getToken T.lexCfg (bnd (dq w x ++ rest)) = .tok (dq w x) (bnd rest) := by
    have := getToken_quoted hT.lex (w x) rest hx.1
    simpa [dq] using this
  have h0 : dq w x ≠ [] := dq_ne_short w x [] (by simp)
  have h1 : ¬ (dq w x = ['|'] ∧ T.pipe = true) := fun h => dq_ne_short w x ['|'] (by simp) h.1
  have h2 : dq w x ≠ T.left := dq_ne_short w x _ hT.left
  have h3 : dq w x ≠ T.right := dq_ne_short w x _ hT.right
  have h4 : handleToken T.quotes (dq w x) = .ok (toCps x) := by
    rw [dq, handleToken_quoted _ hT.q, hx.2]
  rw [topLoop, hg]
  simp only [h0, h1, h2, h3, h4, if_false, PR.bind]

theorem topLoop_spaced {T : TokCfg} (hT : DqTok T) (w : Str → Str) (xs : List Str)
    (hx : ∀ x ∈ xs, GoodWriter w x) (n : Nat) (hn : xs.length + 1 ≤ n) (args : List Tree) :
    topLoop T n (bnd (spaced w xs)) args [] = .ok (args ++ xs.map fun x => .leaf (toCps x), []) := by
  induction xs generalizing n args with
  | nil =>
    obtain ⟨m, rfl⟩ : ∃ m, n = m + 1 := ⟨n - 1, by simp at hn; omega⟩
    simp [spaced, topLoop, getToken_eof]
  | cons x xs ih =>
    obtain ⟨m, rfl⟩ : ∃ m, n = m + 1 := ⟨n - 1, by simp at hn; omega⟩
    have e : spaced w (x :: xs) = ' ' :: (dq w x ++ spaced w xs) := by simp [spaced]
    rw [e, topLoop, getToken_space hT.lex, ← topLoop, topLoop_step_dq hT w x (hx x (by simp))]
    rw [ih (fun y hy => hx y (by simp [hy])) m (by simp at hn; omega)]
    simp

theorem tokenizeT_dq {T : TokCfg} (hT : DqTok T) (w : Str → Str) (xs : List Str)
    (hx : ∀ x ∈ xs, GoodWriter w x) :
    tokenizeT T (joinChar ' ' (xs.map (dq w))) = .ok (xs.map fun x => .leaf (toCps x)) := by
  cases xs with
  | nil => simp [tokenizeT, joinChar, fuelFor, topLoop, initLexer, getToken, readLoop, PR.bind, assemble]
  | cons x xs =>
    rw [joinChar_dq, tokenizeT, show initLexer (dq w x ++ spaced w xs) = bnd (dq w x ++ spaced w xs) from rfl]
    have hlen : xs.length ≤ (spaced w xs).length := by
      clear hx
      induction xs with
      | nil => simp
      | cons y ys ih => simp [spaced] at ih ⊢; omega
    rw [show fuelFor (dq w x ++ spaced w xs) = (2 * (dq w x ++ spaced w xs).length + 2) + 1 from rfl,
      topLoop_step_dq hT w x (hx x (by simp)),
      topLoop_spaced hT w xs (fun y hy => hx y (by simp [hy])) _ (by simp; omega)]
    simp [PR.bind, assemble]

theorem dqTok_of_mk {b quotes : Str} {pipe : Bool} {T : TokCfg}
    (ht : TablesOk Gen.shlexWhitespace Gen.validBrackets Gen.validQuoteChars)
    (hb : BracketOk Gen.shlexWhitespace Gen.validQuoteChars b)
    (hT : mkTokenizer b pipe quotes = .ok T) (hq : '"' ∈ quotes) : DqTok T := by
  obtain ⟨T', hT', hTq, _, hlr, hsep⟩ := mkTokenizer_ok hb pipe quotes
  rw [hT] at hT'
  cases hT'
  have hq' : '"' ∈ T.quotes := hTq ▸ hq
  refine ⟨⟨ht.2.1, ht.2.2.1, ?_, hq'⟩, hq', ?_, ?_⟩
  · show '"' ∈ T.separators
    rw [hsep]; exact List.mem_append_right _ hq
  · rcases hlr with ⟨_, h, _⟩ | ⟨l, r, _, h, _⟩ <;> simp [h]
  · rcases hlr with ⟨_, _, h⟩ | ⟨l, r, _, _, h⟩ <;> simp [h]

theorem goodWriter_quoteBody (x : Str) : GoodWriter quoteBody x :=
  ⟨safe_quoteBody x, decodeQuoted_quoteBody x⟩

/-! ### rendering and re-reading nested commands -/

/-- source trees: what the user means -/
inductive STree where
  | leaf (x : Str)
  | node (ts : List STree)

mutual
def STree.toTree : STree → Tree
  | .leaf x => .leaf (toCps x)
  | .node ts => .node (toTrees ts)
def toTrees : List STree → List Tree
  | [] => []
  | t :: ts => t.toTree :: toTrees ts
end

mutual
/-- a leaf is written in double quotes, a sub-command between the brackets -/
def render (l r : Char) : STree → Str
  | .leaf x => quote x
  | .node ts => l :: renderList l r ts ++ [r]
/-- items separated by one blank -/
def renderList (l r : Char) : List STree → Str
  | [] => []
  | t :: ts => render l r t ++ renderSp l r ts
/-- every item preceded by one blank -/
def renderSp (l r : Char) : List STree → Str
  | [] => []
  | t :: ts => ' ' :: render l r t ++ renderSp l r ts
end

mutual
def STree.size : STree → Nat
  | .leaf _ => 1
  | .node ts => 2 + sizeL ts
def sizeL : List STree → Nat
  | [] => 0
  | t :: ts => t.size + sizeL ts
end

/-- what the parser needs to know about the Tokenizer instance when brackets `l r` are enabled -/
structure BrTok (T : TokCfg) (l r : Char) : Prop extends DqTok T where
  hl : T.left = [l]
  hr : T.right = [r]
  ne : l ≠ r
  l_ws : l ∉ T.lexCfg.whitespace
  r_ws : r ∉ T.lexCfg.whitespace
  l_sep : l ∈ T.lexCfg.separators
  r_sep : r ∈ T.lexCfg.separators
  l_q : l ∉ T.lexCfg.quotes
  r_q : r ∉ T.lexCfg.quotes
  l_pipe : l ≠ '|'

theorem inside_step_dq {T : TokCfg} (hT : DqTok T) (x : Str) (n : Nat) (rest : Str) :
    insideBrackets T (n + 1) (bnd (quote x ++ rest)) =
      (insideBrackets T n (bnd rest)).bind fun (items, lx) => .ok (.leaf (toCps x) :: items, lx) := by
  have hg : getToken T.lexCfg (bnd (quote x ++ rest)) = .tok (quote x) (bnd rest) := by
    have := getToken_quoted hT.lex (quoteBody x) rest (safe_quoteBody x)
    simpa [quote] using this
  have h0 : quote x ≠ [] := dq_ne_short quoteBody x [] (by simp)
  have h2 : quote x ≠ T.left := dq_ne_short quoteBody x _ hT.left
  have h3 : quote x ≠ T.right := dq_ne_short quoteBody x _ hT.right
  have h4 : handleToken T.quotes (quote x) = .ok (toCps x) := by
    rw [quote, handleToken_quoted _ hT.q, decodeQuoted_quoteBody]
  rw [insideBrackets, hg]
  simp only [h0, h2, h3, h4, if_false, PR.bind]

mutual
theorem inside_list {T : TokCfg} {l r : Char} (hT : BrTok T l r) (ts : List STree) (n : Nat) (rest : Str)
    (hn : sizeL ts + 1 ≤ n) :
    insideBrackets T n (bnd (renderList l r ts ++ r :: rest)) = .ok (toTrees ts, bnd rest) := by
  obtain ⟨m, rfl⟩ : ∃ m, n = m + 1 := ⟨n - 1, by omega⟩
  match ts with
  | [] =>
    simp only [renderList, List.nil_append, insideBrackets, getToken_punct r hT.r_ws hT.r_sep hT.r_q, hT.hr, toTrees]
    simp
  | .leaf x :: ts =>
    simp only [renderList, render, List.append_assoc]
    rw [inside_step_dq hT.toDqTok, inside_sp hT ts m rest (by simp [sizeL, STree.size] at hn; omega)]
    simp [PR.bind, toTrees, STree.toTree]
  | .node ts' :: ts =>
    simp only [renderList, render, List.append_assoc, List.cons_append, List.nil_append]
    rw [insideBrackets, getToken_punct l hT.l_ws hT.l_sep hT.l_q]
    have h1 : [l] ≠ T.right := by rw [hT.hr]; simp [hT.ne]
    simp only [hT.hl, h1, if_true, if_false, List.cons_ne_nil]
    rw [inside_list hT ts' m _ (by simp [sizeL, STree.size] at hn; omega)]
    simp only [PR.bind]
    rw [inside_sp hT ts m rest (by simp [sizeL, STree.size] at hn; omega)]
    simp [toTrees, STree.toTree]
theorem inside_sp {T : TokCfg} {l r : Char} (hT : BrTok T l r) (ts : List STree) (n : Nat) (rest : Str)
    (hn : sizeL ts + 1 ≤ n) :
    insideBrackets T n (bnd (renderSp l r ts ++ r :: rest)) = .ok (toTrees ts, bnd rest) := by
  obtain ⟨m, rfl⟩ : ∃ m, n = m + 1 := ⟨n - 1, by omega⟩
  match ts with
  | [] =>
    simp only [renderSp, List.nil_append, insideBrackets, getToken_punct r hT.r_ws hT.r_sep hT.r_q, hT.hr, toTrees]
    simp
  | .leaf x :: ts =>
    simp only [renderSp, render, List.append_assoc, List.cons_append]
    rw [insideBrackets, getToken_space hT.lex, ← insideBrackets]
    rw [inside_step_dq hT.toDqTok, inside_sp hT ts m rest (by simp [sizeL, STree.size] at hn; omega)]
    simp [PR.bind, toTrees, STree.toTree]
  | .node ts' :: ts =>
    simp only [renderSp, render, List.append_assoc, List.cons_append, List.nil_append]
    rw [insideBrackets, getToken_space hT.lex, getToken_punct l hT.l_ws hT.l_sep hT.l_q]
    have h1 : [l] ≠ T.right := by rw [hT.hr]; simp [hT.ne]
    simp only [hT.hl, h1, if_true, if_false, List.cons_ne_nil]
    rw [inside_list hT ts' m _ (by simp [sizeL, STree.size] at hn; omega)]
    simp only [PR.bind]
    rw [inside_sp hT ts m rest (by simp [sizeL, STree.size] at hn; omega)]
    simp [toTrees, STree.toTree]
end

mutual
theorem size_le_render (l r : Char) (t : STree) : t.size ≤ (render l r t).length := by
  match t with
  | .leaf x => simp [STree.size, render, quote]
  | .node ts => have := sizeL_le_renderList l r ts; simp [STree.size, render]; omega
theorem sizeL_le_renderList (l r : Char) (ts : List STree) : sizeL ts ≤ (renderList l r ts).length := by
  match ts with
  | [] => simp [sizeL]
  | t :: ts =>
    have := size_le_render l r t; have := sizeL_le_renderSp l r ts
    simp [sizeL, renderList]; omega
theorem sizeL_le_renderSp (l r : Char) (ts : List STree) : sizeL ts ≤ (renderSp l r ts).length := by
  match ts with
  | [] => simp [sizeL]
  | t :: ts =>
    have := size_le_render l r t; have := sizeL_le_renderSp l r ts
    simp [sizeL, renderSp]; omega
end

theorem topLoop_step_node {T : TokCfg} {l r : Char} (hT : BrTok T l r) (ts' : List STree) (n : Nat)
    (hn : sizeL ts' + 1 ≤ n) (rest : Str) (args : List Tree) (ends : List (List Tree)) :
    topLoop T (n + 1) (bnd (render l r (.node ts') ++ rest)) args ends =
      topLoop T n (bnd rest) (args ++ [.node (toTrees ts')]) ends := by
  simp only [render, List.append_assoc, List.cons_append, List.nil_append]
  rw [topLoop, getToken_punct l hT.l_ws hT.l_sep hT.l_q]
  have h1 : ¬ ([l] = ['|'] ∧ T.pipe = true) := fun h => hT.l_pipe (by simpa using h.1)
  simp only [h1, hT.hl, if_true, if_false, List.cons_ne_nil]
  rw [inside_list hT ts' n _ hn]
  simp only [PR.bind]

theorem topLoop_sp {T : TokCfg} {l r : Char} (hT : BrTok T l r) (ts : List STree) (n : Nat)
    (hn : sizeL ts + 1 ≤ n) (args : List Tree) :
    topLoop T n (bnd (renderSp l r ts)) args [] = .ok (args ++ toTrees ts, []) := by
  induction ts generalizing n args with
  | nil =>
    obtain ⟨m, rfl⟩ : ∃ m, n = m + 1 := ⟨n - 1, by omega⟩
    simp [renderSp, topLoop, getToken_eof, toTrees]
  | cons t ts ih =>
    obtain ⟨m, rfl⟩ : ∃ m, n = m + 1 := ⟨n - 1, by omega⟩
    rw [renderSp, List.cons_append, topLoop, getToken_space hT.lex, ← topLoop]
    cases t with
    | leaf x =>
      rw [show render l r (.leaf x) = dq quoteBody x from rfl,
        topLoop_step_dq hT.toDqTok quoteBody x (goodWriter_quoteBody x),
        ih m (by simp [sizeL, STree.size] at hn; omega)]
      simp [toTrees, STree.toTree]
    | node ts' =>
      rw [topLoop_step_node hT ts' m (by simp [sizeL, STree.size] at hn; omega),
        ih m (by simp [sizeL, STree.size] at hn; omega)]
      simp [toTrees, STree.toTree]

theorem tokenizeT_render {T : TokCfg} {l r : Char} (hT : BrTok T l r) (ts : List STree) :
    tokenizeT T (renderList l r ts) = .ok (toTrees ts) := by
  have hlen := sizeL_le_renderList l r ts
  cases ts with
  | nil => simp [tokenizeT, renderList, fuelFor, topLoop, initLexer, getToken, readLoop, PR.bind, assemble, toTrees]
  | cons t ts =>
    rw [tokenizeT, show initLexer (renderList l r (t :: ts)) = bnd (renderList l r (t :: ts)) from rfl,
      show fuelFor (renderList l r (t :: ts)) = (2 * (renderList l r (t :: ts)).length + 2) + 1 from rfl]
    rw [renderList] at hlen ⊢
    rw [List.length_append] at hlen ⊢
    have h2 := sizeL_le_renderSp l r ts
    cases t with
    | leaf x =>
      rw [show render l r (.leaf x) = dq quoteBody x from rfl,
        topLoop_step_dq hT.toDqTok quoteBody x (goodWriter_quoteBody x),
        topLoop_sp hT ts _ (by simp only [sizeL, STree.size] at hlen; omega)]
      simp [PR.bind, assemble, toTrees, STree.toTree]
    | node ts' =>
      rw [topLoop_step_node hT ts' _ (by simp only [sizeL, STree.size] at hlen; omega),
        topLoop_sp hT ts _ (by simp only [sizeL, STree.size] at hlen; omega)]
      simp [PR.bind, assemble, toTrees, STree.toTree]

/-- `renderList` is the items joined by single blanks -/
theorem renderList_eq_join (l r : Char) (ts : List STree) :
    renderList l r ts = joinChar ' ' (ts.map (render l r)) := by
  have hsp : ∀ (t : STree) (ts : List STree),
      joinChar ' ' ((t :: ts).map (render l r)) = render l r t ++ renderSp l r ts := by
    intro t ts
    induction ts generalizing t with
    | nil => simp [joinChar, renderSp]
    | cons u us ih => simp only [List.map_cons, joinChar] at ih ⊢; rw [ih u]; simp [renderSp]
  cases ts with
  | nil => simp [renderList, joinChar]
  | cons t ts => rw [hsp, renderList]

theorem brTok_of_mk {quotes : Str} {pipe : Bool} {T : TokCfg} {l r : Char}
    (ht : TablesOk Gen.shlexWhitespace Gen.validBrackets Gen.validQuoteChars)
    (hb : BracketOk Gen.shlexWhitespace Gen.validQuoteChars [l, r])
    (hsub : ∀ q ∈ quotes, q ∈ Gen.validQuoteChars)
    (hT : mkTokenizer [l, r] pipe quotes = .ok T) (hq : '"' ∈ quotes) : BrTok T l r := by
  have hd := dqTok_of_mk ht hb hT hq
  obtain ⟨hne, hlw, hrw, hlq, hrq, hlp, _⟩ := hb
  simp only [mkTokenizer] at hT
  cases hT
  exact { hd with
    hl := rfl, hr := rfl, ne := hne, l_ws := hlw, r_ws := hrw, l_pipe := hlp
    l_sep := by cases pipe <;> simp [TokCfg.lexCfg]
    r_sep := by cases pipe <;> simp [TokCfg.lexCfg]
    l_q := fun h => hlq (hsub _ h)
    r_q := fun h => hrq (hsub _ h) }

/-! ### nesting disabled: no sub-lists -/

def Tree.isLeaf : Tree → Prop
  | .leaf _ => True
  | .node _ => False

theorem topLoop_flat (T : TokCfg) (hl : T.left = []) (hr : T.right = []) (hp : T.pipe = false) :
    ∀ (n : Nat) (lx : Lexer) (args : List Tree) (a : List Tree) (e : List (List Tree)),
      (∀ t ∈ args, t.isLeaf) → topLoop T n lx args [] = .ok (a, e) → (∀ t ∈ a, t.isLeaf) ∧ e = [] := by
  intro n
  induction n with
  | zero => intro lx args a e _ h; simp [topLoop] at h
  | succ n ih =>
    intro lx args a e hargs h
    rw [topLoop] at h
    cases hg : getToken T.lexCfg lx with
    | hang => simp [hg, rtCast] at h
    | valueError => simp [hg, rtCast] at h
    | tok token lx' =>
      simp only [hg] at h
      by_cases h0 : token = []
      · simp only [h0, if_true] at h
        cases h
        exact ⟨hargs, rfl⟩
      · have h0' : ¬ ([] : Str) = token := fun e => h0 e.symm
        simp only [h0, hp, hl, hr, if_false, and_false, Bool.false_eq_true] at h
        cases hh : handleToken T.quotes token with
        | ok t =>
          simp only [hh, PR.bind] at h
          refine ih lx' _ a e ?_ h
          intro u hu
          rcases List.mem_append.1 hu with hu | hu
          · exact hargs u hu
          · simp at hu; subst hu; trivial
        | _ => simp [hh, PR.bind] at h
end C13
