/-
C13 — helper lemmas: lexer invariant and measure (no hang, fuel suffices), parser totality.
-/
import LimnoriaModel.C13.Model
namespace C13
open Py

/-- measure of a lexer at a `get_token` boundary -/
def mu (lx : Lexer) : Nat := 2 * lx.input.length + lx.pushback.length + (if lx.state = none then 0 else 1)

/-- invariant inside `read_token` -/
def Inv (cfg : LexCfg) (st : Option Char) (token : Str) : Prop :=
  st = none ∨ (st = some ' ' ∧ token = []) ∨ (st = some 'a' ∧ token ≠ []) ∨
  (∃ q, st = some q ∧ q ∈ cfg.quotes ∧ token ≠ [])

def Boundary (lx : Lexer) : Prop := lx.state = none ∨ lx.state = some ' '

def ReadSpec (input token : Str) (pb : List Str) : RT → Prop
  | .hang => False
  | .valueError => True
  | .tok t lx' => Boundary lx' ∧ (t ≠ [] → mu lx' + (if token = [] then 1 else 0) ≤ 2 * input.length + pb.length + 1)

theorem ReadSpec.step {cs token' : Str} {pb : List Str} {r : RT} (c : Char) (token : Str)
    (h : ReadSpec cs token' pb r) : ReadSpec (c :: cs) token pb r := by
  cases r with
  | hang => exact h
  | valueError => trivial
  | tok t lx =>
    refine ⟨h.1, fun ht => ?_⟩
    have := h.2 ht
    simp only [List.length_cons]
    split <;> split at this <;> omega

theorem readLoop_spec (cfg : LexCfg) (hs : ' ' ∉ cfg.quotes) (ha : 'a' ∉ cfg.quotes)
    (input : Str) (st : Option Char) (token : Str) (bs : Bool) (pb : List Str) (h : Inv cfg st token) :
    ReadSpec input token pb (readLoop cfg input st token bs pb) := by
  fun_induction readLoop cfg input st token bs pb
  all_goals (try (simp_all [ReadSpec, Boundary, mu, Inv]; done))
  all_goals (try (simp_all [ReadSpec, Boundary, mu, Inv]; omega))
  all_goals (try (apply ReadSpec.step; apply_assumption; simp_all [Inv]; done))
  · refine ⟨Or.inr rfl, fun _ => ?_⟩
    simp [mu]
    split <;> omega

theorem readLoop_none (cfg : LexCfg) (input token : Str) (bs : Bool) (pb : List Str) :
    ∃ lx, readLoop cfg input none token bs pb = .tok [] lx ∧ Boundary lx ∧ lx.pushback = pb ∧
      lx.input.length ≤ input.length := by
  cases input with
  | nil => exact ⟨_, rfl, Or.inl rfl, rfl, Nat.le_refl _⟩
  | cons c cs => exact ⟨_, rfl, Or.inl rfl, rfl, by simp⟩

/-- what one `get_token` call guarantees at a call boundary -/
def GetSpec (lx : Lexer) : RT → Prop
  | .hang => False
  | .valueError => True
  | .tok t lx' => Boundary lx' ∧ (t ≠ [] → mu lx' < mu lx)

theorem getToken_spec (cfg : LexCfg) (hs : ' ' ∉ cfg.quotes) (ha : 'a' ∉ cfg.quotes)
    (lx : Lexer) (hb : Boundary lx) : GetSpec lx (getToken cfg lx) := by
  unfold getToken
  split
  · rename_i t rest hpb
    refine ⟨hb, fun _ => ?_⟩
    simp [mu, hpb]
  · rename_i hpb
    rcases hb with hn | hsp
    · obtain ⟨lx', h1, h2, _, _⟩ := readLoop_none cfg lx.input [] lx.backslash []
      rw [hn, h1]
      exact ⟨h2, fun h => absurd rfl h⟩
    · have := readLoop_spec cfg hs ha lx.input lx.state [] lx.backslash [] (by simp [Inv, hsp])
      revert this
      cases readLoop cfg lx.input lx.state [] lx.backslash [] with
      | hang => exact id
      | valueError => intro _; trivial
      | tok t lx' =>
        intro h
        refine ⟨h.1, fun ht => ?_⟩
        have := h.2 ht
        simp [mu, hsp, hpb] at this ⊢
        omega

/-! ### parser totality -/

def PR.NoCrash {α : Type} : PR α → Prop
  | .crash _ => False
  | _ => True

theorem decodeQuoted_noCrash (content : Str) : (decodeQuoted content).NoCrash := by
  unfold decodeQuoted
  repeat' split
  all_goals trivial

theorem handleToken_noCrash (quotes token : Str) (h : token ≠ []) : (handleToken quotes token).NoCrash := by
  unfold handleToken
  split
  · split
    · exact decodeQuoted_noCrash _
    · trivial
  · rename_i h1
    exfalso
    cases token with
    | nil => exact h rfl
    | cons c cs =>
      have := h1 c ((c :: cs).getLast (by simp))
      simp [List.getLast?_eq_some_getLast] at this

/-- the quotes of the configuration never contain the two characters shlex uses as state names -/
def QuotesOk (q : Str) : Prop := ' ' ∉ q ∧ 'a' ∉ q

def InsideSpec (lx : Lexer) : PR (List Tree × Lexer) → Prop
  | .crash _ => False
  | .ok (_, lx') => Boundary lx' ∧ mu lx' < mu lx
  | _ => True

theorem insideBrackets_spec (T : TokCfg) (hq : QuotesOk T.quotes) :
    ∀ (n : Nat) (lx : Lexer), Boundary lx → mu lx < n → InsideSpec lx (insideBrackets T n lx) := by
  intro n
  induction n with
  | zero => intro lx _ h; omega
  | succ n ih =>
    intro lx hb hmu
    unfold insideBrackets
    have hg := getToken_spec T.lexCfg hq.1 hq.2 lx hb
    revert hg
    cases getToken T.lexCfg lx with
    | hang => exact id
    | valueError => intro _; trivial
    | tok token lx' =>
      intro hg
      simp only
      split
      · trivial
      · rename_i hne
        have hlt := hg.2 hne
        split
        · exact ⟨hg.1, hlt⟩
        · split
          · have h1 := ih lx' hg.1 (by omega)
            revert h1
            cases insideBrackets T n lx' with
            | ok p =>
              obtain ⟨sub, lx''⟩ := p
              intro h1
              simp only [PR.bind]
              have h2 := ih lx'' h1.1 (by have := h1.2; omega)
              revert h2
              cases insideBrackets T n lx'' with
              | ok p2 =>
                obtain ⟨rest, lx3⟩ := p2
                intro h2
                exact ⟨h2.1, Nat.lt_trans h2.2 (Nat.lt_trans h1.2 hlt)⟩
              | crash c => exact id
              | _ => intro _; trivial
            | crash c => exact id
            | _ => intro _; trivial
          · have h0 := handleToken_noCrash T.quotes token hne
            revert h0
            cases handleToken T.quotes token with
            | ok t =>
              intro _
              simp only [PR.bind]
              have h1 := ih lx' hg.1 (by omega)
              revert h1
              cases insideBrackets T n lx' with
              | ok p =>
                obtain ⟨rest, lx''⟩ := p
                intro h1
                exact ⟨h1.1, Nat.lt_trans h1.2 hlt⟩
              | crash c => exact id
              | _ => intro _; trivial
            | crash c => exact id
            | _ => intro _; trivial

theorem topLoop_noCrash (T : TokCfg) (hq : QuotesOk T.quotes) :
    ∀ (n : Nat) (lx : Lexer) (args : List Tree) (ends : List (List Tree)),
      Boundary lx → mu lx < n → (topLoop T n lx args ends).NoCrash := by
  intro n
  induction n with
  | zero => intro lx _ _ _ h; omega
  | succ n ih =>
    intro lx args ends hb hmu
    unfold topLoop
    have hg := getToken_spec T.lexCfg hq.1 hq.2 lx hb
    revert hg
    cases getToken T.lexCfg lx with
    | hang => exact id
    | valueError => intro _; trivial
    | tok token lx' =>
      intro hg
      simp only
      split
      · trivial
      · rename_i hne
        have hlt := hg.2 hne
        split
        · split
          · trivial
          · exact ih lx' _ _ hg.1 (by omega)
        · split
          · have h1 := insideBrackets_spec T hq n lx' hg.1 (by omega)
            revert h1
            cases insideBrackets T n lx' with
            | ok p =>
              obtain ⟨sub, lx''⟩ := p
              intro h1
              exact ih lx'' _ _ h1.1 (by have := h1.2; omega)
            | crash c => exact id
            | _ => intro _; trivial
          · split
            · trivial
            · have h0 := handleToken_noCrash T.quotes token hne
              revert h0
              cases handleToken T.quotes token with
              | ok t => intro _; exact ih lx' _ _ hg.1 (by omega)
              | crash c => exact id
              | _ => intro _; trivial

theorem assemble_noCrash (args : List Tree) (ends : List (List Tree)) : (assemble args ends).NoCrash := by
  unfold assemble
  repeat' split
  all_goals trivial

theorem tokenizeT_noCrash (T : TokCfg) (hq : QuotesOk T.quotes) (s : Str) : (tokenizeT T s).NoCrash := by
  unfold tokenizeT
  have h := topLoop_noCrash T hq (fuelFor s) (initLexer s) [] [] (Or.inr rfl)
    (by simp [mu, initLexer, fuelFor])
  revert h
  cases topLoop T (fuelFor s) (initLexer s) [] [] with
  | ok p => intro _; exact assemble_noCrash _ _
  | crash c => exact id
  | _ => intro _; trivial

/-! ### facts about the extracted tables on which the property theorems rest -/

def BracketOk (ws vq : Str) : Str → Prop
  | [] => True
  | [l, r] => l ≠ r ∧ l ∉ ws ∧ r ∉ ws ∧ l ∉ vq ∧ r ∉ vq ∧ l ≠ '|' ∧ r ≠ '|'
  | _ => False

instance (ws vq b : Str) : Decidable (BracketOk ws vq b) := by
  unfold BracketOk
  split <;> infer_instance

/-- `ws` = shlex whitespace, `vb` = ValidBrackets.validStrings, `vq` = characters ValidQuotes accepts -/
def TablesOk (ws : Str) (vb : List Str) (vq : Str) : Prop :=
  (∀ b ∈ vb, BracketOk ws vq b) ∧ ' ' ∈ ws ∧ '"' ∉ ws ∧ ' ' ∉ vq ∧ 'a' ∉ vq

instance (ws : Str) (vb : List Str) (vq : Str) : Decidable (TablesOk ws vb vq) := by
  unfold TablesOk; infer_instance

/-- a configuration that passed the registry's validation (`ValidBrackets`, `ValidQuotes`) -/
def Conf.Valid (c : Conf) : Prop :=
  c.brackets ∈ Gen.validBrackets ∧ ∀ q ∈ c.quotes, q ∈ Gen.validQuoteChars

instance (c : Conf) : Decidable c.Valid := by unfold Conf.Valid; infer_instance

theorem Conf.Valid.quotesOk {c : Conf} (hv : c.Valid)
    (ht : TablesOk Gen.shlexWhitespace Gen.validBrackets Gen.validQuoteChars) : QuotesOk c.quotes :=
  ⟨fun h => ht.2.2.2.1 (hv.2 _ h), fun h => ht.2.2.2.2 (hv.2 _ h)⟩

theorem effBrackets_ok {c : Conf} (hv : c.Valid)
    (ht : TablesOk Gen.shlexWhitespace Gen.validBrackets Gen.validQuoteChars) :
    BracketOk Gen.shlexWhitespace Gen.validQuoteChars (effBrackets c) := by
  unfold effBrackets
  split
  · exact ht.1 _ hv.1
  · trivial

theorem mkTokenizer_ok {ws vq b : Str} (hb : BracketOk ws vq b) (pipe : Bool) (quotes : Str) :
    ∃ T, mkTokenizer b pipe quotes = .ok T ∧ T.quotes = quotes ∧ T.pipe = pipe ∧
      ((b = [] ∧ T.left = [] ∧ T.right = []) ∨ (∃ l r, b = [l, r] ∧ T.left = [l] ∧ T.right = [r])) ∧
      T.separators = (if pipe then Gen.tokenizerSeparators ++ b ++ ['|'] else Gen.tokenizerSeparators ++ b) ++ quotes := by
  match b, hb with
  | [], _ => exact ⟨_, rfl, rfl, rfl, Or.inl ⟨rfl, rfl, rfl⟩, by simp⟩
  | [l, r], _ => exact ⟨_, rfl, rfl, rfl, Or.inr ⟨l, r, rfl, rfl, rfl⟩, rfl⟩
end C13
