/-
C13 — helper lemmas: lexer invariant and measure (no hang, fuel suffices), parser totality.
-/
import LimnoriaModel.C13.Model
namespace C13
open Py

variable {nm : Names}

/-- measure of a lexer at a `get_token` boundary -/
def mu (lx : Lexer) : Nat := 2 * lx.input.length + lx.pushback.length + (if lx.state = none then 0 else 1)

/-- invariant inside `read_token` -/
def Inv (cfg : LexCfg) (st : Option Char) (token : Str) : Prop :=
  st = none ∨ (st = some ' ' ∧ token = []) ∨ (st = some 'a' ∧ token ≠ []) ∨
  (∃ q, st = some q ∧ q ∈ cfg.quotes ∧ token ≠ [])

def Boundary (lx : Lexer) : Prop := lx.state = none ∨ lx.state = some ' '

def ReadSpec (input token : Str) (pb : List Str) : RT → Prop
  | .hang => False
  | .valueError => True
  | .tok t lx' => Boundary lx' ∧ (t ≠ [] → mu lx' + (if token = [] then 1 else 0) ≤ 2 * input.length + pb.length + 1)

theorem ReadSpec.step {cs token' : Str} {pb : List Str} {r : RT} (c : Char) (token : Str)
    (h : ReadSpec cs token' pb r) : ReadSpec (c :: cs) token pb r := by
  cases r with
  | hang => exact h
  | valueError => trivial
  | tok t lx =>
    refine ⟨h.1, fun ht => ?_⟩
    have := h.2 ht
    simp only [List.length_cons]
    split <;> split at this <;> omega

theorem readLoop_spec (cfg : LexCfg) (hs : ' ' ∉ cfg.quotes) (ha : 'a' ∉ cfg.quotes)
    (input : Str) (st : Option Char) (token : Str) (bs : Bool) (pb : List Str) (h : Inv cfg st token) :
    ReadSpec input token pb (readLoop cfg input st token bs pb) := by
  fun_induction readLoop cfg input st token bs pb
  all_goals (try (simp_all [ReadSpec, Boundary, mu, Inv]; done))
  all_goals (try (simp_all [ReadSpec, Boundary, mu, Inv]; omega))
  all_goals (try (apply ReadSpec.step; apply_assumption; simp_all [Inv]; done))
  · refine ⟨Or.inr rfl, fun _ => ?_⟩
    simp [mu]
    split <;> omega

theorem readLoop_none (cfg : LexCfg) (input token : Str) (bs : Bool) (pb : List Str) :
    ∃ lx, readLoop cfg input none token bs pb = .tok [] lx ∧ Boundary lx ∧ lx.pushback = pb ∧
      lx.input.length ≤ input.length := by
  cases input with
  | nil => exact ⟨_, rfl, Or.inl rfl, rfl, Nat.le_refl _⟩
  | cons c cs => exact ⟨_, rfl, Or.inl rfl, rfl, by simp⟩

/-- what one `get_token` call guarantees at a call boundary -/
def GetSpec (lx : Lexer) : RT → Prop
  | .hang => False
  | .valueError => True
  | .tok t lx' => Boundary lx' ∧ (t ≠ [] → mu lx' < mu lx)

theorem getToken_spec (cfg : LexCfg) (hs : ' ' ∉ cfg.quotes) (ha : 'a' ∉ cfg.quotes)
    (lx : Lexer) (hb : Boundary lx) : GetSpec lx (getToken cfg lx) := by
  unfold getToken
  split
  · rename_i t rest hpb
    refine ⟨hb, fun _ => ?_⟩
    simp [mu, hpb]
  · rename_i hpb
    rcases hb with hn | hsp
    · obtain ⟨lx', h1, h2, _, _⟩ := readLoop_none cfg lx.input [] lx.backslash []
      rw [hn, h1]
      exact ⟨h2, fun h => absurd rfl h⟩
    · have := readLoop_spec cfg hs ha lx.input lx.state [] lx.backslash [] (by simp [Inv, hsp])
      revert this
      cases readLoop cfg lx.input lx.state [] lx.backslash [] with
      | hang => exact id
      | valueError => intro _; trivial
      | tok t lx' =>
        intro h
        refine ⟨h.1, fun ht => ?_⟩
        have := h.2 ht
        simp [mu, hsp, hpb] at this ⊢
        omega

/-! ### parser totality -/

def PR.NoCrash {α : Type} : PR α → Prop
  | .crash _ => False
  | _ => True

theorem decodeQuoted_noCrash (content : Str) : (decodeQuoted nm content).NoCrash := by
  unfold decodeQuoted checkScalar
  repeat' split
  all_goals trivial

theorem handleToken_noCrash (quotes token : Str) (h : token ≠ []) : (handleToken nm quotes token).NoCrash := by
  unfold handleToken
  split
  · split
    · exact decodeQuoted_noCrash _
    · trivial
  · rename_i h1
    exfalso
    cases token with
    | nil => exact h rfl
    | cons c cs =>
      have := h1 c ((c :: cs).getLast (by simp))
      simp [List.getLast?_eq_some_getLast] at this

/-- the quotes of the configuration never contain the two characters shlex uses as state names -/
def QuotesOk (q : Str) : Prop := ' ' ∉ q ∧ 'a' ∉ q

def InsideSpec (lx : Lexer) : PR (List Tree × Lexer) → Prop
  | .crash _ => False
  | .ok (_, lx') => Boundary lx' ∧ mu lx' < mu lx
  | _ => True

theorem insideBrackets_spec (T : TokCfg) (hq : QuotesOk T.quotes) :
    ∀ (n : Nat) (lx : Lexer), Boundary lx → mu lx < n → InsideSpec lx (insideBrackets T n lx) := by
  intro n
  induction n with
  | zero => intro lx _ h; omega
  | succ n ih =>
    intro lx hb hmu
    unfold insideBrackets
    have hg := getToken_spec T.lexCfg hq.1 hq.2 lx hb
    revert hg
    cases getToken T.lexCfg lx with
    | hang => exact id
    | valueError => intro _; trivial
    | tok token lx' =>
      intro hg
      simp only
      split
      · trivial
      · rename_i hne
        have hlt := hg.2 hne
        split
        · exact ⟨hg.1, hlt⟩
        · split
          · have h1 := ih lx' hg.1 (by omega)
            revert h1
            cases insideBrackets T n lx' with
            | ok p =>
              obtain ⟨sub, lx''⟩ := p
              intro h1
              simp only [PR.bind]
              have h2 := ih lx'' h1.1 (by have := h1.2; omega)
              revert h2
              cases insideBrackets T n lx'' with
              | ok p2 =>
                obtain ⟨rest, lx3⟩ := p2
                intro h2
                exact ⟨h2.1, Nat.lt_trans h2.2 (Nat.lt_trans h1.2 hlt)⟩
              | crash c => exact id
              | _ => intro _; trivial
            | crash c => exact id
            | _ => intro _; trivial
          · have h0 := handleToken_noCrash (nm := T.names) T.quotes token hne
            revert h0
            cases handleToken T.names T.quotes token with
            | ok t =>
              intro _
              simp only [PR.bind]
              have h1 := ih lx' hg.1 (by omega)
              revert h1
              cases insideBrackets T n lx' with
              | ok p =>
                obtain ⟨rest, lx''⟩ := p
                intro h1
                exact ⟨h1.1, Nat.lt_trans h1.2 hlt⟩
              | crash c => exact id
              | _ => intro _; trivial
            | crash c => exact id
            | _ => intro _; trivial

theorem topLoop_noCrash (T : TokCfg) (hq : QuotesOk T.quotes) :
    ∀ (n : Nat) (lx : Lexer) (args : List Tree) (ends : List (List Tree)),
      Boundary lx → mu lx < n → (topLoop T n lx args ends).NoCrash := by
  intro n
  induction n with
  | zero => intro lx _ _ _ h; omega
  | succ n ih =>
    intro lx args ends hb hmu
    unfold topLoop
    have hg := getToken_spec T.lexCfg hq.1 hq.2 lx hb
    revert hg
    cases getToken T.lexCfg lx with
    | hang => exact id
    | valueError => intro _; trivial
    | tok token lx' =>
      intro hg
      simp only
      split
      · trivial
      · rename_i hne
        have hlt := hg.2 hne
        split
        · split
          · trivial
          · exact ih lx' _ _ hg.1 (by omega)
        · split
          · have h1 := insideBrackets_spec T hq n lx' hg.1 (by omega)
            revert h1
            cases insideBrackets T n lx' with
            | ok p =>
              obtain ⟨sub, lx''⟩ := p
              intro h1
              exact ih lx'' _ _ h1.1 (by have := h1.2; omega)
            | crash c => exact id
            | _ => intro _; trivial
          · split
            · trivial
            · have h0 := handleToken_noCrash (nm := T.names) T.quotes token hne
              revert h0
              cases handleToken T.names T.quotes token with
              | ok t => intro _; exact ih lx' _ _ hg.1 (by omega)
              | crash c => exact id
              | _ => intro _; trivial

theorem assemble_noCrash (args : List Tree) (ends : List (List Tree)) : (assemble args ends).NoCrash := by
  unfold assemble
  repeat' split
  all_goals trivial

theorem tokenizeT_noCrash (T : TokCfg) (hq : QuotesOk T.quotes) (s : Str) : (tokenizeT T s).NoCrash := by
  unfold tokenizeT
  have h := topLoop_noCrash T hq (fuelFor s) (initLexer s) [] [] (Or.inr rfl)
    (by simp [mu, initLexer, fuelFor])
  revert h
  cases topLoop T (fuelFor s) (initLexer s) [] [] with
  | ok p => intro _; exact assemble_noCrash _ _
  | crash c => exact id
  | _ => intro _; trivial

/-! ### facts about the extracted tables on which the property theorems rest -/

def BracketOk (ws vq : Str) : Str → Prop
  | [] => True
  | [l, r] => l ≠ r ∧ l ∉ ws ∧ r ∉ ws ∧ l ∉ vq ∧ r ∉ vq ∧ l ≠ '|' ∧ r ≠ '|'
  | _ => False

instance (ws vq b : Str) : Decidable (BracketOk ws vq b) := by
  unfold BracketOk
  split <;> infer_instance

/-- `ws` = shlex whitespace, `vb` = ValidBrackets.validStrings, `vq` = characters ValidQuotes accepts -/
def TablesOk (ws : Str) (vb : List Str) (vq : Str) : Prop :=
  (∀ b ∈ vb, BracketOk ws vq b) ∧ ' ' ∈ ws ∧ '"' ∉ ws ∧ ' ' ∉ vq ∧ 'a' ∉ vq

instance (ws : Str) (vb : List Str) (vq : Str) : Decidable (TablesOk ws vb vq) := by
  unfold TablesOk; infer_instance

/-- a configuration that passed the registry's validation (`ValidBrackets`, `ValidQuotes`) -/
def Conf.Valid (c : Conf) : Prop :=
  c.brackets ∈ Gen.validBrackets ∧ ∀ q ∈ c.quotes, q ∈ Gen.validQuoteChars

instance (c : Conf) : Decidable c.Valid := by unfold Conf.Valid; infer_instance

theorem Conf.Valid.quotesOk {c : Conf} (hv : c.Valid)
    (ht : TablesOk Gen.shlexWhitespace Gen.validBrackets Gen.validQuoteChars) : QuotesOk c.quotes :=
  ⟨fun h => ht.2.2.2.1 (hv.2 _ h), fun h => ht.2.2.2.2 (hv.2 _ h)⟩

theorem effBrackets_ok {c : Conf} (hv : c.Valid)
    (ht : TablesOk Gen.shlexWhitespace Gen.validBrackets Gen.validQuoteChars) :
    BracketOk Gen.shlexWhitespace Gen.validQuoteChars (effBrackets c) := by
  unfold effBrackets
  split
  · exact ht.1 _ hv.1
  · trivial

theorem mkTokenizer_ok {ws vq b : Str} (hb : BracketOk ws vq b) (pipe : Bool) (quotes : Str) (names : Names) :
    ∃ T, mkTokenizer b pipe quotes names = .ok T ∧ T.names = names ∧ T.quotes = quotes ∧ T.pipe = pipe ∧
      ((b = [] ∧ T.left = [] ∧ T.right = []) ∨ (∃ l r, b = [l, r] ∧ T.left = [l] ∧ T.right = [r])) ∧
      T.separators = (if pipe then Gen.tokenizerSeparators ++ b ++ ['|'] else Gen.tokenizerSeparators ++ b) ++ quotes := by
  match b, hb with
  | [], _ => exact ⟨_, rfl, rfl, rfl, rfl, Or.inl ⟨rfl, rfl, rfl⟩, by simp⟩
  | [l, r], _ => exact ⟨_, rfl, rfl, rfl, rfl, Or.inr ⟨l, r, rfl, rfl, rfl⟩, rfl⟩

/-! ### UTF-8 facts (from the core encoder) -/

theorem or_ge (x m : UInt8) (hm : 128 ≤ m.toNat) : 128 ≤ (x ||| m).toNat := by
  rw [UInt8.toNat_or]; exact Nat.le_trans hm Nat.right_le_or

/-- a byte below 0x80 in the UTF-8 encoding of `c` is the whole encoding, and `c` is that ASCII character -/
theorem ascii_byte_of_utf8 (c : Char) (b : UInt8) (hb : b ∈ String.utf8EncodeChar c) (hlt : b.toNat < 128) :
    String.utf8EncodeChar c = [b] ∧ c.toNat = b.toNat := by
  have h1 := c.utf8Size_pos
  have h4 := c.utf8Size_le_four
  rcases (by omega : c.utf8Size = 1 ∨ c.utf8Size = 2 ∨ c.utf8Size = 3 ∨ c.utf8Size = 4) with h | h | h | h
  · rw [String.utf8EncodeChar_eq_singleton h] at hb ⊢
    simp only [List.mem_cons, List.not_mem_nil, or_false] at hb
    subst hb
    refine ⟨rfl, ?_⟩
    have := Char.utf8Size_eq_one_iff.1 h
    rw [UInt32.le_iff_toNat_le] at this
    show c.val.toNat = c.val.toUInt8.toNat
    rw [UInt32.toNat_toUInt8]
    simp only [UInt32.reduceToNat] at this
    omega
  · rw [String.utf8EncodeChar_eq_cons_cons h] at hb
    simp only [List.mem_cons, List.not_mem_nil, or_false] at hb
    rcases hb with rfl | rfl
    · have := or_ge ((c.val >>> 6).toUInt8 &&& 0x1f) 0xc0 (by decide); omega
    · have := or_ge (c.val.toUInt8 &&& 0x3f) 0x80 (by decide); omega
  · rw [String.utf8EncodeChar_eq_cons_cons_cons h] at hb
    simp only [List.mem_cons, List.not_mem_nil, or_false] at hb
    rcases hb with rfl | rfl | rfl
    · have := or_ge ((c.val >>> 12).toUInt8 &&& 0x0f) 0xe0 (by decide); omega
    · have := or_ge ((c.val >>> 6).toUInt8 &&& 0x3f) 0x80 (by decide); omega
    · have := or_ge (c.val.toUInt8 &&& 0x3f) 0x80 (by decide); omega
  · rw [String.utf8EncodeChar_eq_cons_cons_cons_cons h] at hb
    simp only [List.mem_cons, List.not_mem_nil, or_false] at hb
    rcases hb with rfl | rfl | rfl | rfl
    · have := or_ge ((c.val >>> 18).toUInt8 &&& 0x07) 0xf0 (by decide); omega
    · have := or_ge ((c.val >>> 12).toUInt8 &&& 0x3f) 0x80 (by decide); omega
    · have := or_ge ((c.val >>> 6).toUInt8 &&& 0x3f) 0x80 (by decide); omega
    · have := or_ge (c.val.toUInt8 &&& 0x3f) 0x80 (by decide); omega

theorem utf8_append (a b : Str) : utf8 (a ++ b) = utf8 a ++ utf8 b := by simp [utf8]

theorem utf8_cons (c : Char) (s : Str) : utf8 (c :: s) = String.utf8EncodeChar c ++ utf8 s := by simp [utf8]

theorem utf8Decode?_utf8 (s : Str) : utf8Decode? (utf8 s) = some s := by
  have : (utf8 s).toByteArray = s.utf8Encode := rfl
  simp [utf8Decode?, this]

theorem char_eq_of_toNat {c d : Char} (h : c.toNat = d.toNat) : c = d := by
  apply Char.ext
  apply UInt32.toNat_inj.1
  exact h

theorem no_backslash_byte (c : Char) (hc : c ≠ '\\') : ∀ b ∈ String.utf8EncodeChar c, b ≠ 0x5C := by
  intro b hb h
  subst h
  have := (ascii_byte_of_utf8 c 0x5C hb (by decide)).2
  exact hc (char_eq_of_toNat this)

/-! ### the `unicode_escape` decoder on escape-free bytes -/

def prependR (l : List Nat) (r : Except UErr (List Nat)) : Except UErr (List Nat) := l.foldr consR r

theorem prependR_ok (l m : List Nat) : prependR l (.ok m) = .ok (l ++ m) := by
  induction l with
  | nil => rfl
  | cons a l ih => simp [prependR, consR] at ih ⊢; rw [ih]

theorem uesc_normal_plain (bs r : List UInt8) (h : ∀ b ∈ bs, b ≠ 0x5C) :
    uesc nm .normal (bs ++ r) = prependR (bs.map UInt8.toNat) (uesc nm .normal r) := by
  induction bs with
  | nil => rfl
  | cons b bs ih =>
    have hb : b ≠ 0x5C := h b (by simp)
    have := ih (fun b' hb' => h b' (by simp [hb']))
    simp only [List.cons_append, uesc, hb, if_false, this, List.map_cons, prependR, List.foldr_cons]

theorem latin1?_bytes (bs : List UInt8) : latin1? (bs.map UInt8.toNat) = some bs := by
  induction bs with
  | nil => rfl
  | cons b bs ih =>
    have : b.toNat < 256 := b.toNat_lt
    simp [latin1?, ih, this]

/-! ### the codec chain on manually quoted text -/

theorem utf8_backslash : String.utf8EncodeChar '\\' = [0x5C] := by decide
theorem utf8_dq : String.utf8EncodeChar '"' = [0x22] := by decide

theorem quoteBody_cons (c : Char) (x : Str) :
    quoteBody (c :: x) = (if c = '\\' ∨ c = '"' then ['\\', c] else [c]) ++ quoteBody x := by
  simp [quoteBody]

theorem prependR_append (a b : List Nat) (r) : prependR (a ++ b) r = prependR a (prependR b r) := by
  simp [prependR]

theorem uesc_quoteBody_append (x : Str) (r : List UInt8) :
    uesc nm .normal (utf8 (quoteBody x) ++ r) = prependR ((utf8 x).map UInt8.toNat) (uesc nm .normal r) := by
  induction x with
  | nil => rfl
  | cons c x ih =>
    rw [quoteBody_cons, utf8_append, List.append_assoc, utf8_cons c x, List.map_append, prependR_append]
    by_cases h1 : c = '\\'
    · subst h1
      have e : utf8 ['\\', '\\'] = [0x5C, 0x5C] := by decide
      simp only [true_or, if_true, e, utf8_backslash, List.cons_append, List.nil_append]
      simp [uesc, simpleEsc, ih, prependR]
    · by_cases h2 : c = '"'
      · subst h2
        have e : utf8 ['\\', '"'] = [0x5C, 0x22] := by decide
        simp only [or_true, if_true, e, utf8_dq, List.cons_append, List.nil_append]
        simp [uesc, simpleEsc, ih, prependR]
      · have e : utf8 [c] = String.utf8EncodeChar c := by simp [utf8]
        simp only [h1, h2, or_self, if_false, e]
        rw [uesc_normal_plain _ _ (no_backslash_byte c h1), ih]

theorem decodeQuoted_quoteBody (x : Str) : decodeQuoted nm (quoteBody x) = .ok (toCps x) := by
  have h := uesc_quoteBody_append (nm := nm) x []
  simp only [List.append_nil, uesc, prependR_ok] at h
  simp [decodeQuoted, h, latin1?_bytes, utf8Decode?_utf8]

/-! ### lexing quoted tokens -/

/-- text between double quotes in which every `\` and `"` is preceded by an (unescaped) backslash -/
inductive Safe : Str → Prop
  | nil : Safe []
  | plain (c : Char) (s : Str) : c ≠ '\\' → c ≠ '"' → Safe s → Safe (c :: s)
  | esc (d : Char) (s : Str) : Safe s → Safe ('\\' :: d :: s)

theorem Safe.append {a b : Str} (ha : Safe a) (hb : Safe b) : Safe (a ++ b) := by
  induction ha with
  | nil => exact hb
  | plain c s h1 h2 _ ih => exact .plain c _ h1 h2 ih
  | esc d s _ ih => exact .esc d _ ih

theorem safe_quoteBody (x : Str) : Safe (quoteBody x) := by
  induction x with
  | nil => exact .nil
  | cons c x ih =>
    rw [quoteBody_cons]
    by_cases h : c = '\\' ∨ c = '"'
    · simp only [h, if_true]; exact .esc c _ ih
    · simp only [h, if_false]
      exact .plain c _ (fun e => h (Or.inl e)) (fun e => h (Or.inr e)) ih

theorem readLoop_safe (cfg : LexCfg) (hq : '"' ∈ cfg.quotes) (body rest : Str) (hs : Safe body)
    (token : Str) (pb : List Str) :
    readLoop cfg (body ++ '"' :: rest) (some '"') token false pb =
      .tok (token ++ body ++ ['"']) ⟨rest, some ' ', false, pb⟩ := by
  induction hs generalizing token with
  | nil => simp [readLoop, hq]
  | plain c s h1 h2 _ ih =>
    simp only [List.cons_append, readLoop, hq, h1, h2]
    simp [ih]
  | esc d s _ ih =>
    simp only [List.cons_append, readLoop, hq]
    by_cases hd : d = '\\'
    · subst hd; simp [ih]
    · simp [hd, ih]

/-- the lexer configuration facts the round-trip theorems use -/
structure DqCfg (cfg : LexCfg) : Prop where
  sp_ws : ' ' ∈ cfg.whitespace
  dq_ws : '"' ∉ cfg.whitespace
  dq_sep : '"' ∈ cfg.separators
  dq_q : '"' ∈ cfg.quotes

def bnd (inp : Str) : Lexer := ⟨inp, some ' ', false, []⟩

theorem getToken_quoted {cfg : LexCfg} (h : DqCfg cfg) (body rest : Str) (hs : Safe body) :
    getToken cfg (bnd ('"' :: body ++ '"' :: rest)) = .tok ('"' :: body ++ ['"']) (bnd rest) := by
  simp only [getToken, bnd, List.cons_append, readLoop, h.dq_ws, h.dq_sep, h.dq_q]
  simp [readLoop_safe cfg h.dq_q body rest hs]

theorem getToken_space {cfg : LexCfg} (h : DqCfg cfg) (inp : Str) :
    getToken cfg (bnd (' ' :: inp)) = getToken cfg (bnd inp) := by
  simp [getToken, bnd, readLoop, h.sp_ws]

theorem getToken_eof (cfg : LexCfg) : getToken cfg (bnd []) = .tok [] ⟨[], none, false, []⟩ := by
  simp [getToken, bnd, readLoop]

theorem getToken_punct {cfg : LexCfg} (l : Char) (hw : l ∉ cfg.whitespace) (hsep : l ∈ cfg.separators)
    (hq : l ∉ cfg.quotes) (inp : Str) :
    getToken cfg (bnd (l :: inp)) = .tok [l] (bnd inp) := by
  simp [getToken, bnd, readLoop, hw, hsep, hq]

theorem handleToken_quoted (quotes : Str) (hq : '"' ∈ quotes) (body : Str) :
    handleToken nm quotes ('"' :: body ++ ['"']) = decodeQuoted nm body := by
  have h1 : ('"' :: body ++ ['"']).getLast? = some '"' := by
    rw [show '"' :: body ++ ['"'] = ('"' :: body) ++ ['"'] from rfl, List.getLast?_append]; rfl
  have h2 : (List.drop 1 ('"' :: body ++ ['"'])).dropLast = body := by simp
  unfold handleToken
  rw [h1, h2]
  simp [hq]

/-! ### parsing a blank-separated list of quoted tokens -/

/-- a quoted token written with body-writer `w` -/
def dq (w : Str → Str) (x : Str) : Str := '"' :: w x ++ ['"']

/-- every item preceded by one blank -/
def spaced (w : Str → Str) (xs : List Str) : Str := xs.flatMap fun x => ' ' :: dq w x

theorem joinChar_dq (w : Str → Str) (x : Str) (xs : List Str) :
    joinChar ' ' ((x :: xs).map (dq w)) = dq w x ++ spaced w xs := by
  induction xs generalizing x with
  | nil => simp [joinChar, spaced]
  | cons y ys ih =>
    simp only [List.map_cons, joinChar] at ih ⊢
    rw [ih y]
    simp [spaced]

/-- what the parser needs to know about the Tokenizer instance for quoted tokens -/
structure DqTok (T : TokCfg) : Prop where
  lex : DqCfg T.lexCfg
  q : '"' ∈ T.quotes
  left : T.left.length ≤ 1
  right : T.right.length ≤ 1

/-- a writer whose output is lexed as one token and decoded back to the argument -/
def GoodWriter (nm : Names) (w : Str → Str) (val : Str → List Nat) (x : Str) : Prop :=
  Safe (w x) ∧ decodeQuoted nm (w x) = .ok (val x)

theorem dq_ne_short (w : Str → Str) (x : Str) (t : Str) (h : t.length ≤ 1) : dq w x ≠ t := by
  intro e
  have := congrArg List.length e
  simp [dq] at this
  omega

theorem topLoop_step_dq {T : TokCfg} (hT : DqTok T) (w : Str → Str) (val : Str → List Nat) (x : Str)
    (hx : GoodWriter T.names w val x)
    (n : Nat) (rest : Str) (args : List Tree) (ends : List (List Tree)) :
    topLoop T (n + 1) (bnd (dq w x ++ rest)) args ends =
      topLoop T n (bnd rest) (args ++ [.leaf (val x)]) ends := by
  have hg : getToken T.lexCfg (bnd (dq w x ++ rest)) = .tok (dq w x) (bnd rest) := by
    have := getToken_quoted hT.lex (w x) rest hx.1
    simpa [dq] using this
  have h0 : dq w x ≠ [] := dq_ne_short w x [] (by simp)
  have h1 : ¬ (dq w x = ['|'] ∧ T.pipe = true) := fun h => dq_ne_short w x ['|'] (by simp) h.1
  have h2 : dq w x ≠ T.left := dq_ne_short w x _ hT.left
  have h3 : dq w x ≠ T.right := dq_ne_short w x _ hT.right
  have h4 : handleToken T.names T.quotes (dq w x) = .ok (val x) := by
    rw [dq, handleToken_quoted _ hT.q, hx.2]
  rw [topLoop, hg]
  simp only [h0, h1, h2, h3, h4, if_false, PR.bind]

theorem topLoop_spaced {T : TokCfg} (hT : DqTok T) (w : Str → Str) (val : Str → List Nat) (xs : List Str)
    (hx : ∀ x ∈ xs, GoodWriter T.names w val x) (n : Nat) (hn : xs.length + 1 ≤ n) (args : List Tree) :
    topLoop T n (bnd (spaced w xs)) args [] = .ok (args ++ xs.map fun x => .leaf (val x), []) := by
  induction xs generalizing n args with
  | nil =>
    obtain ⟨m, rfl⟩ : ∃ m, n = m + 1 := ⟨n - 1, by simp at hn; omega⟩
    simp [spaced, topLoop, getToken_eof]
  | cons x xs ih =>
    obtain ⟨m, rfl⟩ : ∃ m, n = m + 1 := ⟨n - 1, by simp at hn; omega⟩
    have e : spaced w (x :: xs) = ' ' :: (dq w x ++ spaced w xs) := by simp [spaced]
    rw [e, topLoop, getToken_space hT.lex, ← topLoop, topLoop_step_dq hT w val x (hx x (by simp))]
    rw [ih (fun y hy => hx y (by simp [hy])) m (by simp at hn; omega)]
    simp

theorem tokenizeT_dq {T : TokCfg} (hT : DqTok T) (w : Str → Str) (val : Str → List Nat) (xs : List Str)
    (hx : ∀ x ∈ xs, GoodWriter T.names w val x) :
    tokenizeT T (joinChar ' ' (xs.map (dq w))) = .ok (xs.map fun x => .leaf (val x)) := by
  cases xs with
  | nil => simp [tokenizeT, joinChar, fuelFor, topLoop, initLexer, getToken, readLoop, PR.bind, assemble]
  | cons x xs =>
    rw [joinChar_dq, tokenizeT, show initLexer (dq w x ++ spaced w xs) = bnd (dq w x ++ spaced w xs) from rfl]
    have hlen : xs.length ≤ (spaced w xs).length := by
      clear hx
      induction xs with
      | nil => simp
      | cons y ys ih => simp [spaced] at ih ⊢; omega
    rw [show fuelFor (dq w x ++ spaced w xs) = (2 * (dq w x ++ spaced w xs).length + 2) + 1 from rfl,
      topLoop_step_dq hT w val x (hx x (by simp)),
      topLoop_spaced hT w val xs (fun y hy => hx y (by simp [hy])) _ (by simp; omega)]
    simp [PR.bind, assemble]

theorem dqTok_of_mk {b quotes : Str} {pipe : Bool} {T : TokCfg} {names : Names}
    (ht : TablesOk Gen.shlexWhitespace Gen.validBrackets Gen.validQuoteChars)
    (hb : BracketOk Gen.shlexWhitespace Gen.validQuoteChars b)
    (hT : mkTokenizer b pipe quotes names = .ok T) (hq : '"' ∈ quotes) : DqTok T := by
  obtain ⟨T', hT', _, hTq, _, hlr, hsep⟩ := mkTokenizer_ok hb pipe quotes names
  rw [hT] at hT'
  cases hT'
  have hq' : '"' ∈ T.quotes := hTq ▸ hq
  refine ⟨⟨ht.2.1, ht.2.2.1, ?_, hq'⟩, hq', ?_, ?_⟩
  · show '"' ∈ T.separators
    rw [hsep]; exact List.mem_append_right _ hq
  · rcases hlr with ⟨_, h, _⟩ | ⟨l, r, _, h, _⟩ <;> simp [h]
  · rcases hlr with ⟨_, _, h⟩ | ⟨l, r, _, _, h⟩ <;> simp [h]

theorem goodWriter_quoteBody (x : Str) : GoodWriter nm quoteBody toCps x :=
  ⟨safe_quoteBody x, decodeQuoted_quoteBody x⟩

/-! ### rendering and re-reading nested commands -/

/-- source trees: what the user means -/
inductive STree where
  | leaf (x : Str)
  | node (ts : List STree)

mutual
def STree.toTree : STree → Tree
  | .leaf x => .leaf (toCps x)
  | .node ts => .node (toTrees ts)
def toTrees : List STree → List Tree
  | [] => []
  | t :: ts => t.toTree :: toTrees ts
end

mutual
/-- a leaf is written in double quotes, a sub-command between the brackets -/
def render (l r : Char) : STree → Str
  | .leaf x => quote x
  | .node ts => l :: renderList l r ts ++ [r]
/-- items separated by one blank -/
def renderList (l r : Char) : List STree → Str
  | [] => []
  | t :: ts => render l r t ++ renderSp l r ts
/-- every item preceded by one blank -/
def renderSp (l r : Char) : List STree → Str
  | [] => []
  | t :: ts => ' ' :: render l r t ++ renderSp l r ts
end

mutual
def STree.size : STree → Nat
  | .leaf _ => 1
  | .node ts => 2 + sizeL ts
def sizeL : List STree → Nat
  | [] => 0
  | t :: ts => t.size + sizeL ts
end

/-- what the parser needs to know about the Tokenizer instance when brackets `l r` are enabled -/
structure BrTok (T : TokCfg) (l r : Char) : Prop extends DqTok T where
  hl : T.left = [l]
  hr : T.right = [r]
  ne : l ≠ r
  l_ws : l ∉ T.lexCfg.whitespace
  r_ws : r ∉ T.lexCfg.whitespace
  l_sep : l ∈ T.lexCfg.separators
  r_sep : r ∈ T.lexCfg.separators
  l_q : l ∉ T.lexCfg.quotes
  r_q : r ∉ T.lexCfg.quotes
  l_pipe : l ≠ '|'

theorem inside_step_dq {T : TokCfg} (hT : DqTok T) (x : Str) (n : Nat) (rest : Str) :
    insideBrackets T (n + 1) (bnd (quote x ++ rest)) =
      (insideBrackets T n (bnd rest)).bind fun (items, lx) => .ok (.leaf (toCps x) :: items, lx) := by
  have hg : getToken T.lexCfg (bnd (quote x ++ rest)) = .tok (quote x) (bnd rest) := by
    have := getToken_quoted hT.lex (quoteBody x) rest (safe_quoteBody x)
    simpa [quote] using this
  have h0 : quote x ≠ [] := dq_ne_short quoteBody x [] (by simp)
  have h2 : quote x ≠ T.left := dq_ne_short quoteBody x _ hT.left
  have h3 : quote x ≠ T.right := dq_ne_short quoteBody x _ hT.right
  have h4 : handleToken T.names T.quotes (quote x) = .ok (toCps x) := by
    rw [quote, handleToken_quoted _ hT.q, decodeQuoted_quoteBody]
  rw [insideBrackets, hg]
  simp only [h0, h2, h3, h4, if_false, PR.bind]

mutual
theorem inside_list {T : TokCfg} {l r : Char} (hT : BrTok T l r) (ts : List STree) (n : Nat) (rest : Str)
    (hn : sizeL ts + 1 ≤ n) :
    insideBrackets T n (bnd (renderList l r ts ++ r :: rest)) = .ok (toTrees ts, bnd rest) := by
  obtain ⟨m, rfl⟩ : ∃ m, n = m + 1 := ⟨n - 1, by omega⟩
  match ts with
  | [] =>
    simp only [renderList, List.nil_append, insideBrackets, getToken_punct r hT.r_ws hT.r_sep hT.r_q, hT.hr, toTrees]
    simp
  | .leaf x :: ts =>
    simp only [renderList, render, List.append_assoc]
    rw [inside_step_dq hT.toDqTok, inside_sp hT ts m rest (by simp [sizeL, STree.size] at hn; omega)]
    simp [PR.bind, toTrees, STree.toTree]
  | .node ts' :: ts =>
    simp only [renderList, render, List.append_assoc, List.cons_append, List.nil_append]
    rw [insideBrackets, getToken_punct l hT.l_ws hT.l_sep hT.l_q]
    have h1 : [l] ≠ T.right := by rw [hT.hr]; simp [hT.ne]
    simp only [hT.hl, h1, if_true, if_false, List.cons_ne_nil]
    rw [inside_list hT ts' m _ (by simp [sizeL, STree.size] at hn; omega)]
    simp only [PR.bind]
    rw [inside_sp hT ts m rest (by simp [sizeL, STree.size] at hn; omega)]
    simp [toTrees, STree.toTree]
theorem inside_sp {T : TokCfg} {l r : Char} (hT : BrTok T l r) (ts : List STree) (n : Nat) (rest : Str)
    (hn : sizeL ts + 1 ≤ n) :
    insideBrackets T n (bnd (renderSp l r ts ++ r :: rest)) = .ok (toTrees ts, bnd rest) := by
  obtain ⟨m, rfl⟩ : ∃ m, n = m + 1 := ⟨n - 1, by omega⟩
  match ts with
  | [] =>
    simp only [renderSp, List.nil_append, insideBrackets, getToken_punct r hT.r_ws hT.r_sep hT.r_q, hT.hr, toTrees]
    simp
  | .leaf x :: ts =>
    simp only [renderSp, render, List.append_assoc, List.cons_append]
    rw [insideBrackets, getToken_space hT.lex, ← insideBrackets]
    rw [inside_step_dq hT.toDqTok, inside_sp hT ts m rest (by simp [sizeL, STree.size] at hn; omega)]
    simp [PR.bind, toTrees, STree.toTree]
  | .node ts' :: ts =>
    simp only [renderSp, render, List.append_assoc, List.cons_append, List.nil_append]
    rw [insideBrackets, getToken_space hT.lex, getToken_punct l hT.l_ws hT.l_sep hT.l_q]
    have h1 : [l] ≠ T.right := by rw [hT.hr]; simp [hT.ne]
    simp only [hT.hl, h1, if_true, if_false, List.cons_ne_nil]
    rw [inside_list hT ts' m _ (by simp [sizeL, STree.size] at hn; omega)]
    simp only [PR.bind]
    rw [inside_sp hT ts m rest (by simp [sizeL, STree.size] at hn; omega)]
    simp [toTrees, STree.toTree]
end

mutual
theorem size_le_render (l r : Char) (t : STree) : t.size ≤ (render l r t).length := by
  match t with
  | .leaf x => simp [STree.size, render, quote]
  | .node ts => have := sizeL_le_renderList l r ts; simp [STree.size, render]; omega
theorem sizeL_le_renderList (l r : Char) (ts : List STree) : sizeL ts ≤ (renderList l r ts).length := by
  match ts with
  | [] => simp [sizeL]
  | t :: ts =>
    have := size_le_render l r t; have := sizeL_le_renderSp l r ts
    simp [sizeL, renderList]; omega
theorem sizeL_le_renderSp (l r : Char) (ts : List STree) : sizeL ts ≤ (renderSp l r ts).length := by
  match ts with
  | [] => simp [sizeL]
  | t :: ts =>
    have := size_le_render l r t; have := sizeL_le_renderSp l r ts
    simp [sizeL, renderSp]; omega
end

theorem topLoop_step_node {T : TokCfg} {l r : Char} (hT : BrTok T l r) (ts' : List STree) (n : Nat)
    (hn : sizeL ts' + 1 ≤ n) (rest : Str) (args : List Tree) (ends : List (List Tree)) :
    topLoop T (n + 1) (bnd (render l r (.node ts') ++ rest)) args ends =
      topLoop T n (bnd rest) (args ++ [.node (toTrees ts')]) ends := by
  simp only [render, List.append_assoc, List.cons_append, List.nil_append]
  rw [topLoop, getToken_punct l hT.l_ws hT.l_sep hT.l_q]
  have h1 : ¬ ([l] = ['|'] ∧ T.pipe = true) := fun h => hT.l_pipe (by simpa using h.1)
  simp only [h1, hT.hl, if_true, if_false, List.cons_ne_nil]
  rw [inside_list hT ts' n _ hn]
  simp only [PR.bind]

theorem topLoop_sp {T : TokCfg} {l r : Char} (hT : BrTok T l r) (ts : List STree) (n : Nat)
    (hn : sizeL ts + 1 ≤ n) (args : List Tree) :
    topLoop T n (bnd (renderSp l r ts)) args [] = .ok (args ++ toTrees ts, []) := by
  induction ts generalizing n args with
  | nil =>
    obtain ⟨m, rfl⟩ : ∃ m, n = m + 1 := ⟨n - 1, by omega⟩
    simp [renderSp, topLoop, getToken_eof, toTrees]
  | cons t ts ih =>
    obtain ⟨m, rfl⟩ : ∃ m, n = m + 1 := ⟨n - 1, by omega⟩
    rw [renderSp, List.cons_append, topLoop, getToken_space hT.lex, ← topLoop]
    cases t with
    | leaf x =>
      rw [show render l r (.leaf x) = dq quoteBody x from rfl,
        topLoop_step_dq hT.toDqTok quoteBody toCps x (goodWriter_quoteBody x),
        ih m (by simp [sizeL, STree.size] at hn; omega)]
      simp [toTrees, STree.toTree]
    | node ts' =>
      rw [topLoop_step_node hT ts' m (by simp [sizeL, STree.size] at hn; omega),
        ih m (by simp [sizeL, STree.size] at hn; omega)]
      simp [toTrees, STree.toTree]

theorem tokenizeT_render {T : TokCfg} {l r : Char} (hT : BrTok T l r) (ts : List STree) :
    tokenizeT T (renderList l r ts) = .ok (toTrees ts) := by
  have hlen := sizeL_le_renderList l r ts
  cases ts with
  | nil => simp [tokenizeT, renderList, fuelFor, topLoop, initLexer, getToken, readLoop, PR.bind, assemble, toTrees]
  | cons t ts =>
    rw [tokenizeT, show initLexer (renderList l r (t :: ts)) = bnd (renderList l r (t :: ts)) from rfl,
      show fuelFor (renderList l r (t :: ts)) = (2 * (renderList l r (t :: ts)).length + 2) + 1 from rfl]
    rw [renderList] at hlen ⊢
    rw [List.length_append] at hlen ⊢
    have h2 := sizeL_le_renderSp l r ts
    cases t with
    | leaf x =>
      rw [show render l r (.leaf x) = dq quoteBody x from rfl,
        topLoop_step_dq hT.toDqTok quoteBody toCps x (goodWriter_quoteBody x),
        topLoop_sp hT ts _ (by simp only [sizeL, STree.size] at hlen; omega)]
      simp [PR.bind, assemble, toTrees, STree.toTree]
    | node ts' =>
      rw [topLoop_step_node hT ts' _ (by simp only [sizeL, STree.size] at hlen; omega),
        topLoop_sp hT ts _ (by simp only [sizeL, STree.size] at hlen; omega)]
      simp [PR.bind, assemble, toTrees, STree.toTree]

/-- `renderList` is the items joined by single blanks -/
theorem renderList_eq_join (l r : Char) (ts : List STree) :
    renderList l r ts = joinChar ' ' (ts.map (render l r)) := by
  have hsp : ∀ (t : STree) (ts : List STree),
      joinChar ' ' ((t :: ts).map (render l r)) = render l r t ++ renderSp l r ts := by
    intro t ts
    induction ts generalizing t with
    | nil => simp [joinChar, renderSp]
    | cons u us ih => simp only [List.map_cons, joinChar] at ih ⊢; rw [ih u]; simp [renderSp]
  cases ts with
  | nil => simp [renderList, joinChar]
  | cons t ts => rw [hsp, renderList]

theorem brTok_of_mk {quotes : Str} {pipe : Bool} {T : TokCfg} {l r : Char} {names : Names}
    (ht : TablesOk Gen.shlexWhitespace Gen.validBrackets Gen.validQuoteChars)
    (hb : BracketOk Gen.shlexWhitespace Gen.validQuoteChars [l, r])
    (hsub : ∀ q ∈ quotes, q ∈ Gen.validQuoteChars)
    (hT : mkTokenizer [l, r] pipe quotes names = .ok T) (hq : '"' ∈ quotes) : BrTok T l r := by
  have hd := dqTok_of_mk ht hb hT hq
  obtain ⟨hne, hlw, hrw, hlq, hrq, hlp, _⟩ := hb
  simp only [mkTokenizer] at hT
  cases hT
  exact { hd with
    hl := rfl, hr := rfl, ne := hne, l_ws := hlw, r_ws := hrw, l_pipe := hlp
    l_sep := by cases pipe <;> simp [TokCfg.lexCfg]
    r_sep := by cases pipe <;> simp [TokCfg.lexCfg]
    l_q := fun h => hlq (hsub _ h)
    r_q := fun h => hrq (hsub _ h) }

/-! ### nesting disabled: no sub-lists -/

def Tree.isLeaf : Tree → Prop
  | .leaf _ => True
  | .node _ => False

theorem topLoop_flat (T : TokCfg) (hl : T.left = []) (hr : T.right = []) (hp : T.pipe = false) :
    ∀ (n : Nat) (lx : Lexer) (args : List Tree) (a : List Tree) (e : List (List Tree)),
      (∀ t ∈ args, t.isLeaf) → topLoop T n lx args [] = .ok (a, e) → (∀ t ∈ a, t.isLeaf) ∧ e = [] := by
  intro n
  induction n with
  | zero => intro lx args a e _ h; simp [topLoop] at h
  | succ n ih =>
    intro lx args a e hargs h
    rw [topLoop] at h
    cases hg : getToken T.lexCfg lx with
    | hang => simp [hg, rtCast] at h
    | valueError => simp [hg, rtCast] at h
    | tok token lx' =>
      simp only [hg] at h
      by_cases h0 : token = []
      · simp only [h0, if_true] at h
        cases h
        exact ⟨hargs, rfl⟩
      · have h0' : ¬ ([] : Str) = token := fun e => h0 e.symm
        simp only [h0, hp, hl, hr, if_false, and_false, Bool.false_eq_true] at h
        cases hh : handleToken T.names T.quotes token with
        | ok t =>
          simp only [hh, PR.bind] at h
          refine ih lx' _ a e ?_ h
          intro u hu
          rcases List.mem_append.1 hu with hu | hu
          · exact hargs u hu
          · simp at hu; subst hu; trivial
        | _ => simp [hh, PR.bind] at h

/-! ### `dqrepr`: the `unicode_escape` encoder re-read by the decoder -/

/-- characters that need no protection inside double quotes -/
def Plain (s : Str) : Prop := ∀ ch ∈ s, ch ≠ '\\' ∧ ch ≠ '"'

theorem safe_of_plain {s t : Str} (h : Plain s) (ht : Safe t) : Safe (s ++ t) := by
  induction s with
  | nil => exact ht
  | cons c s ih =>
    have hc := h c (by simp)
    exact .plain c _ hc.1 hc.2 (ih fun ch hch => h ch (by simp [hch]))

theorem escapeDq_plain {s : Str} (h : Plain s) : escapeDq s = s := by
  induction s with
  | nil => rfl
  | cons c s ih =>
    have hc := h c (by simp)
    have := ih fun ch hch => h ch (by simp [hch])
    simp only [escapeDq, List.flatMap_cons] at this ⊢
    rw [this]; simp [hc.2]

theorem escapeDq_append (a b : Str) : escapeDq (a ++ b) = escapeDq a ++ escapeDq b := by
  simp [escapeDq]

theorem hexDigit_facts : ∀ d : Fin 16,
    (String.utf8EncodeChar (hexDigit d.val)).map hexVal? = [some d.val] ∧
    hexDigit d.val ≠ '\\' ∧ hexDigit d.val ≠ '"' := by decide

theorem hexDigit_byte (d : Nat) (hd : d < 16) :
    ∃ b, String.utf8EncodeChar (hexDigit d) = [b] ∧ hexVal? b = some d := by
  have := (hexDigit_facts ⟨d, hd⟩).1
  simp only at this
  cases h : String.utf8EncodeChar (hexDigit d) with
  | nil => simp [h] at this
  | cons b t =>
    cases t with
    | nil => exact ⟨b, rfl, by simpa [h] using this⟩
    | cons b' t' => simp [h] at this

theorem plain_hexN (k m : Nat) : Plain (hexN k m) := by
  induction k generalizing m with
  | zero => intro ch h; simp [hexN] at h
  | succ k ih =>
    intro ch h
    simp only [hexN, List.mem_append, List.mem_singleton] at h
    rcases h with h | h
    · exact ih _ ch h
    · subst h
      exact (hexDigit_facts ⟨m % 16, Nat.mod_lt _ (by decide)⟩).2

/-- `k` hex digits consumed in mode `hex (j + k)` leave the decoder in mode `hex j` -/
theorem uesc_hexRun (k : Nat) : ∀ (j v m : Nat) (kind : HexKind) (r : List UInt8), m < 16 ^ k →
    uesc nm (.hex (j + k) v kind) (utf8 (hexN k m) ++ r) = uesc nm (.hex j (v * 16 ^ k + m) kind) r := by
  induction k with
  | zero => intro j v m kind r hm; simp at hm; subst hm; simp [hexN, utf8]
  | succ k ih =>
    intro j v m kind r hm
    obtain ⟨b, hb1, hb2⟩ := hexDigit_byte (m % 16) (Nat.mod_lt _ (by decide))
    have e1 : utf8 (hexN (k + 1) m) ++ r = utf8 (hexN k (m / 16)) ++ (b :: r) := by
      simp [hexN, utf8, hb1]
    have e2 : j + (k + 1) = (j + 1) + k := by omega
    rw [e1, e2, ih (j + 1) v (m / 16) kind (b :: r) (by rw [Nat.pow_succ] at hm; omega)]
    simp only [uesc, hb2]
    have e3 : (v * 16 ^ k + m / 16) * 16 + m % 16 = v * 16 ^ (k + 1) + m := by
      rw [Nat.pow_succ, ← Nat.mul_assoc]
      have := Nat.div_add_mod m 16
      generalize v * 16 ^ k = w
      omega
    rw [e3]

/-- a complete `\\xHH` / `\\uHHHH` / `\\UHHHHHHHH` run: `K + 1` digits in mode `hex K` give the number back -/
theorem uesc_hexFull (K n : Nat) (kind : HexKind) (r : List UInt8) (hn : n < 16 ^ (K + 1))
    (hmax : n ≤ 0x10FFFF) :
    uesc nm (.hex K 0 kind) (utf8 (hexN (K + 1) n) ++ r) = consR n (uesc nm .normal r) := by
  obtain ⟨b, hb1, hb2⟩ := hexDigit_byte (n % 16) (Nat.mod_lt _ (by decide))
  have e1 : utf8 (hexN (K + 1) n) ++ r = utf8 (hexN K (n / 16)) ++ (b :: r) := by
    simp [hexN, utf8, hb1]
  have h := uesc_hexRun (nm := nm) K 0 0 (n / 16) kind (b :: r) (by rw [Nat.pow_succ] at hn; omega)
  simp only [Nat.zero_add, Nat.zero_mul] at h
  rw [e1, h]
  have e3 : n / 16 * 16 + n % 16 = n := by have := Nat.div_add_mod n 16; omega
  simp only [uesc, hb2, e3]
  rw [if_neg (by omega)]

theorem escapeDq_noDq {s : Str} (h : '"' ∉ s) : escapeDq s = s := by
  induction s with
  | nil => rfl
  | cons c s ih =>
    have hc : c ≠ '"' := fun e => h (by simp [e])
    have := ih fun hm => h (by simp [hm])
    simp only [escapeDq, List.flatMap_cons] at this ⊢
    rw [this]; simp [hc]

theorem noDq_hexN (k m : Nat) : '"' ∉ hexN k m := fun h => (plain_hexN k m _ h).2 rfl

/-- one character of `dqrepr`'s body -/
def dqChar (c : Char) : Str := escapeDq (uescEncodeChar c)

theorem dqreprBody_cons (c : Char) (x : Str) : dqreprBody (c :: x) = dqChar c ++ dqreprBody x := by
  simp [dqreprBody, dqChar, escapeDq_append]

theorem ascii_utf8 (c : Char) (h : c.toNat < 128) : String.utf8EncodeChar c = [c.val.toUInt8] := by
  apply String.utf8EncodeChar_eq_singleton
  rw [Char.utf8Size_eq_one_iff, UInt32.le_iff_toNat_le]
  show c.toNat ≤ 127
  omega

theorem uesc_bs_U (bs : List UInt8) : uesc nm .normal (0x5C :: 0x55 :: bs) = uesc nm (.hex 7 0 .bigU) bs := by
  rw [uesc, if_pos rfl, uesc, if_neg (by decide)]
  rfl
theorem uesc_bs_u (bs : List UInt8) : uesc nm .normal (0x5C :: 0x75 :: bs) = uesc nm (.hex 3 0 .u) bs := by
  rw [uesc, if_pos rfl, uesc, if_neg (by decide)]
  rfl
theorem uesc_bs_x (bs : List UInt8) : uesc nm .normal (0x5C :: 0x78 :: bs) = uesc nm (.hex 1 0 .x) bs := by
  rw [uesc, if_pos rfl, uesc, if_neg (by decide)]
  rfl
theorem uesc_bs_simple (b : UInt8) (v : Nat) (bs : List UInt8) (h : simpleEsc b = some v) (hb : b ≠ 0x0A) :
    uesc nm .normal (0x5C :: b :: bs) = consR v (uesc nm .normal bs) := by
  rw [uesc, if_pos rfl, uesc, if_neg hb, h]
theorem char_le_max (c : Char) : c.toNat ≤ 0x10FFFF := by
  have := c.valid
  simp only [UInt32.isValidChar, Nat.isValidChar] at this
  show c.val.toNat ≤ _
  omega

theorem utf8_two (a b : Char) (x y : UInt8) (ha : String.utf8EncodeChar a = [x])
    (hb : String.utf8EncodeChar b = [y]) (t : Str) (r : List UInt8) :
    utf8 (a :: b :: t) ++ r = x :: y :: (utf8 t ++ r) := by
  rw [utf8_cons, utf8_cons, ha, hb]; rfl

/-- shape of `dqChar c`, its lexer-safety and its decoding: the bytes of `c` come back -/
theorem dqChar_spec (c : Char) :
    Safe (dqChar c) ∧ ∀ r, uesc nm .normal (utf8 (dqChar c) ++ r) =
      prependR ((String.utf8EncodeChar c).map UInt8.toNat) (uesc nm .normal r) := by
  have hascii : c.toNat < 128 → (String.utf8EncodeChar c).map UInt8.toNat = [c.toNat] := by
    intro hlt
    rw [ascii_utf8 c hlt]
    simp only [List.map_cons, List.map_nil, List.cons.injEq, and_true]
    show c.val.toUInt8.toNat = c.val.toNat
    rw [UInt32.toNat_toUInt8]
    have : c.val.toNat = c.toNat := rfl
    omega
  unfold dqChar uescEncodeChar
  simp only
  split
  · -- not ASCII: written as it is
    rename_i hge
    have hbs : c ≠ '\\' := by intro h; subst h; revert hge; decide
    have hq : c ≠ '"' := by intro h; subst h; revert hge; decide
    have e : escapeDq [c] = [c] := escapeDq_noDq (by simp; exact fun h => hq h.symm)
    rw [e]
    refine ⟨.plain c _ hbs hq .nil, fun r => ?_⟩
    have e2 : utf8 [c] = String.utf8EncodeChar c := by simp [utf8]
    rw [e2, uesc_normal_plain _ _ (no_backslash_byte c hbs)]
  · rename_i hlt
    have hlt : c.toNat < 128 := by omega
    rw [hascii hlt]
    simp only [prependR, List.foldr_cons, List.foldr_nil]
    split
    · rename_i h; subst h
      exact ⟨.esc 't' _ .nil, fun r => uesc_bs_simple 0x74 9 r rfl (by decide)⟩
    · split
      · rename_i h; subst h
        exact ⟨.esc 'n' _ .nil, fun r => uesc_bs_simple 0x6E 10 r rfl (by decide)⟩
      · split
        · rename_i h; subst h
          exact ⟨.esc 'r' _ .nil, fun r => uesc_bs_simple 0x72 13 r rfl (by decide)⟩
        · split
          · rename_i h; subst h
            exact ⟨.esc '\\' _ .nil, fun r => uesc_bs_simple 0x5C 0x5C r rfl (by decide)⟩
          · split
            · -- \xHH
              rw [escapeDq_noDq (s := '\\' :: 'x' :: hexN 2 c.toNat) (by simp [noDq_hexN])]
              refine ⟨.esc 'x' _ (by simpa using safe_of_plain (plain_hexN 2 c.toNat) .nil), fun r => ?_⟩
              rw [utf8_two _ _ _ _ utf8_backslash (show String.utf8EncodeChar 'x' = [0x78] by decide), uesc_bs_x]
              exact uesc_hexFull 1 c.toNat .x r (by omega) (by omega)
            · -- literal printable ASCII
              rename_i _ _ _ hbs _
              by_cases hq : c = '"'
              · subst hq
                exact ⟨.esc '"' _ .nil, fun r => uesc_bs_simple 0x22 0x22 r rfl (by decide)⟩
              · have e : escapeDq [c] = [c] := escapeDq_noDq (by simp; exact fun h => hq h.symm)
                rw [e]
                refine ⟨.plain c _ hbs hq .nil, fun r => ?_⟩
                have e2 : utf8 [c] = String.utf8EncodeChar c := by simp [utf8]
                rw [e2, uesc_normal_plain _ _ (no_backslash_byte c hbs), hascii hlt]
                simp only [prependR, List.foldr_cons, List.foldr_nil]

theorem safe_dqreprBody (x : Str) : Safe (dqreprBody x) := by
  induction x with
  | nil => exact .nil
  | cons c x ih => rw [dqreprBody_cons]; exact (dqChar_spec (nm := fun _ => none) c).1.append ih

theorem uesc_dqreprBody (x : Str) (r : List UInt8) :
    uesc nm .normal (utf8 (dqreprBody x) ++ r) = prependR ((utf8 x).map UInt8.toNat) (uesc nm .normal r) := by
  induction x with
  | nil => rfl
  | cons c x ih =>
    rw [dqreprBody_cons, utf8_append, List.append_assoc, (dqChar_spec c).2, ih, utf8_cons, List.map_append,
      prependR_append]

theorem decodeQuoted_dqreprBody (x : Str) : decodeQuoted nm (dqreprBody x) = .ok (toCps x) := by
  have h := uesc_dqreprBody (nm := nm) x []
  simp only [List.append_nil, uesc, prependR_ok] at h
  simp [decodeQuoted, h, latin1?_bytes, utf8Decode?_utf8]

theorem goodWriter_dqreprBody (x : Str) : GoodWriter nm dqreprBody toCps x :=
  ⟨safe_dqreprBody x, decodeQuoted_dqreprBody x⟩

theorem utf8_of_decode {bs : List UInt8} {s : Str} (h : utf8Decode? bs = some s) : utf8 s = bs := by
  unfold utf8Decode? at h
  cases hd : bs.toByteArray.utf8Decode? with
  | none => simp [hd] at h
  | some arr =>
    simp only [hd, Option.map_some, Option.some.injEq] at h
    have hs : bs.toByteArray.utf8Decode?.isSome := by simp [hd]
    have := ByteArray.utf8Encode_get_utf8Decode? (b := bs.toByteArray) (h := hs)
    simp only [hd, Option.get_some, h] at this
    exact List.toByteArray_inj.1 this

theorem toCps_inj {s x : Str} (h : toCps s = toCps x) : s = x := by
  induction s generalizing x with
  | nil => cases x <;> simp_all [toCps]
  | cons a s ih =>
    cases x with
    | nil => simp [toCps] at h
    | cons b x =>
      simp only [toCps, List.map_cons, List.cons.injEq] at h
      rw [char_eq_of_toNat h.1, ih (x := x) h.2]

/-! ### bare (unquoted) words -/

/-- a word the lexer reads as one plain token: not empty, no separator (hence no blank, bracket, quote, pipe, NUL) -/
def WordOk (cfg : LexCfg) (w : Str) : Prop := w ≠ [] ∧ ∀ c ∈ w, c ∉ cfg.separators ∧ c ∉ cfg.whitespace

theorem readLoop_word (cfg : LexCfg) (ha : 'a' ∉ cfg.quotes) (w rest : Str)
    (hw : ∀ c ∈ w, c ∉ cfg.separators ∧ c ∉ cfg.whitespace) (token : Str) (bs : Bool) (pb : List Str) :
    readLoop cfg (w ++ rest) (some 'a') token bs pb = readLoop cfg rest (some 'a') (token ++ w) bs pb := by
  induction w generalizing token with
  | nil => simp
  | cons c w ih =>
    have hc := hw c (by simp)
    rw [List.cons_append, readLoop]
    simp only [show ('a' : Char) ≠ ' ' by decide, ha, hc.1, hc.2, if_false, if_true, not_false_eq_true, true_or]
    rw [ih (fun d hd => hw d (by simp [hd]))]
    simp

/-- the three ways a word ends -/
theorem getToken_word_eof {cfg : LexCfg} (ha : 'a' ∉ cfg.quotes) (w : Str) (hw : WordOk cfg w) :
    getToken cfg (bnd w) = .tok w ⟨[], none, false, []⟩ := by
  obtain ⟨hne, hw⟩ := hw
  cases w with
  | nil => exact absurd rfl hne
  | cons c w =>
    have hc := hw c (by simp)
    have := readLoop_word cfg ha w [] (fun d hd => hw d (by simp [hd])) [c] false []
    simp only [List.append_nil] at this
    simp only [getToken, bnd, readLoop, hc.1, hc.2, if_false, if_true, not_false_eq_true]
    rw [this]
    simp [readLoop, show ('a' : Char) ≠ ' ' by decide, ha]

theorem getToken_word_space {cfg : LexCfg} (ha : 'a' ∉ cfg.quotes) (hsp : ' ' ∈ cfg.whitespace) (w rest : Str)
    (hw : WordOk cfg w) : getToken cfg (bnd (w ++ ' ' :: rest)) = .tok w (bnd rest) := by
  obtain ⟨hne, hw⟩ := hw
  cases w with
  | nil => exact absurd rfl hne
  | cons c w =>
    have hc := hw c (by simp)
    have := readLoop_word cfg ha w (' ' :: rest) (fun d hd => hw d (by simp [hd])) [c] false []
    simp only [getToken, bnd, List.cons_append, readLoop, hc.1, hc.2, if_false, if_true, not_false_eq_true]
    rw [this]
    simp [readLoop, show ('a' : Char) ≠ ' ' by decide, ha, hsp]

theorem getToken_word_punct {cfg : LexCfg} (ha : 'a' ∉ cfg.quotes) (b : Char) (hbw : b ∉ cfg.whitespace)
    (hbs : b ∈ cfg.separators) (hbq : b ∉ cfg.quotes) (w rest : Str) (hw : WordOk cfg w) :
    getToken cfg (bnd (w ++ b :: rest)) = .tok w ⟨rest, some ' ', false, [[b]]⟩ := by
  obtain ⟨hne, hw⟩ := hw
  cases w with
  | nil => exact absurd rfl hne
  | cons c w =>
    have hc := hw c (by simp)
    have := readLoop_word cfg ha w (b :: rest) (fun d hd => hw d (by simp [hd])) [c] false []
    simp only [getToken, bnd, List.cons_append, readLoop, hc.1, hc.2, if_false, if_true, not_false_eq_true]
    rw [this]
    simp [readLoop, show ('a' : Char) ≠ ' ' by decide, ha, hbw, hbs, hbq]

theorem getToken_pushback (cfg : LexCfg) (t : Str) (inp : Str) :
    getToken cfg ⟨inp, some ' ', false, [t]⟩ = .tok t (bnd inp) := by
  simp [getToken, bnd]

theorem getToken_none (cfg : LexCfg) : getToken cfg ⟨[], none, false, []⟩ = .tok [] ⟨[], none, false, []⟩ := by
  simp [getToken, readLoop]

theorem handleToken_word {cfg : LexCfg} (quotes : Str) (hq : ∀ c ∈ quotes, c ∈ cfg.separators) (w : Str)
    (hw : WordOk cfg w) : handleToken nm quotes w = .ok (toCps w) := by
  obtain ⟨hne, hw⟩ := hw
  cases w with
  | nil => exact absurd rfl hne
  | cons c w =>
    have hc : c ∉ quotes := fun h => (hw c (by simp)).1 (hq c h)
    simp [handleToken, hc, List.getLast?_eq_some_getLast]

/-- source trees whose leaves are bare words or quoted text -/
inductive WTree where
  | word (w : Str)
  | leaf (x : Str)
  | node (ts : List WTree)

mutual
def WTree.toTree : WTree → Tree
  | .word w => .leaf (toCps w)
  | .leaf x => .leaf (toCps x)
  | .node ts => .node (toTreesW ts)
def toTreesW : List WTree → List Tree
  | [] => []
  | t :: ts => t.toTree :: toTreesW ts
end

mutual
/-- a word is written as it is, other text in double quotes, a sub-command between the brackets -/
def renderW (l r : Char) : WTree → Str
  | .word w => w
  | .leaf x => quote x
  | .node ts => l :: renderListW l r ts ++ [r]
/-- items separated by one blank -/
def renderListW (l r : Char) : List WTree → Str
  | [] => []
  | t :: ts => renderW l r t ++ renderSpW l r ts
def renderSpW (l r : Char) : List WTree → Str
  | [] => []
  | t :: ts => ' ' :: renderW l r t ++ renderSpW l r ts
end

mutual
def WTree.size : WTree → Nat
  | .word _ => 1
  | .leaf _ => 1
  | .node ts => 2 + sizeLW ts
def sizeLW : List WTree → Nat
  | [] => 0
  | t :: ts => t.size + sizeLW ts
end

mutual
/-- every bare word of the tree is one the lexer reads as a plain token -/
def WTree.WordsOk (cfg : LexCfg) : WTree → Prop
  | .word w => WordOk cfg w
  | .leaf _ => True
  | .node ts => WordsOkL cfg ts
def WordsOkL (cfg : LexCfg) : List WTree → Prop
  | [] => True
  | t :: ts => t.WordsOk cfg ∧ WordsOkL cfg ts
end

theorem renderSpW_eq (l r : Char) (ts : List WTree) :
    renderSpW l r ts = match ts with | [] => [] | _ :: _ => ' ' :: renderListW l r ts := by
  cases ts with
  | nil => simp [renderSpW]
  | cons t ts => simp [renderSpW, renderListW]

structure WdTok (T : TokCfg) (l r : Char) : Prop extends BrTok T l r where
  a_q : 'a' ∉ T.lexCfg.quotes
  q_sep : ∀ c ∈ T.quotes, c ∈ T.lexCfg.separators
  pipe_sep : T.pipe = true → '|' ∈ T.lexCfg.separators

theorem word_ne_sep {cfg : LexCfg} {w : Str} (hw : WordOk cfg w) (b : Char) (hb : b ∈ cfg.separators) : w ≠ [b] := by
  intro e; subst e
  exact (hw.2 b (by simp)).1 hb

theorem inside_space {T : TokCfg} (hl : DqCfg T.lexCfg) (n : Nat) (X : Str) :
    insideBrackets T n (bnd (' ' :: X)) = insideBrackets T n (bnd X) := by
  cases n with
  | zero => rfl
  | succ n => rw [insideBrackets, getToken_space hl, ← insideBrackets]

theorem topLoop_space {T : TokCfg} (hl : DqCfg T.lexCfg) (n : Nat) (X : Str) (args : List Tree) (ends : List (List Tree)) :
    topLoop T n (bnd (' ' :: X)) args ends = topLoop T n (bnd X) args ends := by
  cases n with
  | zero => rfl
  | succ n => rw [topLoop, getToken_space hl, ← topLoop]

theorem inside_step_word_sp {T : TokCfg} {l r : Char} (hT : WdTok T l r) (w : Str) (hw : WordOk T.lexCfg w)
    (n : Nat) (rest : Str) :
    insideBrackets T (n + 1) (bnd (w ++ ' ' :: rest)) =
      (insideBrackets T n (bnd rest)).bind fun (items, lx) => .ok (.leaf (toCps w) :: items, lx) := by
  rw [insideBrackets, getToken_word_space hT.a_q hT.lex.sp_ws w rest hw]
  have h0 : w ≠ [] := hw.1
  have h2 : w ≠ T.left := by rw [hT.hl]; exact word_ne_sep hw l hT.l_sep
  have h3 : w ≠ T.right := by rw [hT.hr]; exact word_ne_sep hw r hT.r_sep
  simp only [h0, h2, h3, if_false, handleToken_word T.quotes hT.q_sep w hw, PR.bind]

theorem inside_step_word_close {T : TokCfg} {l r : Char} (hT : WdTok T l r) (w : Str) (hw : WordOk T.lexCfg w)
    (n : Nat) (rest : Str) :
    insideBrackets T (n + 2) (bnd (w ++ r :: rest)) = .ok ([.leaf (toCps w)], bnd rest) := by
  rw [insideBrackets, getToken_word_punct hT.a_q r hT.r_ws hT.r_sep hT.r_q w rest hw]
  have h0 : w ≠ [] := hw.1
  have h2 : w ≠ T.left := by rw [hT.hl]; exact word_ne_sep hw l hT.l_sep
  have h3 : w ≠ T.right := by rw [hT.hr]; exact word_ne_sep hw r hT.r_sep
  simp only [h0, h2, h3, if_false, handleToken_word T.quotes hT.q_sep w hw, PR.bind]
  rw [insideBrackets, getToken_pushback]
  simp [hT.hr]

theorem inside_sp_eq_list {T : TokCfg} (hl : DqCfg T.lexCfg) (l r : Char) (ts : List WTree) (n : Nat) (X : Str) :
    insideBrackets T n (bnd (renderSpW l r ts ++ X)) = insideBrackets T n (bnd (renderListW l r ts ++ X)) := by
  rw [renderSpW_eq]
  cases ts with
  | nil => simp [renderListW]
  | cons t ts => simp only [List.cons_append]; exact inside_space hl n _

theorem inside_listW {T : TokCfg} {l r : Char} (hT : WdTok T l r) : (ts : List WTree) → ∀ (n : Nat) (rest : Str),
    WordsOkL T.lexCfg ts → sizeLW ts + 1 ≤ n →
    insideBrackets T n (bnd (renderListW l r ts ++ r :: rest)) = .ok (toTreesW ts, bnd rest)
  | [], n, rest, _, hn => by
    obtain ⟨m, rfl⟩ : ∃ m, n = m + 1 := ⟨n - 1, by omega⟩
    simp only [renderListW, List.nil_append, insideBrackets, getToken_punct r hT.r_ws hT.r_sep hT.r_q, hT.hr, toTreesW]
    simp
  | [.word w], n, rest, hok, hn => by
    obtain ⟨m, rfl⟩ : ∃ m, n = m + 2 := ⟨n - 2, by simp [sizeLW, WTree.size] at hn; omega⟩
    have hw : WordOk T.lexCfg w := by simpa [WordsOkL, WTree.WordsOk] using hok
    simp only [renderListW, renderW, renderSpW, List.append_nil]
    rw [inside_step_word_close hT w hw]
    simp [toTreesW, WTree.toTree]
  | .word w :: t :: ts, n, rest, hok, hn => by
    obtain ⟨m, rfl⟩ : ∃ m, n = m + 1 := ⟨n - 1, by omega⟩
    obtain ⟨hw, hok'⟩ : WordOk T.lexCfg w ∧ WordsOkL T.lexCfg (t :: ts) := by
      simpa [WordsOkL, WTree.WordsOk] using hok
    have e : renderListW l r (.word w :: t :: ts) ++ r :: rest = w ++ ' ' :: (renderListW l r (t :: ts) ++ r :: rest) := by
      simp [renderListW, renderW, renderSpW]
    rw [e, inside_step_word_sp hT w hw,
      inside_listW hT (t :: ts) m rest hok' (by simp [sizeLW, WTree.size] at hn ⊢; omega)]
    simp [PR.bind, toTreesW, WTree.toTree]
  | .leaf x :: ts, n, rest, hok, hn => by
    obtain ⟨m, rfl⟩ : ∃ m, n = m + 1 := ⟨n - 1, by omega⟩
    have hok' : WordsOkL T.lexCfg ts := by simpa [WordsOkL, WTree.WordsOk] using hok
    simp only [renderListW, renderW, List.append_assoc]
    rw [inside_step_dq hT.toDqTok, inside_sp_eq_list hT.lex,
      inside_listW hT ts m rest hok' (by simp [sizeLW, WTree.size] at hn; omega)]
    simp [PR.bind, toTreesW, WTree.toTree]
  | .node ts' :: ts, n, rest, hok, hn => by
    obtain ⟨m, rfl⟩ : ∃ m, n = m + 1 := ⟨n - 1, by omega⟩
    obtain ⟨hok1, hok2⟩ : WordsOkL T.lexCfg ts' ∧ WordsOkL T.lexCfg ts := by
      simpa [WordsOkL, WTree.WordsOk] using hok
    simp only [renderListW, renderW, List.append_assoc, List.cons_append, List.nil_append]
    rw [insideBrackets, getToken_punct l hT.l_ws hT.l_sep hT.l_q]
    have h1 : [l] ≠ T.right := by rw [hT.hr]; simp [hT.ne]
    simp only [hT.hl, h1, if_true, if_false, List.cons_ne_nil]
    rw [inside_listW hT ts' m _ hok1 (by simp [sizeLW, WTree.size] at hn; omega)]
    simp only [PR.bind]
    rw [inside_sp_eq_list hT.lex, inside_listW hT ts m rest hok2 (by simp [sizeLW, WTree.size] at hn; omega)]
    simp [toTreesW, WTree.toTree]

theorem topLoop_sp_eq_list {T : TokCfg} (hl : DqCfg T.lexCfg) (l r : Char) (ts : List WTree) (n : Nat)
    (args : List Tree) (ends : List (List Tree)) :
    topLoop T n (bnd (renderSpW l r ts)) args ends = topLoop T n (bnd (renderListW l r ts)) args ends := by
  rw [renderSpW_eq]
  cases ts with
  | nil => simp [renderListW]
  | cons t ts => exact topLoop_space hl n _ args ends

theorem topLoop_step_word_sp {T : TokCfg} {l r : Char} (hT : WdTok T l r) (w : Str) (hw : WordOk T.lexCfg w)
    (n : Nat) (rest : Str) (args : List Tree) (ends : List (List Tree)) :
    topLoop T (n + 1) (bnd (w ++ ' ' :: rest)) args ends = topLoop T n (bnd rest) (args ++ [.leaf (toCps w)]) ends := by
  rw [topLoop, getToken_word_space hT.a_q hT.lex.sp_ws w rest hw]
  have h0 : w ≠ [] := hw.1
  have h1 : ¬ (w = ['|'] ∧ T.pipe = true) := fun h => word_ne_sep hw '|' (hT.pipe_sep h.2) h.1
  have h2 : w ≠ T.left := by rw [hT.hl]; exact word_ne_sep hw l hT.l_sep
  have h3 : w ≠ T.right := by rw [hT.hr]; exact word_ne_sep hw r hT.r_sep
  simp only [h0, h1, h2, h3, if_false, handleToken_word T.quotes hT.q_sep w hw, PR.bind]

theorem topLoop_step_word_eof {T : TokCfg} {l r : Char} (hT : WdTok T l r) (w : Str) (hw : WordOk T.lexCfg w)
    (n : Nat) (args : List Tree) :
    topLoop T (n + 2) (bnd w) args [] = .ok (args ++ [.leaf (toCps w)], []) := by
  rw [topLoop, getToken_word_eof hT.a_q w hw]
  have h0 : w ≠ [] := hw.1
  have h1 : ¬ (w = ['|'] ∧ T.pipe = true) := fun h => word_ne_sep hw '|' (hT.pipe_sep h.2) h.1
  have h2 : w ≠ T.left := by rw [hT.hl]; exact word_ne_sep hw l hT.l_sep
  have h3 : w ≠ T.right := by rw [hT.hr]; exact word_ne_sep hw r hT.r_sep
  simp only [h0, h1, h2, h3, if_false, handleToken_word T.quotes hT.q_sep w hw, PR.bind]
  rw [topLoop, getToken_none]
  simp

theorem topLoop_step_nodeW {T : TokCfg} {l r : Char} (hT : WdTok T l r) (ts' : List WTree) (n : Nat)
    (hok : WordsOkL T.lexCfg ts') (hn : sizeLW ts' + 1 ≤ n) (rest : Str) (args : List Tree) (ends : List (List Tree)) :
    topLoop T (n + 1) (bnd (renderW l r (.node ts') ++ rest)) args ends =
      topLoop T n (bnd rest) (args ++ [.node (toTreesW ts')]) ends := by
  simp only [renderW, List.append_assoc, List.cons_append, List.nil_append]
  rw [topLoop, getToken_punct l hT.l_ws hT.l_sep hT.l_q]
  have h1 : ¬ ([l] = ['|'] ∧ T.pipe = true) := fun h => hT.l_pipe (by simpa using h.1)
  simp only [h1, hT.hl, if_true, if_false, List.cons_ne_nil]
  rw [inside_listW hT ts' n _ hok hn]
  simp only [PR.bind]

theorem topLoop_listW {T : TokCfg} {l r : Char} (hT : WdTok T l r) : (ts : List WTree) → ∀ (n : Nat) (args : List Tree),
    WordsOkL T.lexCfg ts → sizeLW ts + 1 ≤ n →
    topLoop T n (bnd (renderListW l r ts)) args [] = .ok (args ++ toTreesW ts, [])
  | [], n, args, _, hn => by
    obtain ⟨m, rfl⟩ : ∃ m, n = m + 1 := ⟨n - 1, by omega⟩
    simp [renderListW, topLoop, getToken_eof, toTreesW]
  | [.word w], n, args, hok, hn => by
    obtain ⟨m, rfl⟩ : ∃ m, n = m + 2 := ⟨n - 2, by simp [sizeLW, WTree.size] at hn; omega⟩
    have hw : WordOk T.lexCfg w := by simpa [WordsOkL, WTree.WordsOk] using hok
    simp only [renderListW, renderW, renderSpW, List.append_nil]
    rw [topLoop_step_word_eof hT w hw]
    simp [toTreesW, WTree.toTree]
  | .word w :: t :: ts, n, args, hok, hn => by
    obtain ⟨m, rfl⟩ : ∃ m, n = m + 1 := ⟨n - 1, by omega⟩
    obtain ⟨hw, hok'⟩ : WordOk T.lexCfg w ∧ WordsOkL T.lexCfg (t :: ts) := by
      simpa [WordsOkL, WTree.WordsOk] using hok
    have e : renderListW l r (.word w :: t :: ts) = w ++ ' ' :: renderListW l r (t :: ts) := by
      simp [renderListW, renderW, renderSpW]
    rw [e, topLoop_step_word_sp hT w hw,
      topLoop_listW hT (t :: ts) m _ hok' (by simp [sizeLW, WTree.size] at hn ⊢; omega)]
    simp [toTreesW, WTree.toTree]
  | .leaf x :: ts, n, args, hok, hn => by
    obtain ⟨m, rfl⟩ : ∃ m, n = m + 1 := ⟨n - 1, by omega⟩
    have hok' : WordsOkL T.lexCfg ts := by simpa [WordsOkL, WTree.WordsOk] using hok
    simp only [renderListW]
    rw [show renderW l r (.leaf x) = dq quoteBody x from rfl,
      topLoop_step_dq hT.toDqTok quoteBody toCps x (goodWriter_quoteBody x), topLoop_sp_eq_list hT.lex,
      topLoop_listW hT ts m _ hok' (by simp [sizeLW, WTree.size] at hn; omega)]
    simp [toTreesW, WTree.toTree]
  | .node ts' :: ts, n, args, hok, hn => by
    obtain ⟨m, rfl⟩ : ∃ m, n = m + 1 := ⟨n - 1, by omega⟩
    obtain ⟨hok1, hok2⟩ : WordsOkL T.lexCfg ts' ∧ WordsOkL T.lexCfg ts := by
      simpa [WordsOkL, WTree.WordsOk] using hok
    simp only [renderListW]
    rw [topLoop_step_nodeW hT ts' m hok1 (by simp [sizeLW, WTree.size] at hn; omega), topLoop_sp_eq_list hT.lex,
      topLoop_listW hT ts m _ hok2 (by simp [sizeLW, WTree.size] at hn; omega)]
    simp [toTreesW, WTree.toTree]

mutual
theorem sizeW_le_render (cfg : LexCfg) (l r : Char) : (t : WTree) → t.WordsOk cfg → t.size ≤ (renderW l r t).length
  | .word w, h => by
    have : w ≠ [] := (by simpa [WTree.WordsOk] using h : WordOk cfg w).1
    cases w with
    | nil => exact absurd rfl this
    | cons c w => simp [WTree.size, renderW]
  | .leaf x, _ => by simp [WTree.size, renderW, quote]
  | .node ts, h => by
    have := sizeLW_le_renderList cfg l r ts (by simpa [WTree.WordsOk] using h)
    simp [WTree.size, renderW]; omega
theorem sizeLW_le_renderList (cfg : LexCfg) (l r : Char) : (ts : List WTree) → WordsOkL cfg ts →
    sizeLW ts ≤ (renderListW l r ts).length
  | [], _ => by simp [sizeLW]
  | t :: ts, h => by
    obtain ⟨h1, h2⟩ : t.WordsOk cfg ∧ WordsOkL cfg ts := by simpa [WordsOkL] using h
    have := sizeW_le_render cfg l r t h1; have := sizeLW_le_renderSp cfg l r ts h2
    simp [sizeLW, renderListW]; omega
theorem sizeLW_le_renderSp (cfg : LexCfg) (l r : Char) : (ts : List WTree) → WordsOkL cfg ts →
    sizeLW ts ≤ (renderSpW l r ts).length
  | [], _ => by simp [sizeLW]
  | t :: ts, h => by
    obtain ⟨h1, h2⟩ : t.WordsOk cfg ∧ WordsOkL cfg ts := by simpa [WordsOkL] using h
    have := sizeW_le_render cfg l r t h1; have := sizeLW_le_renderSp cfg l r ts h2
    simp [sizeLW, renderSpW]; omega
end

theorem tokenizeT_renderW {T : TokCfg} {l r : Char} (hT : WdTok T l r) (ts : List WTree)
    (hok : WordsOkL T.lexCfg ts) : tokenizeT T (renderListW l r ts) = .ok (toTreesW ts) := by
  have hlen := sizeLW_le_renderList T.lexCfg l r ts hok
  rw [tokenizeT, show initLexer (renderListW l r ts) = bnd (renderListW l r ts) from rfl,
    topLoop_listW hT ts _ [] hok (by simp only [fuelFor]; omega)]
  simp [PR.bind, assemble]

/-- the lexer configuration `callbacks.tokenize` builds from the four registry values -/
def Conf.lexCfg (c : Conf) : LexCfg :=
  ⟨Gen.shlexWhitespace,
   (if effPipe c then Gen.tokenizerSeparators ++ effBrackets c ++ ['|'] else Gen.tokenizerSeparators ++ effBrackets c)
     ++ c.quotes,
   c.quotes⟩

theorem wdTok_of_mk {c : Conf} {T : TokCfg} {l r : Char}
    (ht : TablesOk Gen.shlexWhitespace Gen.validBrackets Gen.validQuoteChars) (hv : c.Valid)
    (hb : effBrackets c = [l, r]) (hT : mkTokenizer (effBrackets c) (effPipe c) c.quotes c.names = .ok T)
    (hq : '"' ∈ c.quotes) : WdTok T l r ∧ T.lexCfg = c.lexCfg := by
  have hbo : BracketOk Gen.shlexWhitespace Gen.validQuoteChars [l, r] := hb ▸ effBrackets_ok hv ht
  have hbr := brTok_of_mk ht hbo hv.2 (hb ▸ hT) hq
  rw [hb] at hT
  simp only [mkTokenizer] at hT
  cases hT
  refine ⟨{ hbr with
    a_q := (hv.quotesOk ht).2
    q_sep := fun ch hch => by simp [TokCfg.lexCfg, hch]
    pipe_sep := fun hp => by simp only at hp; simp [TokCfg.lexCfg, hp] }, ?_⟩
  simp [TokCfg.lexCfg, Conf.lexCfg, hb]

/-- a friendly sufficient condition for `WordOk`: not empty and made of characters that are neither
blank / NUL, nor a bracket, nor a quote character, nor (with pipe syntax) `|` -/
def PlainWord (c : Conf) (w : Str) : Prop :=
  w ≠ [] ∧ ∀ ch ∈ w, ch ∉ Gen.tokenizerSeparators ∧ ch ∉ effBrackets c ∧ ch ∉ c.quotes ∧ (effPipe c = true → ch ≠ '|')

instance (c : Conf) (w : Str) : Decidable (PlainWord c w) := by unfold PlainWord; infer_instance

theorem wordOk_of_plain (hws : ∀ ch ∈ Gen.shlexWhitespace, ch ∈ Gen.tokenizerSeparators) (c : Conf) (w : Str)
    (h : PlainWord c w) : WordOk c.lexCfg w := by
  refine ⟨h.1, fun ch hch => ?_⟩
  obtain ⟨h1, h2, h3, h4⟩ := h.2 ch hch
  refine ⟨?_, fun hw => h1 (hws ch hw)⟩
  simp only [Conf.lexCfg]
  cases hp : effPipe c with
  | false => simp [h1, h2, h3]
  | true => simp [h1, h2, h3, h4 hp]

/-! ### every token is a string of Unicode scalar values -/

mutual
def Tree.Scalar : Tree → Prop
  | .leaf t => ∀ n ∈ t, isScalar n = true
  | .node ts => ScalarL ts
def ScalarL : List Tree → Prop
  | [] => True
  | t :: ts => t.Scalar ∧ ScalarL ts
end

theorem char_scalar (c : Char) : isScalar c.toNat = true := by
  have hv := c.valid
  simp only [UInt32.isValidChar, Nat.isValidChar] at hv
  have : c.val.toNat = c.toNat := rfl
  simp only [isScalar, Bool.or_eq_true, decide_eq_true_eq, Bool.and_eq_true]
  omega

theorem toCps_scalar (s : Str) : ∀ n ∈ toCps s, isScalar n = true := by
  intro n hn
  simp only [toCps, List.mem_map] at hn
  obtain ⟨c, _, rfl⟩ := hn
  exact char_scalar c

theorem handleToken_scalar {nm : Names} (quotes token : Str) (t : List Nat)
    (h : handleToken nm quotes token = .ok t) : ∀ n ∈ t, isScalar n = true := by
  unfold handleToken at h
  split at h
  · split at h
    · unfold decodeQuoted checkScalar at h
      repeat' split at h
      all_goals (first | (cases h; done) | skip)
      all_goals (first
        | (injection h with h; subst h; exact toCps_scalar _)
        | (injection h with h; subst h; rename_i hall; simpa [List.all_eq_true] using hall))
    · injection h with h; subst h; exact toCps_scalar _
  · cases h

theorem scalarL_nil : ScalarL [] := by simp only [ScalarL]
theorem scalarL_cons {t : Tree} {ts : List Tree} (h1 : t.Scalar) (h2 : ScalarL ts) : ScalarL (t :: ts) := by
  simp only [ScalarL]; exact ⟨h1, h2⟩
theorem scalar_leaf {t : List Nat} (h : ∀ n ∈ t, isScalar n = true) : (Tree.leaf t).Scalar := by
  simp only [Tree.Scalar]; exact h
theorem scalar_node {ts : List Tree} (h : ScalarL ts) : (Tree.node ts).Scalar := by
  simp only [Tree.Scalar]; exact h
theorem scalarL_append' {a b : List Tree} (ha : ScalarL a) (hb : ScalarL b) : ScalarL (a ++ b) := by
  induction a with
  | nil => exact hb
  | cons t a ih => simp only [ScalarL, List.cons_append] at ha ⊢; exact ⟨ha.1, ih ha.2⟩

theorem insideBrackets_scalar (T : TokCfg) : ∀ (n : Nat) (lx : Lexer) (ts : List Tree) (lx' : Lexer),
    insideBrackets T n lx = .ok (ts, lx') → ScalarL ts := by
  intro n
  induction n with
  | zero => intro lx ts lx' h; simp [insideBrackets] at h
  | succ n ih =>
    intro lx ts lx' h
    rw [insideBrackets] at h
    cases hg : getToken T.lexCfg lx with
    | hang => simp [hg, rtCast] at h
    | valueError => simp [hg, rtCast] at h
    | tok token lx1 =>
      simp only [hg] at h
      split at h
      · cases h
      · split at h
        · injection h with h; injection h with h1 _; subst h1; exact scalarL_nil
        · split at h
          · cases h1 : insideBrackets T n lx1 with
            | ok p =>
              obtain ⟨sub, lx2⟩ := p
              simp only [h1, PR.bind] at h
              cases h2 : insideBrackets T n lx2 with
              | ok p2 =>
                obtain ⟨rest, lx3⟩ := p2
                simp only [h2, PR.bind] at h
                injection h with h; injection h with ha _; subst ha
                exact scalarL_cons (scalar_node (ih _ _ _ h1)) (ih _ _ _ h2)
              | _ => simp [h2, PR.bind] at h
            | _ => simp [h1, PR.bind] at h
          · cases hh : handleToken T.names T.quotes token with
            | ok t =>
              simp only [hh, PR.bind] at h
              cases h2 : insideBrackets T n lx1 with
              | ok p2 =>
                obtain ⟨rest, lx3⟩ := p2
                simp only [h2, PR.bind] at h
                injection h with h; injection h with ha _; subst ha
                exact scalarL_cons (scalar_leaf (handleToken_scalar _ _ _ hh)) (ih _ _ _ h2)
              | _ => simp [h2, PR.bind] at h
            | _ => simp [hh, PR.bind] at h

def ScalarLL : List (List Tree) → Prop
  | [] => True
  | e :: es => ScalarL e ∧ ScalarLL es

theorem scalarLL_append {a b : List (List Tree)} (ha : ScalarLL a) (hb : ScalarLL b) : ScalarLL (a ++ b) := by
  induction a with
  | nil => exact hb
  | cons t a ih => exact ⟨ha.1, ih ha.2⟩

theorem topLoop_scalar (T : TokCfg) : ∀ (n : Nat) (lx : Lexer) (args : List Tree) (ends : List (List Tree))
    (a : List Tree) (e : List (List Tree)), ScalarL args → ScalarLL ends →
    topLoop T n lx args ends = .ok (a, e) → ScalarL a ∧ ScalarLL e := by
  intro n
  induction n with
  | zero => intro lx args ends a e _ _ h; simp [topLoop] at h
  | succ n ih =>
    intro lx args ends a e hargs hends h
    rw [topLoop] at h
    cases hg : getToken T.lexCfg lx with
    | hang => simp [hg, rtCast] at h
    | valueError => simp [hg, rtCast] at h
    | tok token lx1 =>
      simp only [hg] at h
      split at h
      · injection h with h; injection h with h1 h2; subst h1; subst h2; exact ⟨hargs, hends⟩
      · split at h
        · split at h
          · cases h
          · exact ih lx1 [] (ends ++ [args]) a e scalarL_nil (scalarLL_append hends (show ScalarLL [args] from ⟨hargs, trivial⟩)) h
        · split at h
          · cases h1 : insideBrackets T n lx1 with
            | ok p =>
              obtain ⟨sub, lx2⟩ := p
              simp only [h1, PR.bind] at h
              exact ih lx2 (args ++ [.node sub]) ends a e (scalarL_append' hargs (scalarL_cons (scalar_node (insideBrackets_scalar T _ _ _ _ h1)) scalarL_nil)) hends h
            | _ => simp [h1, PR.bind] at h
          · split at h
            · cases h
            · cases hh : handleToken T.names T.quotes token with
              | ok t =>
                simp only [hh, PR.bind] at h
                exact ih lx1 (args ++ [.leaf t]) ends a e (scalarL_append' hargs (scalarL_cons (scalar_leaf (handleToken_scalar _ _ _ hh)) scalarL_nil)) hends h
              | _ => simp [hh, PR.bind] at h

theorem scalarL_map_node : ∀ (es : List (List Tree)), ScalarLL es → ScalarL (es.map .node)
  | [], _ => scalarL_nil
  | e :: es, h => scalarL_cons (scalar_node h.1) (scalarL_map_node es h.2)

theorem scalarLL_reverse (es : List (List Tree)) (h : ScalarLL es) : ScalarLL es.reverse := by
  induction es with
  | nil => trivial
  | cons e es ih =>
    rw [List.reverse_cons]
    exact scalarLL_append (ih h.2) ⟨h.1, trivial⟩

theorem tokenizeT_scalar (T : TokCfg) (s : Str) (ts : List Tree) (h : tokenizeT T s = .ok ts) : ScalarL ts := by
  unfold tokenizeT at h
  cases ht : topLoop T (fuelFor s) (initLexer s) [] [] with
  | ok p =>
    obtain ⟨a, e⟩ := p
    obtain ⟨ha, he⟩ := topLoop_scalar T _ _ [] [] a e scalarL_nil trivial ht
    simp only [ht, PR.bind, assemble] at h
    have hr := scalarLL_reverse e he
    cases hrev : e.reverse with
    | nil => simp only [hrev] at h; injection h with h; subst h; exact ha
    | cons e0 more =>
      simp only [hrev] at h
      rw [hrev] at hr
      split at h
      · cases h
      · injection h with h; subst h
        exact scalarL_append' ha (scalarL_cons (scalar_node (scalarL_append' hr.1 (scalarL_map_node more hr.2))) scalarL_nil)
  | _ => simp [ht, PR.bind] at h
end C13
