/-
C13 — model of the command tokenizer:
  * `supybot.shlex.shlex.read_token` / `get_token`           (src/shlex.py:69-192)
  * `callbacks.Tokenizer.__init__/_handleToken/_insideBrackets/tokenize`  (src/callbacks.py:306-410)
  * `callbacks.tokenize` (configuration, ValueError → SyntaxError)        (src/callbacks.py:412-427)
  * the codec chain of `_handleToken` at byte level: utf-8 encode → CPython's `unicode_escape`
    decoder → latin-1 encode → strict utf-8 decode (each failure branch as in the code)
  * `utils.str.dqrepr` (CPython's `unicode_escape` encoder + `replace('"', '\\"')`)   (src/utils/str.py:181-188)

Python exceptions are constructors of `PR`.  `\N{name}` escapes are decoded through a parameter
`names` (the Unicode name table as the codec sees it: a partial map from the bytes between the
braces to a code point).  CPython's recursion limit is not modelled
(the model recurses on a fuel that is proved sufficient in `Props.lean`).
Input strings with lone surrogates are outside the model's input type (`List Char`).  Inside the
model tokens are lists of code points (`List Nat`): an escape such as `\ud800` decodes to a lone
surrogate, which `_handleToken` rejects (since fix d2d591c: `token.encode('utf8')` raises
UnicodeEncodeError, a ValueError, reported as a syntax error).
-/
import LimnoriaModel.Py.Basic
import LimnoriaModel.Gen.Tokenizer
namespace C13
open Py

/-! ## result types -/

/-- `ValueError`s (all become `SyntaxError(str(e))` in `callbacks.tokenize`) -/
inductive VErr where
  | noClosingQuotation      -- shlex: ValueError("No closing quotation")
  | backslashAtEnd          -- UnicodeDecodeError: \ at end of string
  | truncatedX              -- truncated \xXX escape
  | truncatedU              -- truncated \uXXXX escape
  | truncatedBigU           -- truncated \UXXXXXXXX escape
  | illegalUnicode          -- illegal Unicode character (\U beyond 10FFFF)
  | malformedN              -- malformed \N character escape
  | unknownName             -- unknown Unicode character name
  | surrogate               -- UnicodeEncodeError: surrogates not allowed (token.encode('utf8'))
deriving DecidableEq, Repr

/-- `SyntaxError`s raised by the Tokenizer itself -/
inductive SErr where
  | missingRight | spuriousRight | pipeNothingBefore | pipeNothingAfter
deriving DecidableEq, Repr

/-- failures that are neither (what `tokenize_total` excludes) -/
inductive Crash where
  | indexError              -- `token[0]` on an empty token, `brackets[1]` on a one-character string
  | hang                    -- `read_token` loops for ever (lexer state matches no branch)
  | fuel                    -- the model's recursion bound was too small (never: see `Props`)
deriving DecidableEq, Repr

inductive PR (α : Type) where
  | ok (a : α)
  | valueError (e : VErr)
  | syntaxError (e : SErr)
  | crash (c : Crash)
deriving Repr

def PR.cast {α β : Type} : PR α → PR β
  | .ok _ => .crash .fuel      -- never used on `ok`
  | .valueError e => .valueError e
  | .syntaxError e => .syntaxError e
  | .crash c => .crash c

def PR.bind {α β : Type} (x : PR α) (f : α → PR β) : PR β :=
  match x with
  | .ok a => f a
  | .valueError e => .valueError e
  | .syntaxError e => .syntaxError e
  | .crash c => .crash c

/-- what the tokenizer returns: nested lists of tokens; a token is a list of code points -/
inductive Tree where
  | leaf (t : List Nat)
  | node (ts : List Tree)
deriving Repr

/-! ## the lexer (`shlex`) -/

structure LexCfg where
  whitespace : Str
  separators : Str
  quotes : Str

/-- the mutable fields of a `shlex` instance that matter (`token` is reset by every `read_token`;
`commenters` is `''`, `filestack` empty, `source` None — checked by the extractor).
`state`: `none` = Python `None` (past EOF), `some ' '`, `some 'a'`, or a quote character. -/
structure Lexer where
  input : Str
  state : Option Char
  backslash : Bool
  pushback : List Str

inductive RT where
  | tok (t : Str) (lx : Lexer)
  | valueError                       -- "No closing quotation"
  | hang

/-- the `while True:` loop of `read_token`, one character per iteration.  `token` is `self.token`. -/
def readLoop (cfg : LexCfg) : (input : Str) → (state : Option Char) → (token : Str) → (bs : Bool) →
    (pb : List Str) → RT
  | [], state, token, bs, pb =>                              -- nextchar == ''
    match state with
    | none => .tok [] ⟨[], none, bs, pb⟩                     -- self.token = ''; break
    | some st =>
      if st = ' ' then .tok token ⟨[], none, bs, pb⟩          -- state = None; break
      else if st ∈ cfg.quotes then .valueError               -- (one more turn if the flag is set, then) raise
      else if st = 'a' then .tok token ⟨[], none, bs, pb⟩
      else .hang
  | c :: cs, state, token, bs, pb =>
    match state with
    | none => .tok [] ⟨cs, none, bs, pb⟩
    | some st =>
      if st = ' ' then
        if c ∈ cfg.whitespace then
          (if token ≠ [] then .tok token ⟨cs, some ' ', bs, pb⟩ else readLoop cfg cs (some ' ') token bs pb)
        else if c ∉ cfg.separators then readLoop cfg cs (some 'a') [c] bs pb
        else if c ∈ cfg.quotes then readLoop cfg cs (some c) [c] bs pb
        else .tok [c] ⟨cs, some ' ', bs, pb⟩
      else if st ∈ cfg.quotes then
        if c = '\\' then readLoop cfg cs (some st) (token ++ [c]) (!bs) pb
        else if !bs && c = st then .tok (token ++ [c]) ⟨cs, some ' ', bs, pb⟩
        else readLoop cfg cs (some st) (token ++ [c]) false pb
      else if st = 'a' then
        if c ∈ cfg.whitespace then
          (if token ≠ [] then .tok token ⟨cs, some ' ', bs, pb⟩ else readLoop cfg cs (some ' ') token bs pb)
        else if c ∉ cfg.separators ∨ c ∈ cfg.quotes then readLoop cfg cs (some 'a') (token ++ [c]) bs pb
        else
          (if token ≠ [] then .tok token ⟨cs, some ' ', bs, [c] :: pb⟩
           else readLoop cfg cs (some ' ') token bs ([c] :: pb))
      else .hang

/-- `get_token` (no `source`, empty `filestack`): pushback first, else `read_token` -/
def getToken (cfg : LexCfg) (lx : Lexer) : RT :=
  match lx.pushback with
  | t :: rest => .tok t { lx with pushback := rest }
  | [] => readLoop cfg lx.input lx.state [] lx.backslash []

/-! ## the codec chain of `_handleToken` -/

/-- `str.encode('utf8')` -/
def utf8 (s : Str) : List UInt8 := s.flatMap String.utf8EncodeChar

/-- `bytes.decode()` (strict UTF-8); `none` = UnicodeDecodeError -/
def utf8Decode? (bs : List UInt8) : Option Str := bs.toByteArray.utf8Decode?.map Array.toList

abbrev UErr := VErr

def isOct (b : UInt8) : Bool := 0x30 ≤ b && b ≤ 0x37
def octVal (b : UInt8) : Nat := b.toNat - 0x30

def hexVal? (b : UInt8) : Option Nat :=
  if 0x30 ≤ b && b ≤ 0x39 then some (b.toNat - 0x30)
  else if 0x61 ≤ b && b ≤ 0x66 then some (b.toNat - 0x57)
  else if 0x41 ≤ b && b ≤ 0x46 then some (b.toNat - 0x37)
  else none

/-- the one-character escapes: `\\ \' \" \b \f \t \n \r \v \a` -/
def simpleEsc (b : UInt8) : Option Nat :=
  if b = 0x5C then some 0x5C else if b = 0x27 then some 0x27 else if b = 0x22 then some 0x22
  else if b = 0x62 then some 8 else if b = 0x66 then some 12 else if b = 0x74 then some 9
  else if b = 0x6E then some 10 else if b = 0x72 then some 13 else if b = 0x76 then some 11
  else if b = 0x61 then some 7 else none

inductive HexKind where | x | u | bigU
deriving DecidableEq, Repr

def HexKind.err : HexKind → VErr
  | .x => .truncatedX | .u => .truncatedU | .bigU => .truncatedBigU

/-- position inside an escape sequence -/
inductive Mode where
  | normal
  | esc                                       -- just after a backslash
  | oct (more : Bool) (v : Nat)               -- after 1 (`more`) or 2 octal digits
  | hex (left : Nat) (v : Nat) (k : HexKind)  -- `left + 1` hex digits still required
  | nameStart                                 -- just after `\N`: a `{` must follow
  | name (acc : List UInt8)                   -- inside `\N{`: bytes of the name so far

def consR (v : Nat) : Except UErr (List Nat) → Except UErr (List Nat)
  | .ok l => .ok (v :: l)
  | .error e => .error e

/-- the Unicode name table as the codec's `\N{…}` escape sees it: name bytes ↦ code point -/
abbrev Names := List UInt8 → Option Nat

/-- CPython `_PyUnicode_DecodeUnicodeEscapeInternal` (errors='strict', final=True), one byte per step.
Bytes that are not part of an escape are taken as code points (Latin-1 reading). -/
def uesc (names : Names) : Mode → List UInt8 → Except UErr (List Nat)
  | .normal, [] => .ok []
  | .esc, [] => .error .backslashAtEnd
  | .oct _ v, [] => .ok [v]
  | .hex _ _ k, [] => .error k.err
  | .nameStart, [] => .error .malformedN
  | .name _, [] => .error .malformedN
  | .normal, b :: bs => if b = 0x5C then uesc names .esc bs else consR b.toNat (uesc names .normal bs)
  | .esc, b :: bs =>
    if b = 0x0A then uesc names .normal bs                             -- backslash-newline: nothing
    else match simpleEsc b with
      | some v => consR v (uesc names .normal bs)
      | none =>
        if isOct b then uesc names (.oct true (octVal b)) bs
        else if b = 0x78 then uesc names (.hex 1 0 .x) bs
        else if b = 0x75 then uesc names (.hex 3 0 .u) bs
        else if b = 0x55 then uesc names (.hex 7 0 .bigU) bs
        else if b = 0x4E then uesc names .nameStart bs
        else consR 0x5C (consR b.toNat (uesc names .normal bs))        -- unknown escape: kept
  | .oct more v, b :: bs =>
    if isOct b then
      (if more then uesc names (.oct false (v * 8 + octVal b)) bs
       else consR (v * 8 + octVal b) (uesc names .normal bs))
    else consR v (if b = 0x5C then uesc names .esc bs else consR b.toNat (uesc names .normal bs))
  | .hex left v k, b :: bs =>
    match hexVal? b with
    | none => .error k.err
    | some d =>
      match left with
      | 0 => if v * 16 + d > 0x10FFFF then .error .illegalUnicode
             else consR (v * 16 + d) (uesc names .normal bs)
      | l + 1 => uesc names (.hex l (v * 16 + d) k) bs
  | .nameStart, b :: bs => if b = 0x7B then uesc names (.name []) bs else .error .malformedN
  | .name acc, b :: bs =>
    if b = 0x7D then
      (if acc.isEmpty then .error .malformedN
       else match names acc with
         | some v => consR v (uesc names .normal bs)
         | none => .error .unknownName)
    else uesc names (.name (acc ++ [b])) bs

/-- `str.encode('iso-8859-1')`; `none` = UnicodeEncodeError -/
def latin1? : List Nat → Option (List UInt8)
  | [] => some []
  | n :: ns => if n < 256 then (latin1? ns).map (UInt8.ofNat n :: ·) else none

def toCps (s : Str) : List Nat := s.map Char.toNat

/-- a Unicode scalar value (what `str.encode('utf8')` accepts) -/
def isScalar (n : Nat) : Bool := n < 0xD800 || (0xE000 ≤ n && n < 0x110000)

/-- `token.encode('utf8')` at the end of the chain: UnicodeEncodeError on a lone surrogate -/
def checkScalar (cps : List Nat) : PR (List Nat) :=
  if cps.all isScalar then .ok cps else .valueError .surrogate

/-- the body of `if token[0] == token[-1] and token[0] in self.quotes` after `token = token[1:-1]` -/
def decodeQuoted (names : Names) (content : Str) : PR (List Nat) :=
  match uesc names .normal (utf8 content) with
  | .error e => .valueError e
  | .ok cps =>
    match latin1? cps with
    | none => checkScalar cps                   -- `except: pass`
    | some bs =>
      match utf8Decode? bs with
      | none => checkScalar cps                 -- `except: pass`
      | some s => .ok (toCps s)

/-- `Tokenizer._handleToken` -/
def handleToken (names : Names) (quotes : Str) (token : Str) : PR (List Nat) :=
  match token.head?, token.getLast? with
  | some a, some b =>
    if a = b ∧ a ∈ quotes then decodeQuoted names (token.drop 1).dropLast
    else .ok (toCps token)
  | _, _ => .crash .indexError

/-! ## the parser (`Tokenizer`) -/

structure TokCfg where
  separators : Str
  left : Str
  right : Str
  pipe : Bool
  quotes : Str
  names : Names := fun _ => none      -- not a field of the Python object: the codec's name table

/-- `Tokenizer.__init__` -/
def mkTokenizer (brackets : Str) (pipe : Bool) (quotes : Str) (names : Names := fun _ => none) : Except Crash TokCfg :=
  let base := Gen.tokenizerSeparators
  let seps (s : Str) : Str := (if pipe then s ++ ['|'] else s) ++ quotes
  match brackets with
  | [] => .ok ⟨seps base, [], [], pipe, quotes, names⟩
  | [_] => .error .indexError                                      -- brackets[1]
  | l :: r :: _ => .ok ⟨seps (base ++ brackets), [l], [r], pipe, quotes, names⟩

def TokCfg.lexCfg (T : TokCfg) : LexCfg := ⟨Gen.shlexWhitespace, T.separators, T.quotes⟩

def rtCast {α : Type} : RT → PR α
  | .valueError => .valueError .noClosingQuotation
  | _ => .crash .hang

/-- `Tokenizer._insideBrackets`: the items up to the matching right bracket, and the lexer after it.
`fuel` bounds the number of `get_token` calls on one path. -/
def insideBrackets (T : TokCfg) : Nat → Lexer → PR (List Tree × Lexer)
  | 0, _ => .crash .fuel
  | n + 1, lx =>
    match getToken T.lexCfg lx with
    | .tok token lx' =>
      if token = [] then .syntaxError .missingRight
      else if token = T.right then .ok ([], lx')
      else if token = T.left then
        (insideBrackets T n lx').bind fun (sub, lx'') =>
          (insideBrackets T n lx'').bind fun (rest, lx3) => .ok (.node sub :: rest, lx3)
      else
        (handleToken T.names T.quotes token).bind fun t =>
          (insideBrackets T n lx').bind fun (rest, lx'') => .ok (.leaf t :: rest, lx'')
    | r => rtCast r

/-- the `while True:` loop of `Tokenizer.tokenize`; returns `(args, ends)` -/
def topLoop (T : TokCfg) : Nat → Lexer → List Tree → List (List Tree) → PR (List Tree × List (List Tree))
  | 0, _, _, _ => .crash .fuel
  | n + 1, lx, args, ends =>
    match getToken T.lexCfg lx with
    | .tok token lx' =>
      if token = [] then .ok (args, ends)
      else if token = ['|'] ∧ T.pipe = true then
        (if args.isEmpty then .syntaxError .pipeNothingBefore else topLoop T n lx' [] (ends ++ [args]))
      else if token = T.left then
        (insideBrackets T n lx').bind fun (sub, lx'') => topLoop T n lx'' (args ++ [.node sub]) ends
      else if token = T.right then .syntaxError .spuriousRight
      else
        (handleToken T.names T.quotes token).bind fun t => topLoop T n lx' (args ++ [.leaf t]) ends
    | r => rtCast r

/-- the `if ends:` epilogue: `args.append(ends.pop()); while ends: args[-1].append(ends.pop())` -/
def assemble (args : List Tree) (ends : List (List Tree)) : PR (List Tree) :=
  match ends.reverse with
  | [] => .ok args
  | e :: more =>
    if args.isEmpty then .syntaxError .pipeNothingAfter
    else .ok (args ++ [.node (e ++ more.map .node)])

def initLexer (s : Str) : Lexer := ⟨s, some ' ', false, []⟩

def fuelFor (s : Str) : Nat := 2 * s.length + 3

/-- `Tokenizer(...).tokenize(s)` -/
def tokenizeT (T : TokCfg) (s : Str) : PR (List Tree) :=
  (topLoop T (fuelFor s) (initLexer s) [] []).bind fun (args, ends) => assemble args ends

/-! ## `callbacks.tokenize` -/

/-- the four registry values read by `callbacks.tokenize` -/
structure Conf where
  nested : Bool
  brackets : Str
  pipeSyntax : Bool
  quotes : Str
  names : Names := fun _ => none

inductive SynKind where
  | value (e : VErr)       -- SyntaxError(str(ValueError))
  | syn (e : SErr)
deriving DecidableEq, Repr

inductive Result where
  | tree (ts : List Tree)
  | syntaxError (k : SynKind)
  | crash (c : Crash)
deriving Repr

def effBrackets (c : Conf) : Str := if c.nested then c.brackets else []
def effPipe (c : Conf) : Bool := c.nested && c.pipeSyntax

def tokenize (c : Conf) (s : Str) : Result :=
  match mkTokenizer (effBrackets c) (effPipe c) c.quotes c.names with
  | .error cr => .crash cr
  | .ok T =>
    match tokenizeT T s with
    | .ok ts => .tree ts
    | .valueError e => .syntaxError (.value e)
    | .syntaxError e => .syntaxError (.syn e)
      | .crash cr => .crash cr

/-! ## writers: manual quoting and `utils.str.dqrepr` -/

/-- backslash-escape `\` and `"` -/
def quoteBody (x : Str) : Str := x.flatMap fun c => if c = '\\' ∨ c = '"' then ['\\', c] else [c]

/-- the argument written in double quotes with backslash escaping -/
def quote (x : Str) : Str := '"' :: quoteBody x ++ ['"']

def hexDigit (n : Nat) : Char := if n < 10 then Char.ofNat (48 + n) else Char.ofNat (87 + n)

/-- `'%0<k>x' % n` for `n < 16^k` -/
def hexN : Nat → Nat → Str
  | 0, _ => []
  | k + 1, n => hexN k (n / 16) ++ [hexDigit (n % 16)]

/-- one character of `dqrepr` before the quote replacement (since fix 2552894): CPython's
`unicode_escape` encoder for ASCII, anything else as it is -/
def uescEncodeChar (c : Char) : Str :=
  let n := c.toNat
  if n ≥ 0x80 then [c]
  else if c = '\t' then ['\\', 't']
  else if c = '\n' then ['\\', 'n']
  else if c = '\r' then ['\\', 'r']
  else if c = '\\' then ['\\', '\\']
  else if n < 0x20 ∨ n = 0x7f then '\\' :: 'x' :: hexN 2 n
  else [c]

/-- `s.replace('"', '\\"')` -/
def escapeDq (s : Str) : Str := s.flatMap fun c => if c = '"' then ['\\', '"'] else [c]

def dqreprBody (s : Str) : Str := escapeDq (s.flatMap uescEncodeChar)

/-- `utils.str.dqrepr` -/
def dqrepr (s : Str) : Str := '"' :: dqreprBody s ++ ['"']

end C13
