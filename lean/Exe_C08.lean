import LimnoriaModel.C08.Drive
def main : IO Unit := Driver.run C08.handler
