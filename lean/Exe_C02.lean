import LimnoriaModel.C02.Drive
def main : IO Unit := Driver.run C02.handler
