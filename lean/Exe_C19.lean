import LimnoriaModel.C19.Drive
def main : IO Unit := Driver.run C19.handler
