import LimnoriaModel.C07.Drive
def main : IO Unit := Driver.run C07.handler
