import LimnoriaModel.C09.Drive
def main : IO Unit := Driver.run C09.handler
