import LimnoriaModel.C03.Drive
def main : IO Unit := Driver.run C03.handler
