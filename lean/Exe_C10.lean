import LimnoriaModel.C10.Drive
def main : IO Unit := Driver.run C10.handler
